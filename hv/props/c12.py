"""C12 — Paxos family, leader election, distributed lock.

Correspondence (DESIGN §4 message-passing style): real `PaxosNode` / `MultiPaxosNode` /
`FlexiblePaxosNode` / `LeaderElection` entities run inside the real `Simulation` with the real
`Network`; the harness chooses every message's latency (a `LatencyDistribution` that looks the
current message up in the case) and the retry jitter (`paxos.random` is replaced by a stub that
replays the case's draws).  Every event delivered to a node is recorded together with the node's
state afterwards and the messages its handler returned; the recorded *schedule* (which message
was delivered, which timer fired, which client call happened) is replayed through the Lean model
(`HappyModel/C12`), and both transcripts are diffed line by line.  The Lean Spec predicates
(`HappyModel/C12/Spec.lean`) judge the implementation's own transcript.

`DistributedLock` is driven by direct calls (operation lists).
"""
from __future__ import annotations

import json
import os
import random

from hv import core

# the model replays the schedule recorded from the implementation run of the same case (GUIDE rule 8);
# `core.evaluate` hands `model_block` only the case, so implementation runs are memoised in this
# process instead of being farmed out to the fork pool (5 ms per case)
os.environ["HV_SERIAL"] = "1"

END_NS = 60_000_000_000
MAX_STEPS = 500


def _ns(x):
    return int(x)


# ------------------------------------------------------------------------------------ engine glue


def _mk_network(case, names, msg_key):
    """real Network, full mesh of real NetworkLinks whose latency is chosen per message by the case"""
    from happysimulator.components.network.link import NetworkLink
    from happysimulator.components.network.network import Network
    from happysimulator.core.temporal import Duration
    from happysimulator.distributions.latency_distribution import LatencyDistribution

    ctx = {"cur": None, "k": 0}
    lat = case.get("lat") or [1_000_000]
    latmap = case.get("latmap") or {}
    linklat = case.get("linklat") or {}      # "src>dst" (node indices) -> ns: a slow / fast directed link

    class Chosen(LatencyDistribution):
        def __init__(self):
            super().__init__(0.001)

        def get_latency(self, current_time):
            ev = ctx["cur"]
            k = ctx["k"]
            ctx["k"] = k + 1
            ns = lat[k % len(lat)]
            if ev is not None:
                if linklat:
                    m = ev.context.get("metadata", {})
                    lk = f"{str(m.get('source', '?'))[1:]}>{str(m.get('destination', '?'))[1:]}"
                    if lk in linklat:
                        ns = linklat[lk]
                key = msg_key(ev)
                if key in latmap:
                    ns = latmap[key]
            return Duration(int(ns))

    net = Network(name="net")
    orig = net.handle_event

    def routed(event):
        ctx["cur"] = event
        return orig(event)

    net.handle_event = routed
    return net, Chosen, NetworkLink, ctx


def _mesh(net, Chosen, NetworkLink, nodes):
    for a in nodes:
        for b in nodes:
            if a is not b:
                net.add_link(a, b, NetworkLink(name=f"l_{a.name}_{b.name}", latency=Chosen()))


def _instant(ns):
    from happysimulator.core.temporal import Instant
    return Instant(int(ns))


class _Jitter:
    """stand-in for the `random` module inside paxos.py / election_strategies.py: replays draws"""

    def __init__(self, draws, ints=None):
        self.draws = list(draws) or [0.0]
        self.ints = list(ints or [1])
        self.k = 0
        self.j = 0

    def random(self):
        d = self.draws[self.k % len(self.draws)]
        self.k += 1
        return d

    def randint(self, a, b):
        d = self.ints[self.j % len(self.ints)]
        self.j += 1
        return max(a, min(b, d))


def _inst_body(case, impl_out):
    """observables of one consensus instance for the Lean judge: values proposed, every node's report after every
    step, resolved futures, and the messages seen on the network: `aprop p b v` (Accept(b, v) sent by p),
    `vote d b v` (d answered Accept(b, v) with Accepted), `prm f b -|bm:vm` (f answered Prepare(b) with a Promise
    reporting bm:vm); ballots as naturals number * n + node"""
    n = case["n"]

    def nb(t):
        a, b = t.split(".")
        return int(a) * n + int(b)

    body = []
    act = None
    sent = {}                      # (ballot, destination) -> value of the last Accept sent
    props = set()
    last = {}                      # node -> its last report
    call = None                    # the propose() call of the current step: [node, report before, future id, resolved with]
    nfut = 0

    def flush():
        if call is not None:
            body.append(f"pcall {call[0]} {call[1]} {call[3]}")

    for l in impl_out:
        t = l.split()
        if t[0] in ("step", "final") and call is not None:
            flush()
            call = None
        if t[0] == "step":
            act = t[2:]
            if act[0] == "propose":
                body.append(f"proposed {act[2]}")
                call = [act[1], last.get(act[1], "-"), nfut, "-"]
                nfut += 1
        elif t[0] == "node":
            body.append(f"rep {t[1]} {t[9]}")
            last[t[1]] = t[9]
        elif t[0] == "final":
            body.append(f"rep {t[1]} {t[2]}")
        elif t[0] == "fut":
            body.append(f"fut {t[1]} {t[2]}")
            if call is not None and int(t[1]) == call[2]:
                call[3] = t[2]
        elif t[0] == "send" and act is not None:
            if t[1] == "Accept":
                if (t[3], t[4]) not in props:
                    props.add((t[3], t[4]))
                    body.append(f"aprop {t[3].split('.')[1]} {nb(t[3])} {t[4]}")
                sent[(t[3], t[2])] = t[4]
            elif t[1] == "Accepted" and act[0] == "accept" and (act[1], act[2]) in sent:
                body.append(f"vote {act[2]} {nb(act[1])} {sent[(act[1], act[2])]}")
            elif t[1] == "Promise" and act[0] == "prepare":
                rep = "-"
                if t[4] != "-":
                    ab, av = t[4].split(":")
                    rep = f"{nb(ab)}:{av}"
                body.append(f"prm {act[2]} {nb(act[1])} {rep}")
    return body


def _v(x):
    """legacy cases (no value palette): values cross as naturals; None is 0"""
    return 0 if x is None else int(x)


# Value palette.  A case that has a `vals` list proposes arbitrary Python objects: `vals[k]` is a Python
# expression (evaluated with `_val`), an op refers to its value by the index k, the implementation run gets
# the real object, and every value the implementation shows (decided_value, future results, message payloads,
# log entries) crosses to the model / judge as a *code*: 0 for None, 1 + k for the first palette entry of the
# same type and the same repr, FOREIGN for anything else.  `1`, `True` and `1.0` (equal, same hash) therefore
# have three different codes, and so have `0`, `False`, `0.0`, `''`, `()`, `[]` (all falsy).
FOREIGN = 999
FALSY = ["0", "''", "False", "0.0", "()", "[]", "{}", "b''", "None", "frozenset()", "0j", "range(0)"]
EQUAL_DISTINCT = ["1", "True", "1.0", "(1+0j)"]
TRUTHY = ["'x'", "70", "71", "-1", "'0'", "'None'", "'False'", "(0,)", "[0]", "[None]", "{'k': 0}", "2", "' '", "[[]]"]
PALETTE = FALSY + EQUAL_DISTINCT + TRUTHY
_VAL_NS = {"frozenset": frozenset, "range": range}


def _val(expr):
    """a fresh object for a palette expression"""
    return eval(expr, {"__builtins__": {}}, dict(_VAL_NS))


def _same(a, b):
    return type(a) is type(b) and repr(a) == repr(b)


def _coder(vals, none_code=0):
    """object -> code for one case (`vals` = the case's palette expressions, or None for a legacy case)"""
    if vals is None:
        return _v
    table = {}
    for k, e in enumerate(vals):
        o = _val(e)
        table.setdefault((type(o), repr(o)), 1 + k)

    def code(x):
        if x is None and none_code is not None:
            return none_code
        return table.get((type(x), repr(x)), FOREIGN)

    return code


def _pick_vals(rng, k):
    """k distinct palette expressions (no two of the same type and repr): the earliest proposals are mostly
    falsy, equal-but-distinct groups (0/False/0.0, 1/True/1.0) tend to appear together"""
    r = rng.random()
    if r < 0.15:
        pool = list(EQUAL_DISTINCT) + ["0", "False", "0.0"]
        rng.shuffle(pool)
        out = pool[:k]
    else:
        out = []
        for j in range(k):
            src = FALSY if rng.random() < (0.75 if j == 0 else 0.4) else (EQUAL_DISTINCT + TRUTHY)
            for _ in range(20):
                e = rng.choice(src)
                if e not in out:
                    out.append(e)
                    break
    while len(out) < k:
        e = rng.choice(PALETTE)
        if e not in out:
            out.append(e)
    return out


# ------------------------------------------------------------------------------------ the property


class C12(core.Property):
    id = "C12"
    driver = "drv-c12"
    lake_targets = ["HappyProofs.C12.Props", "drv-c12"]
    audit_imports = ["HappyProofs.C12.Props"]
    lean_files = ["HappyModel/C12/*.lean", "HappyProofs/C12/*.lean", "HappyModel/Proto.lean", "Driver/C12.lean"]
    theorems = []
    variants = ["repaired", "current"]   # single-decree Paxos only; the other families have one model
    quick_cases = 3000
    thorough_cases = 40000
    case_timeout_s = 30
    rule = ("families: paxos (3-5 real PaxosNodes in the real engine + Network, 1-4 proposals incl. several on one node, "
            "per-message latencies from small pools with late/never-delivered outliers, optional partition window, retry delay and "
            "jitter draws generated; proposed values drawn from the falsy / equal-but-distinct / truthy palette, the first proposal falsy in 75 % of the cases; "
            "hand-off scenario 10 %: a proposer gets its value accepted by a quorum (or one less / more) while the others are cut off, then it is cut off "
            "(or its Decided messages are lost) and a node that saw nothing proposes another value, optionally a third; non-trivial = some Accept was sent); "
            "mpaxos / fpaxos commands: 70 % from the palette, as the value of a KV set command or as the raw command applied by an echo StateMachine; mpaxos / fpaxos (MultiPaxosNode / FlexiblePaxosNode, 2-8 "
            "start/submit calls on random nodes; fpaxos: (q1,q2) with q1+q2>n, mostly asymmetric in both directions and tight (q1+q2=n+1), n 3-5, "
            "half of the cases the take-over scenario: a leader cut off with exactly q1 (or q1+-1, q2-1, q2) nodes on its side runs phase 1 and proposes "
            "inside the partition, heal, a node of the other side takes over with another command for the same slot); stable leader 10 % (fault-free: 2-7 commands parked on one node, its single start(), per-link constant latency for what the leader sends, "
            "every Accepted message with a latency of its own so that acknowledgements of later slots overtake those of earlier ones — later-faster / one slot slow / first slot slow / random; "
            "run long enough for everything to arrive); slow-prepare take-over (mpaxos 70% / fpaxos: "
            "the new leader's link to the old leader is 4-45x slower than the others, commands submitted to the old leader from 2 ms before to `slow` ms after the instant it "
            "promises and to the new leader around the instant it leads, optional later start() rounds); election (LeaderElection x Bully/Ring/Randomized, "
            "uniform member views; join scenario: a node unknown to the group (mostly the highest id) knows everybody, runs its first election late, add_member around that "
            "instant, one directed link out of the old leader 60-350 ms slow against heartbeats every 10-60 ms); lock (4-60 acquire/try/release/expire calls and LockAcquireRequest/LockReleaseRequest events on 1-3 locks, "
            "tokens at/around the live token of the lock (a mirror of the manager runs in the generator), 35 % of them spelled as an equal-but-distinct or falsy object, "
            "max_waiters 0-2; non-trivial = >= 2 grants). distinct = distinct case content")
    trusted_base = [
        "hv/props/c12.py adapters: per-node handle_event wrappers that record delivered events, returned messages and node state",
        "private attributes read for the lock-step comparison only: PaxosNode._promised_ballot/_accepted_ballot/_accepted_value/_current_ballot, "
        "MultiPaxosNode._current_ballot/_last_applied, LeaderElection._election_in_progress/_members/_last_leader_heartbeat (the judge reads public API only)",
        "node names n0..n4 (string order = index order); Python tuple order on Ballot = order of number*n+index",
        "retry jitter / RandomizedStrategy draws replaced by case-provided draws (module attribute `random` of paxos.py / election_strategies.py)",
        "the real Network delivers payloads unchanged (payloads are compared when sent; Multi-Paxos and election replays take the payload of a delivered event from the implementation's schedule)",
        "history variables votes/proms/proposedVals are fields of the executable Paxos state (O(1) conses) instead of an erasable wrapper",
    ]
    assumptions = [
        "'a proposer's future resolves with the decided value' is judged as safety: a resolved future carries the decided value (a future that never resolves, e.g. when the node learns the decision through PaxosDecided, is not judged)",
        "values are arbitrary Python objects from a palette (falsy: 0, '', False, 0.0, (), [], {}, b'', None, frozenset(), 0j, range(0); equal but distinct: 1, True, 1.0, (1+0j); "
        "truthy: strings, ints, containers holding falsy things); they cross to the model / judge as codes: 0 = None, 1 + k = k-th palette entry of the case, compared by type and repr "
        "(so 0, False and 0.0 are three values), 999 = an object that is none of them.  Two objects of the same type and repr count as the same value",
        "phase-1 report rule (paxos/promise/hides-accepted-value, …/reports-value-never-accepted): from the messages on the network — a node that answered Accept(b', v) with Accepted and later "
        "answers Prepare(b), b' < b, with a Promise reports an accepted ballot >= b' (not 'nothing'); a reported (ballot, value) was sent in an Accept by the ballot's owner or acknowledged by "
        "the promising node.  The proposer's promise to itself is not a message and is not judged (its effect is, through agreement)",
        "paxos/future/unresolved-on-decided-node: propose() on a node whose is_decided was true after its previous step returns a future that is already resolved with that decided value",
        "lock tokens: release / expire / LockReleaseRequest are also called with True, 1.0, (1+0j), 2.0 … (equal to a token under ==, so they release), and with False, 0.0, None, '', '1', 1.5, -1, (), [1] "
        "(equal to no token); requester 0 and lock 0 are the empty string in 60 % of the cases (DistributedLock.get_fencing_token reports None for a lock held by '' — modelled as is, not part of the fencing clause)",
        "Multi-Paxos 'reported decision' of a node for a slot = its committed log entry (public node.log), after every delivered event",
        "message loss / partitions are schedules in which a sent message is never delivered",
        "commit rule (mpaxos|fpaxos/commit/without-phase2-quorum): judged in the acknowledgement form — when an Accepted delivery raises the receiver's "
        "public commit_index, 1 (own entry) + the number of Accepted messages for that slot delivered to it so far is >= q2. The distinct-acceptor form "
        "(>= q2 different nodes accepted (ballot, slot, value)) is FALSE of the pinned tree (acks are counted per slot: duplicates, other ballots) — "
        "theorem MP.commit_distinct_quorum_current_false; it is measured per run (coverage.commit_rule_measured_not_judged) and judged only with "
        "C12.strict_commit_quorum = True (signature */commit/fewer-distinct-acceptors-than-phase2-quorum). Slots committed as the prefix of the "
        "acknowledged slot are not judged by this clause",
        "phase-1 rule (mpaxos|fpaxos/leader/without-phase1-quorum): when start() or a delivered Promise turns the public is_leader of a node from false "
        "to true, 1 (its own start) + the number of Promise messages for that ballot number delivered to it so far is >= q1 (responses counted as the "
        "implementation counts them: per message, not per distinct sender)",
        "deposed-leader rule (mpaxos|fpaxos/leader/still-leader-after-promising-higher-ballot, …/deposed-leader-assigns-slot): a node that answers a Prepare "
        "with a Promise (recorded message) has public is_leader false afterwards; from that promise until a phase-1 response leaves it leader again "
        "(is_leader false -> true, or >= q1 responses for that ballot number) it neither makes its public log grow inside submit() nor sends an Accept. "
        "Leadership kept across a delivered Accept / regained through promises for an older ballot number (both true of the pinned tree) is not judged by this rule",
        "bounded progress (mpaxos|fpaxos/progress/replicated-slot-never-committed-by-stable-leader, …/future-never-resolved-by-stable-leader): judged only on quiet fault-free stable-leader runs — "
        "exactly one start() in the whole run, no partition op, and every Prepare / Promise / Accept / Accepted / Nack recorded as sent was delivered before the end (delivery watchdog not hit).  Then every "
        "(slot, command) the leader sent an Accept for is in the leader's committed prefix at the end, and the submit() future of that command is resolved with (slot, that command's result).  "
        "Commands the leader never replicated (submitted after it led, or to another node) are not covered",
        "agreement trigger (mpaxos|fpaxos/agreement/two-values/<trigger>): the two-values signature is suffixed with how the second command reached the slot, read from "
        "the recorded Accept and Promise messages: value-never-proposed-for-slot | one-ballot-two-proposers | after-leader-change-ignoring-promise-logs | "
        "after-leader-change; no suffix = one node proposed both commands for the slot under one ballot (none of the pinned tree's mechanisms)",
        "election per-node rules: (current_term, current_leader) of a node is read before and after every handler invocation; a delivered LeaderHeartbeat whose "
        "term is below the receiver's current_term must change neither (election/leader/changed-within-term-by-stale-heartbeat); the leader may change inside an "
        "unchanged term only on a heartbeat stamped with at least that term (election/leader/changed-within-term-without-heartbeat). Two nodes claiming one term number "
        "(per-node term counters) stays with election/one-leader-per-term/two-leaders when member views differ or change (add_member) during the run; with one member set "
        "given to every node and no add_member the signature is election/one-leader-per-term/two-leaders-with-identical-static-views (not a known finding: every strategy of "
        "the pinned tree then only ever announces max(members) — theorem El.election_one_leader_per_term_static for the message-soup model of the three strategies)",
    ]
    hypotheses = ["flexible_quorums_intersect: n < q1 + q2, quorums are duplicate-free lists of node indices < n",
                  "flexible_paxos_agreement: n < q1 + q2 and 0 < q2 (FlexiblePaxosNode enforces q1 + q2 > n; q2 = 0 would make every decision vacuous)",
                  "paxos_validity: 0 < q2",
                  "MP.deposed_leader_never_assigns / MP.deposed_judge_silent: every action's node index is < n (the harness has nodes 0..n-1 only)",
                  "El.election_one_leader_per_term_static / El.static_views_leader_is_highest: UniformViews n views — n nodes, each given a duplicate-free member list of exactly 0..n-1 "
                  "(any insertion order); no add_member during the run; a Victory / LeaderHeartbeat / Token is delivered only if it was sent (El.enabled)",
                  "MP.stable_leader_commits_any_ack_order / MP.stable_leader_resolves_future: every action of the sequence is an Accepted delivery or a handler of a node other than the leader "
                  "(StableAct); the slot lies inside the leader's log, an acknowledgement for it is in the sequence and the counted acknowledgements reach q2 by the end; for the future: the leader has applied "
                  "what it committed (Caught) and the future is registered for the slot",
                  "Px.paxos_judge_silent_on_model / agreement_on_model / futures_on_model: n < q1 + q2 and 0 < q2 (validity_on_model: 0 < q2; stability_on_model: none); the transcript is Px.instOf: the report of an "
                  "arbitrary node (any function of the action) after every step, of every node < n at the end, all resolved futures, all values handed to propose()",
                  "Px.single_proposer_decides: p < n, b % n = p, n < q1 + q2, 2 <= q1, 1 <= q2; Q1, Q2 duplicate-free lists of acceptors < n without p, |Q1| + 1 >= q1, |Q2| + 1 >= q2; every action of the two "
                  "schedule segments is a delivery of ballot-b traffic or of a Decided message not addressed to p (DelivB, NotTo); Before(recvPrepare b d, recvPromise b d) in the first segment for d in Q1, "
                  "Before(recvAccept b d, recvAccepted b d) in the second for d in Q2",
                  "Px.prepare_step / accept_step / accepted_step / decide_G / decided_step: the state satisfies G n q1 q2 p b (configuration fixed, ballot b of p live with its future 0, every acceptor's promise <= b, "
                  "p promised b, phase-1 / phase-2 quorum guards); accepted_step / decide_G: b % n = p; decided_step: the Decided message is not addressed to p",
                  "promise_judge_silent: lo is a subset and hi a superset of the votes of the run, proms a subset of its promises"]
    partial_theorems = {
        "slot_agreement": "Multi-Paxos / Flexible-Paxos slot agreement is REFUTED for the pinned tree (slot_agreement_current_false, "
                          "flexible_slot_agreement_current_false, slot_agreement_full_current_false); no repaired Multi-Paxos variant is modelled: "
                          "`slot_agreement_full` is stated, not proved (the repair is a redesign; per slot it is single-decree Paxos, for which flexible_paxos_agreement is proved)",
        "commit_needs_phase2_quorum (distinct-acceptor form)": "the distinct-acceptor reading (>= q2 different nodes accepted (ballot, slot, value) at a leader commit) is "
                                                               "REFUTED for the pinned tree (commit_distinct_quorum_current_false: duplicate Accepted messages of one acceptor are "
                                                               "counted); proved and judged is the acknowledgement form (commit_needs_phase2_quorum), which the distinct form implies",
        "election_one_leader_per_term": "REFUTED in general (election_two_leaders_one_term: a joining node reuses a term). PROVED for identical static member views "
                                        "(El.election_one_leader_per_term_static, El.static_views_leader_is_highest) in the message-soup system El.Sys of HappyModel/C12/ElSoup.lean: "
                                        "Victory / LeaderHeartbeat / Token deliveries need a sent message (kept forever: duplication, reordering, loss), timers, challenges, suppressions and "
                                        "ballots are unconstrained, no add_member.  Trusted link: the engine delivers only payloads that were sent (the per-step replay compares every sent payload)",
        "stable_leader_progress (bounded liveness, Multi-Paxos / Flexible Paxos)": "judged: in a quiet fault-free stable-leader run every slot the leader replicated is committed on it and its "
            "submit() future resolved with its own command (mpaxos|fpaxos/progress/…).  Proved for all states and all stable action sequences, from the instant the leader has assigned its slots: "
            "MP.stable_leader_commits_any_ack_order, MP.stable_leader_resolves_future (acknowledgements of different slots in any order, duplicates, other nodes' handlers interleaved).  MP.new_leader_commits_parked_commands composes them with "
            "_become_leader (the i-th parked command gets slot len + i + 1 with one acknowledgement and its future; MP.promise_quorum_becomes_leader / MP.start_alone_becomes_leader: the two call sites).  MP.stable_leader_progress "
            "(= MP.stable_leader_progress_full) is the end-to-end form from `init`: commands cs parked on p, its only start(), the q1 - 1 promises it needs, then any stable action sequence that delivers "
            "every slot's acknowledgements (any order) => commit_index = |cs| on p and the i-th future resolved with (i + 1, cs[i]); MP.progress_judge_silent: Spec.judgeProgress accepts the model's own "
            "transcript (obsRun, committed commands, futures) of every such run with distinct commands.  The schedule shape (submits, start, promises, stable actions with the acknowledgement counts) is "
            "the hypothesis, not a decidable predicate over arbitrary schedules (late duplicate promises, which re-replicate, are outside the proved shape; the judge covers them).  Not covered, "
            "because false of the pinned tree: a command submitted to an *established* leader is appended but never replicated (submit() returns no events), a command submitted to a non-leader is parked; "
            "followers learn the commit index only from later Accepts / heartbeats (MultiPaxosNode stops heartbeating after its first own tick) — 'applied at every node' is not judged",
        "single_proposer_decides (liveness)": "bounded-progress form PROVED for the message-soup model (Px.single_proposer_decides = Px.single_proposer_decides_full, lean/HappyProofs/C12/PxLive.lean + PxLiveFull.lean): "
            "from init, p proposes v under ballot b, nobody else proposes; the first schedule segment delivers the Prepare to each acceptor of Q1 before its Promise back, the second the Accept to each acceptor "
            "of Q2 before its Accepted back — any order, repetitions, among any other deliveries of ballot-b traffic and Decided messages (loss = never delivered) => p decides v, its future resolves with v, "
            "nobody decides anything else, every other node has decided v or has Decided(v) of p waiting. Built from the per-delivery steps (invariant G, stages never lowered: Px.prepare_step, promise_step with "
            "start_G for _start_phase2, accept_step, accepted_step, decide_G, decided_step; Px.init_G: the state after propose) and a stage induction with counting. Concrete runs by decide: "
            "Px.single_proposer_example, counter-example Px.single_proposer_lost_link_undecided (one Promise never delivered: nobody decides). Not covered: engine time (the bound is 'the schedule contains the "
            "deliveries', not seconds), competing proposers / retries (excluded by hypothesis), q1 = 1 (phase 2 is entered on a delivered Promise only)",
        "paxos current variant": "stepCur (the pinned tree before fixes/C12-paxos-phase2-once.diff; /repo HEAD is the repaired code) keeps one network slot per (kind, ballot, peer). It differs from the "
                                 "pinned tree in exactly two situations (lean/HappyProofs/C12/PxCurExact.lean): A — _start_phase2(b) runs again while an Accept(b) to a peer is still undelivered (the slot then holds "
                                 "only the newer message / value; on the pinned tree both are in flight); B — an acceptor answers a second Accept(b) while its first Accepted(b) is undelivered (one flag, so one "
                                 "acknowledgement is counted where the pinned tree counts two). Everything else is mirrored exactly (Px.stepCur_eq_step: outside _handle_promise / _handle_accepted it is the repaired "
                                 "function). A schedule is replayed exactly iff it never delivers from a slot / flag made ambiguous by A / B; Px.curExact decides this, and both witnesses of the refutations satisfy it "
                                 "(witnessAgreement_exact, witnessNone_exact; witnessAgreement does hit A, the overwritten Accepts are never delivered). Making the slots multisets would change the state type under "
                                 "all repaired-variant invariants (Net1/Net2) and was not done",
    }

    # ------------------------------------------------------------------ dispatch
    def generate(self, rng, i, tier):
        k = i % 10
        if i % 20 in (12, 15):
            return self._with_cmd_palette(rng, self.gen_stable_leader(rng, tier))
        if k in (0, 5):
            return self.gen_lock(rng, tier)
        if i % 20 == 18:
            return self.gen_election_join(rng, tier)
        if k == 6:
            return self._with_cmd_palette(rng, self.gen_takeover_slow_prepare(rng, tier))
        if k == 1:
            return self._with_cmd_palette(rng, self.gen_mpaxos(rng, tier))
        if k == 3:
            return self._with_cmd_palette(rng, self.gen_fpaxos(rng, tier))
        if k == 8:
            return self.gen_election(rng, tier, uniform=True)
        if k == 7:
            return self.gen_paxos_handoff(rng, tier)
        return self.gen_paxos(rng, tier)

    def _with_cmd_palette(self, rng, case):
        """Multi-Paxos / Flexible Paxos commands from the value palette (70 % of the cases)"""
        ncmd = max([o.get("cmd", 0) for o in case["ops"]] + [0])
        if ncmd and rng.random() < 0.7:
            case["cvals"] = _pick_vals(rng, ncmd)
            case["sm"] = rng.choice(["kv", "echo", "echo"])
        return case

    def run_impl(self, case):
        key = json.dumps(case, sort_keys=True)
        if key in self._memo:
            return self._memo[key]
        out = getattr(self, "impl_" + case["family"])(case)
        if len(self._memo) > 20000:
            self._memo.clear()
        self._memo[key] = out
        return out

    _memo: dict = {}

    def schedule(self, case):
        """the delivered-event schedule of the implementation run (GUIDE rule 8): the `step k …`
        lines of the implementation transcript without the counter"""
        try:
            out = self.run_impl(case)
        except Exception:
            return []
        return [" ".join(l.split()[2:]) for l in out if l.startswith("step ")]

    def model_block(self, case, variant):
        return getattr(self, "model_" + case["family"])(case, variant)

    def judge_block(self, case, impl_out):
        if not impl_out or impl_out[0].startswith("IMPL-"):
            return None
        return getattr(self, "judge_" + case["family"])(case, impl_out)

    # ------------------------------------------------------------------ single-decree Paxos
    def gen_paxos(self, rng, tier):
        n = rng.choice([3, 3, 4, 5, 5])
        nprop = rng.choice([1, 2, 2, 3, 3, 4])
        ops = []
        t = 0
        for k in range(nprop):
            t += rng.choice([0, 0, 1, 2, 5, 20, 400]) * 1_000_000
            ops.append({"t": t, "op": "propose", "node": rng.randrange(n), "val": k})
        if rng.random() < 0.3:
            # a partition window: minority / majority split, healed later
            side = rng.sample(range(n), rng.randint(1, n - 1))
            t0 = rng.choice([0, 1, 2, 3, 6]) * 1_000_000
            ops.append({"t": t0, "op": "partition", "a": side})
            ops.append({"t": t0 + rng.choice([2, 5, 50, 800]) * 1_000_000, "op": "heal"})
        ops.sort(key=lambda o: o["t"])
        pool = rng.choice([[1], [1, 2], [1, 2, 3, 5, 8], [1, 1, 1, 40], [1, 2, 3, 900, 2000], [2, 2, 2, 2, 7, 100000]])
        lat = [rng.choice(pool) * 1_000_000 for _ in range(rng.choice([7, 13, 31, 64]))]
        jit = [rng.choice([0.0, 0.25, 0.5, 0.999]) for _ in range(5)]
        return {"family": "paxos", "n": n, "ops": ops, "lat": lat, "jit": jit,
                "retry_ms": rng.choice([1, 3, 10, 500]), "vals": _pick_vals(rng, nprop)}

    def gen_paxos_handoff(self, rng, tier):
        """sequential proposers: proposer A gets its value accepted by a set S of acceptors (a quorum, a quorum
        minus one, or A alone with one more) while the other nodes are cut off or slow; then A (sometimes with
        part of S) is cut off, or its Decided / Accepted messages are lost, and a node B that has seen nothing
        proposes another value: the only trace of the first value B's phase 1 can meet is the accepted state
        reported in the promises of S.  Optionally a third proposer follows in the same way."""
        ms = 1_000_000
        n = rng.choice([3, 3, 4, 5, 5])
        q = n // 2 + 1
        order = list(range(n))
        rng.shuffle(order)
        a = order[0]
        size = rng.choice([q, q, q, q - 1, q + 1])
        size = max(1, min(n - 1, size))
        side = sorted(order[:size])                       # A's side during the first round
        rest = [i for i in range(n) if i not in side]
        nprop = rng.choice([2, 2, 2, 3])
        vals = _pick_vals(rng, nprop)
        ops, latmap = [], {}
        t = rng.choice([0, 1, 100]) * ms
        lose = rng.random() < 0.35                        # no partition: the first round's Decided messages get lost instead
        if not lose:
            ops.append({"t": t, "op": "partition", "a": side})
        ops.append({"t": t, "op": "propose", "node": a, "val": 0})
        t += rng.choice([3, 4, 5, 6, 8, 20, 900]) * ms    # before / at / after the instant A decides (4 ms at 1 ms links)
        b = rng.choice(rest)
        if lose:
            for d in range(n):
                if d != a and (d == b or rng.random() < 0.7):
                    latmap[f"Decided:{a}:{d}:-:{0 if vals[0] == 'None' else 1}"] = 100_000 * ms
            if rng.random() < 0.5:
                for d in rest:
                    latmap[f"Prepare:{a}:{d}:1"] = rng.choice([2, 5, 100_000]) * ms
        else:
            ops.append({"t": t, "op": "heal"})
            # the second partition: A away, alone or with part of its side; B keeps a quorum whenever it can
            away = [a] + [i for i in side if i != a and rng.random() < 0.3]
            if n - len(away) < q and rng.random() < 0.8:
                away = [a]
            if rng.random() < 0.85:
                ops.append({"t": t, "op": "partition", "a": sorted(away)})
            t += rng.choice([0, 1, 100]) * ms
        ops.append({"t": t, "op": "propose", "node": b, "val": 1})
        if nprop == 3:
            t += rng.choice([2, 3, 5, 8, 50, 900]) * ms
            c = rng.choice([i for i in range(n) if i != b])
            if not lose and rng.random() < 0.5:
                ops.append({"t": t, "op": "heal"})
                if rng.random() < 0.6:
                    ops.append({"t": t, "op": "partition", "a": [b]})
            ops.append({"t": t, "op": "propose", "node": c, "val": 2})
        pool = rng.choice([[1], [1], [1, 2], [1, 1, 1, 3]])
        lat = [rng.choice(pool) * ms for _ in range(rng.choice([1, 7, 13]))]
        case = {"family": "paxos", "n": n, "ops": ops, "lat": lat, "jit": [rng.choice([0.0, 0.5, 0.999]) for _ in range(3)],
                "retry_ms": rng.choice([3, 10, 500]), "vals": vals}
        if latmap:
            case["latmap"] = latmap
        return case

    def impl_paxos(self, case):
        import happysimulator.components.consensus.paxos as px
        from happysimulator.core.event import Event
        from happysimulator.core.simulation import Simulation

        n = case["n"]
        names = [f"n{i}" for i in range(n)]
        idx = {nm: i for i, nm in enumerate(names)}
        vals = case.get("vals")
        _v = _coder(vals)                 # value -> code (legacy cases: the integer itself)

        def key(ev):
            m = ev.context.get("metadata", {})
            k = f"{ev.event_type[5:]}:{m.get('source', '?')[1:]}:{m.get('destination', '?')[1:]}:{m.get('ballot_number', '-')}"
            return k + (f":{_v(m['value'])}" if "value" in m else "")

        net, Chosen, NetworkLink, _ = _mk_network(case, names, key)
        saved_random = px.random
        px.random = _Jitter(case.get("jit", []))
        try:
            nodes = [px.PaxosNode(nm, net, retry_delay=case.get("retry_ms", 500) / 1000.0) for nm in names]
            for nd in nodes:
                nd.set_peers(nodes)
            _mesh(net, Chosen, NetworkLink, nodes)
            out = []
            futs = []  # (owner index, SimFuture, reported?)
            step = [0]

            def enc(num, node):
                return f"{num}.{idx[node]}"

            def bal(b):
                return "-" if b is None else enc(b.number, b.node_id)

            def state_line(i):
                nd = nodes[i]
                acc = "-" if nd._accepted_ballot is None else f"{bal(nd._accepted_ballot)}:{_v(nd._accepted_value)}"
                dec = _v(nd.decided_value) if nd.is_decided else "-"
                return f"  node {i} cur {nd._current_ballot.number} prom {bal(nd._promised_ballot)} acc {acc} dec {dec}"

            def emit_lines(evs):
                res = []
                for e in evs or []:
                    m = e.context.get("metadata", {})
                    t = e.event_type
                    if t == "PaxosRetry":
                        res.append(f"  timer Retry {m['original_ballot']}")
                        continue
                    d = idx[m["destination"]]
                    if t == "PaxosPrepare":
                        res.append(f"  send Prepare {d} {enc(m['ballot_number'], m['ballot_node'])}")
                    elif t == "PaxosPromise":
                        ab = "-" if m["accepted_ballot_number"] is None else f"{enc(m['accepted_ballot_number'], m['accepted_ballot_node'])}:{_v(m['accepted_value'])}"
                        res.append(f"  send Promise {d} {enc(m['ballot_number'], m['ballot_node'])} {ab}")
                    elif t == "PaxosNack":
                        res.append(f"  send Nack {d} {enc(m['ballot_number'], m['ballot_node'])} {m['highest_ballot_number']}")
                    elif t == "PaxosAccept":
                        res.append(f"  send Accept {d} {enc(m['ballot_number'], m['ballot_node'])} {_v(m['value'])}")
                    elif t == "PaxosAccepted":
                        res.append(f"  send Accepted {d} {enc(m['ballot_number'], m['ballot_node'])}")
                    elif t == "PaxosDecided":
                        res.append(f"  send Decided {d} {_v(m['value'])}")
                    else:
                        res.append(f"  send ? {t}")
                return res

            def fut_lines():
                res = []
                for k, f in enumerate(futs):
                    if not f[2] and f[1].is_resolved:
                        f[2] = True
                        res.append(f"  fut {k} {_v(f[1].value)}")
                return res

            def record(i, action, evs):
                out.append(f"step {step[0]} {action}")
                step[0] += 1
                out.append(state_line(i))
                out.extend(emit_lines(evs))
                out.extend(fut_lines())

            def wrap(i):
                nd = nodes[i]
                orig = nd.handle_event

                def handler(event):
                    m = event.context.get("metadata", {})
                    t = event.event_type
                    if step[0] >= MAX_STEPS:      # delivery-count watchdog (retry storms): the cluster freezes
                        return None
                    res = orig(event)
                    evs = res if isinstance(res, list) else ([] if res is None else [res])
                    if t == "PaxosPrepare":
                        a = f"prepare {enc(m['ballot_number'], m['ballot_node'])} {i}"
                    elif t == "PaxosPromise":
                        a = f"promise {enc(m['ballot_number'], m['ballot_node'])} {idx[m['source']]}"
                    elif t == "PaxosNack":
                        a = f"nack {enc(m['ballot_number'], m['ballot_node'])} {m['highest_ballot_number']}"
                    elif t == "PaxosAccept":
                        a = f"accept {enc(m['ballot_number'], m['ballot_node'])} {i}"
                    elif t == "PaxosAccepted":
                        a = f"accepted {enc(m['ballot_number'], m['ballot_node'])} {idx[m['source']]}"
                    elif t == "PaxosDecided":
                        a = f"decided {idx[m['source']]} {i}"
                    elif t == "PaxosRetry":
                        a = f"retry {i} {m['original_ballot']}"
                    else:
                        a = f"other {t}"
                    record(i, a, evs)
                    return res

                nd.handle_event = handler

            for i in range(n):
                wrap(i)
            sim = Simulation(end_time=_instant(END_NS), entities=[net, *nodes])

            def mk(op):
                def fn(event):
                    if step[0] >= MAX_STEPS:
                        return None
                    if op["op"] == "propose":
                        nd = nodes[op["node"]]
                        obj = op["val"] if vals is None else _val(vals[op["val"]])
                        f = nd.propose(obj)
                        futs.append([op["node"], f, False])
                        evs = [] if f.is_resolved else nd.start_phase1()
                        record(op["node"], f"propose {op['node']} {_v(obj)}", evs)
                        return evs
                    if op["op"] == "partition":
                        a = [nodes[i] for i in op["a"]]
                        b = [nodes[i] for i in range(n) if i not in op["a"]]
                        if a and b:
                            net.partition(a, b)
                        return None
                    if op["op"] == "heal":
                        net.heal_partition()
                    return None
                return fn

            for k, op in enumerate(case["ops"]):
                sim.schedule(Event.once(time=_instant(op["t"]), event_type=f"Op{k}", fn=mk(op)))
            sim.run()
            for i in range(n):
                nd = nodes[i]
                out.append(f"final {i} {_v(nd.decided_value) if nd.is_decided else '-'}")
            for k, f in enumerate(futs):
                out.append(f"finalfut {k} {f[0]} {_v(f[1].value) if f[1].is_resolved else '-'}")
            return out
        finally:
            px.random = saved_random

    def model_paxos(self, case, variant):
        n = case["n"]
        q = n // 2 + 1
        return (f"paxos {variant} {n} {q} {q}", self.schedule(case))

    def judge_paxos(self, case, impl_out):
        return ("judge-inst paxos", _inst_body(case, impl_out))


    # ------------------------------------------------------------------ Multi-Paxos / Flexible Paxos
    def gen_mpaxos(self, rng, tier, flex=False):
        n = rng.choice([3, 3, 4, 5])
        ops, t, c = [], 0, 1
        for _ in range(rng.choice([2, 3, 4, 6, 8])):
            t += rng.choice([0, 1, 2, 5, 30, 200]) * 1_000_000
            if rng.random() < 0.45:
                ops.append({"t": t, "op": "start", "node": rng.randrange(n)})
            else:
                ops.append({"t": t, "op": "submit", "node": rng.randrange(n), "cmd": c})
                c += 1
        if not any(o["op"] == "start" for o in ops):
            ops.append({"t": t + 1_000_000, "op": "start", "node": rng.randrange(n)})
        if rng.random() < 0.25:
            side = rng.sample(range(n), rng.randint(1, n - 1))
            t0 = rng.choice([0, 1, 2, 3, 6]) * 1_000_000
            ops.append({"t": t0, "op": "partition", "a": side})
            ops.append({"t": t0 + rng.choice([2, 5, 50, 800]) * 1_000_000, "op": "heal"})
        ops.sort(key=lambda o: o["t"])
        pool = rng.choice([[1], [1, 2], [1, 2, 3, 5, 8], [1, 1, 1, 40], [1, 2, 3, 300, 900]])
        lat = [rng.choice(pool) * 1_000_000 for _ in range(rng.choice([7, 13, 31]))]
        case = {"family": "fpaxos" if flex else "mpaxos", "n": n, "ops": ops, "lat": lat,
                "hb_ms": rng.choice([3, 50, 1000])}
        if flex:
            q1 = rng.randint(1, n)
            q2 = rng.randint(max(1, n - q1 + 1), n)
            case["q1"], case["q2"] = q1, q2
        return case

    @staticmethod
    def _fp_quorums(rng, n):
        """(q1, q2) with q1 + q2 > n: mostly asymmetric, in both directions (q1 < q2 and q1 > q2), the
        tight boundary q1 + q2 = n + 1 favoured"""
        pairs = [(a, b) for a in range(1, n + 1) for b in range(1, n + 1) if a + b > n]
        r = rng.random()
        if r < 0.45:
            pool = [p for p in pairs if p[0] < p[1]]
        elif r < 0.75:
            pool = [p for p in pairs if p[0] > p[1]]
        else:
            pool = pairs
        tight = [p for p in pool if p[0] + p[1] == n + 1]
        if tight and rng.random() < 0.6:
            pool = tight
        return rng.choice(pool)

    def gen_fpaxos(self, rng, tier):
        if rng.random() < 0.5:
            return self.gen_fpaxos_takeover(rng, tier)
        case = self.gen_mpaxos(rng, tier, flex=True)
        if rng.random() < 0.7:
            case["q1"], case["q2"] = self._fp_quorums(rng, case["n"])
            starts = [o for o in case["ops"] if o["op"] == "start"]
            if starts and rng.random() < 0.5:
                # a partition sized around the quorums with a starting node inside
                case["ops"] = [o for o in case["ops"] if o["op"] not in ("partition", "heal")]
                st = rng.choice(starts)
                side = self._side_around(rng, case["n"], st["node"], case["q1"], case["q2"])
                t0 = max(0, st["t"] - rng.choice([0, 1, 2]) * 1_000_000)
                case["ops"].append({"t": t0, "op": "partition", "a": side})
                case["ops"].append({"t": t0 + rng.choice([5, 20, 50, 300]) * 1_000_000, "op": "heal"})
                # partition first, heal last among simultaneous ops
                case["ops"].sort(key=lambda o: (o["t"], {"partition": 0, "heal": 2}.get(o["op"], 1)))
        return case

    @staticmethod
    def _side_around(rng, n, leader, q1, q2):
        """the leader's side of a partition: exactly q1 nodes (itself included, as the implementation
        counts it), or a size next to q1 / q2"""
        size = rng.choice([q1, q1, q1, q2 - 1, q2, min(q1, q2), q1 - 1, q1 + 1])
        size = max(1, min(n - 1, size))
        others = [i for i in range(n) if i != leader]
        rng.shuffle(others)
        return sorted([leader] + others[:size - 1])

    def gen_fpaxos_takeover(self, rng, tier):
        """Flexible Paxos, asymmetric quorums: a leader is cut off together with exactly q1 - 1 (or a
        neighbouring number of) acceptors, runs phase 1 and proposes a slot inside the partition (it
        can gather q1 acknowledgements there, itself included); the partition heals and a node of the
        other side takes over with a different command for the same slot."""
        ms = 1_000_000
        n = rng.choice([3, 4, 4, 5, 5])
        q1, q2 = self._fp_quorums(rng, n)
        ldr = rng.randrange(n)
        side = self._side_around(rng, n, ldr, q1, q2)
        rest = [i for i in range(n) if i not in side]
        other = rng.choice(rest)
        ops, t, c = [], 0, 1
        if rng.random() < 0.5:
            # the leader is established on the healthy network first: every node has seen its ballot
            ops.append({"t": t, "op": "start", "node": ldr})
            t += rng.choice([5, 10, 30]) * ms
        ops.append({"t": t, "op": "partition", "a": side})
        t += rng.choice([1, 2, 5]) * ms
        for _ in range(rng.choice([1, 1, 1, 2])):
            ops.append({"t": t, "op": "submit", "node": ldr, "cmd": c})
            c += 1
            t += rng.choice([0, 1, 3]) * ms
            ops.append({"t": t, "op": "start", "node": ldr})     # phase 1 + re-proposal inside the partition
            t += rng.choice([10, 20, 60]) * ms
        ops.append({"t": t, "op": "heal"})
        t += rng.choice([1, 5, 20]) * ms
        ops.append({"t": t, "op": "submit", "node": other, "cmd": c})
        c += 1
        t += rng.choice([0, 1, 5]) * ms
        ops.append({"t": t, "op": "start", "node": other})
        if rng.random() < 0.4:
            # a second round: its ballot number is above the old leader's whatever the node order
            t += rng.choice([10, 30]) * ms
            ops.append({"t": t, "op": "start", "node": other})
        if rng.random() < 0.3:
            t += rng.choice([10, 40, 200]) * ms
            nd = rng.randrange(n)
            if rng.random() < 0.5:
                ops.append({"t": t, "op": "submit", "node": nd, "cmd": c})
                t += ms
            ops.append({"t": t, "op": "start", "node": nd})
        pool = rng.choice([[1], [1], [1, 2], [1, 2, 3], [1, 1, 1, 8]])
        lat = [rng.choice(pool) * ms for _ in range(rng.choice([1, 7, 13]))]
        # the run ends some time after the last call (the heartbeat chatter of an idle leader adds nothing)
        return {"family": "fpaxos", "n": n, "ops": ops, "lat": lat, "hb_ms": rng.choice([50, 1000, 1000]),
                "q1": q1, "q2": q2, "end_ms": t // ms + rng.choice([60, 300, 2500])}

    def gen_takeover_slow_prepare(self, rng, tier):
        """Multi-Paxos / Flexible Paxos take-over over one slow directed link: node `old` leads; node `new`
        starts phase 1 while its link to `old` is slower than its links to the other acceptors, so (whenever
        q1 allows) `new` reaches its promise quorum without `old`, and its Prepare reaches `old` later than
        its heartbeat would on a fast link.  Commands are submitted to `old` around the instant it promises
        (before, at, inside and after the window that ends with the new leader's heartbeat) and to `new`
        around the instant it becomes leader."""
        ms = 1_000_000
        n = rng.choice([3, 3, 4, 5])
        flex = rng.random() < 0.3
        old = rng.randrange(n)
        new = rng.choice([i for i in range(n) if i != old])
        slow = rng.choice([4, 6, 10, 20, 45])
        linklat = {f"{new}>{old}": slow * ms}
        if rng.random() < 0.3:
            a, b = rng.sample(range(n), 2)
            linklat.setdefault(f"{a}>{b}", rng.choice([2, 3, 8, 30]) * ms)
        ops, c, t = [], 1, 0
        if rng.random() < 0.7:
            ops.append({"t": t, "op": "submit", "node": old, "cmd": c}); c += 1
        t += rng.choice([0, 1]) * ms
        ops.append({"t": t, "op": "start", "node": old})
        t1 = t + 2 * slow * ms + rng.choice([10, 20, 60]) * ms        # `old` is established, its first slots are committed
        ops.append({"t": t1, "op": "start", "node": new})
        t_prom = t1 + slow * ms                                       # the Prepare of `new` reaches `old`
        for _ in range(rng.choice([1, 1, 2, 3])):
            dt = rng.choice([-2 * ms, -ms, -1, 0, 1, ms // 2, ms, ms + ms // 2, 2 * ms - 1, 2 * ms, 3 * ms, slow * ms])
            ops.append({"t": max(t1, t_prom + dt), "op": "submit", "node": old, "cmd": c}); c += 1
        for _ in range(rng.choice([0, 1, 1, 2])):
            dt = rng.choice([0, ms, 2 * ms, 2 * ms + 1, 3 * ms, slow * ms + ms])
            ops.append({"t": t1 + dt, "op": "submit", "node": new, "cmd": c}); c += 1
        t_end = t_prom + 2 * slow * ms + 5 * ms
        if rng.random() < 0.6:
            # later phase-1 rounds: pending and uncommitted commands get (re)proposed
            for _ in range(rng.choice([1, 2])):
                t_end += rng.choice([5, 20, 50]) * ms
                ops.append({"t": t_end, "op": "start", "node": rng.choice([old, new, rng.randrange(n)])})
            t_end += 2 * slow * ms + 10 * ms
        ops.sort(key=lambda o: o["t"])
        case = {"family": "fpaxos" if flex else "mpaxos", "n": n, "ops": ops, "lat": [ms], "linklat": linklat,
                "hb_ms": rng.choice([1000, 1000, 1000, 50]), "end_ms": t_end // ms + rng.choice([5, 40])}
        if flex:
            case["q1"], case["q2"] = self._fp_quorums(rng, n)
        return case

    def gen_stable_leader(self, rng, tier):
        """Multi-Paxos / Flexible Paxos, fault-free, one stable leader: 2-7 commands are submitted to node `p`, then the
        one and only start() is called on `p`: on its phase-1 quorum it assigns the slots 1..k and replicates them all at
        the same instant.  Every link of the leader has its own constant latency for what the leader sends (so Accepts stay
        in slot order on each link), while every Accepted message gets a latency of its own, drawn so that acknowledgements
        for later slots overtake acknowledgements for earlier ones (mostly: the later the slot the faster its acks; or
        one slot's acks much slower than all others; or plain random).  No partition, no loss, nobody else starts; the run
        lasts long enough for every message to arrive.  Sometimes a command reaches `p` after it leads (appended, never
        replicated on the pinned tree: not covered by the progress clause) or another node (parked)."""
        ms = 1_000_000
        n = rng.choice([3, 3, 4, 5])
        flex = rng.random() < 0.3
        p = rng.randrange(n)
        k = rng.choice([2, 2, 3, 3, 4, 5, 7])
        ops, t = [], 0
        for c in range(1, k + 1):
            ops.append({"t": t, "op": "submit", "node": p, "cmd": c})
            t += rng.choice([0, 0, 1, 3]) * ms
        t_s = t + rng.choice([0, 1, 10]) * ms
        ops.append({"t": t_s, "op": "start", "node": p})
        linklat, latmap = {}, {}
        for d in range(n):
            if d != p:
                linklat[f"{p}>{d}"] = rng.choice([1, 1, 2, 5, 10]) * ms
                linklat[f"{d}>{p}"] = rng.choice([1, 1, 2, 5]) * ms            # promises (and acks not listed below)
        shape = rng.choice(["later-faster", "later-faster", "one-slow", "random", "first-slow"])
        slow_slot = rng.randrange(1, k + 1)
        for d in range(n):
            if d == p:
                continue
            for slot in range(1, k + 1):
                if shape == "later-faster":
                    lat = (k - slot) * rng.choice([3, 5, 10]) + rng.choice([1, 2])
                elif shape == "one-slow":
                    lat = rng.choice([40, 60]) if slot == slow_slot else rng.choice([1, 2, 3])
                elif shape == "first-slow":
                    lat = 50 if slot == 1 else rng.choice([1, 5, 10])
                else:
                    lat = rng.choice([1, 2, 5, 10, 30, 50])
                latmap[f"Accepted:{d}:{p}:1:{slot}"] = lat * ms
        cmd = k
        if rng.random() < 0.15:
            cmd += 1
            ops.append({"t": t_s + rng.choice([30, 80]) * ms, "op": "submit", "node": p, "cmd": cmd})
        if rng.random() < 0.15:
            cmd += 1
            ops.append({"t": rng.choice([0, t_s + 20 * ms]), "op": "submit", "node": rng.choice([i for i in range(n) if i != p]), "cmd": cmd})
        ops.sort(key=lambda o: o["t"])
        case = {"family": "fpaxos" if flex else "mpaxos", "n": n, "ops": ops, "lat": [ms], "linklat": linklat, "latmap": latmap,
                "hb_ms": 1000 if flex else rng.choice([1000, 1000, 50, 3]), "end_ms": t_s // ms + 400}
        if flex:
            case["q1"], case["q2"] = self._fp_quorums(rng, n)
        return case

    def impl_fpaxos(self, case):
        return self.impl_mpaxos(case)

    def impl_mpaxos(self, case):
        from happysimulator.components.consensus.flexible_paxos import FlexiblePaxosNode
        from happysimulator.components.consensus.multi_paxos import MultiPaxosNode
        from happysimulator.core.event import Event
        from happysimulator.core.simulation import Simulation

        flex = case["family"] == "fpaxos"
        pre = "FlexPaxos" if flex else "MultiPaxos"
        n = case["n"]
        names = [f"n{i}" for i in range(n)]
        idx = {nm: i for i, nm in enumerate(names)}

        def key(ev):
            m = ev.context.get("metadata", {})
            return f"{ev.event_type[len(pre):]}:{m.get('source', '?')[1:]}:{m.get('destination', '?')[1:]}:{m.get('ballot_number', '-')}:{m.get('slot', '-')}"

        net, Chosen, NetworkLink, _ = _mk_network(case, names, key)
        hb = case.get("hb_ms", 1000) / 1000.0
        # command palette: `cvals[c - 1]` is the Python expression of command number c; `sm` = "kv" (the command is
        # {"op": "set", "key": "k", "value": <object>} for the default KVStateMachine) or "echo" (the command is the
        # object itself, applied by a harness StateMachine that returns it).  Commands cross as their number.
        cvals = case.get("cvals")
        echo = cvals is not None and case.get("sm") == "echo"
        ccode = _coder(cvals, none_code=None)

        class Echo:
            """StateMachine protocol: apply returns the command"""

            def __init__(self):
                self.applied = []

            def apply(self, command):
                self.applied.append(command)
                return command

            def snapshot(self):
                return list(self.applied)

            def restore(self, snapshot):
                self.applied = list(snapshot)

        if flex:
            nodes = [FlexiblePaxosNode(nm, net, phase1_quorum=case["q1"], phase2_quorum=case["q2"],
                                       heartbeat_interval=hb, **({"state_machine": Echo()} if echo else {})) for nm in names]
            # the constructor checks q1 + q2 > N against the peer list it is given (none yet)
        else:
            nodes = [MultiPaxosNode(nm, net, heartbeat_interval=hb, **({"state_machine": Echo()} if echo else {})) for nm in names]
        for nd in nodes:
            nd.set_peers(nodes)
        _mesh(net, Chosen, NetworkLink, nodes)
        out, futs, step = [], [], [0]

        def enc(num, node):
            return f"{num}.{idx.get(node, 0)}"

        def cmdv(c):
            if cvals is None:
                return int(c["value"]) if isinstance(c, dict) else _v(c)
            if echo:
                return ccode(c)
            return ccode(c["value"]) if isinstance(c, dict) and set(c) == {"op", "key", "value"} else FOREIGN

        def resv(r):
            """result a future resolved with: KVStateMachine returns the value set, Echo the command"""
            return _v(r) if cvals is None else ccode(r)

        def mkcmd(c):
            if cvals is None:
                return {"op": "set", "key": "k", "value": c}
            obj = _val(cvals[c - 1])
            return obj if echo else {"op": "set", "key": "k", "value": obj}

        def logs(entries):
            return ",".join(f"{e['term']}:{cmdv(e['command'])}" for e in entries) or "-"

        def state_line(i):
            nd = nodes[i]
            b = nd._current_ballot
            es = nd.log.entries_after(0)
            lg = ",".join(f"{e.term}:{cmdv(e.command)}" for e in es) or "-"
            ldr = "-" if nd.leader is None else idx[nd.leader]
            return (f"  node {i} b {enc(b.number, b.node_id)} L {1 if nd.is_leader else 0} ldr {ldr} "
                    f"ci {nd.log.commit_index} ap {nd._last_applied} log {lg}")

        def emit_lines(evs):
            res = []
            for e in evs or []:
                m = e.context.get("metadata", {})
                t = e.event_type[len(pre):]
                if m.get("self_heartbeat"):
                    res.append(f"  timer Heartbeat {enc(m['ballot_number'], m['ballot_node'])} {m['commit_index']}")
                    continue
                d = idx[m["destination"]]
                b = enc(m["ballot_number"], m["ballot_node"]) if "ballot_node" in m else str(m.get("ballot_number"))
                if t == "Prepare":
                    res.append(f"  send Prepare {d} {b}")
                elif t == "Promise":
                    res.append(f"  send Promise {d} {b} {logs(m['log_entries'])} {m['commit_index']}")
                elif t == "Nack":
                    res.append(f"  send Nack {d} {b}")
                elif t == "Accept":
                    res.append(f"  send Accept {d} {b} {m['slot']} {cmdv(m['command'])} {m['commit_index']}")
                elif t == "Accepted":
                    res.append(f"  send Accepted {d} {m['ballot_number']} {m['slot']}")
                elif t == "Heartbeat":
                    res.append(f"  send Heartbeat {d} {b} {m['commit_index']}")
                else:
                    res.append(f"  send ? {t}")
            return res

        def fut_lines():
            res = []
            for k, f in enumerate(futs):
                if not f[2] and f[1].is_resolved:
                    f[2] = True
                    v = f[1].value
                    res.append(f"  fut {k} {v[0]} {resv(v[1])}")
            return res

        def record(i, action, evs):
            out.append(f"step {step[0]} {action}")
            step[0] += 1
            out.append(state_line(i))
            out.extend(emit_lines(evs))
            out.extend(fut_lines())

        def wrap(i):
            nd = nodes[i]
            orig = nd.handle_event

            def handler(event):
                m = event.context.get("metadata", {})
                t = event.event_type[len(pre):]
                if step[0] >= MAX_STEPS:
                    return None
                res = orig(event)
                evs = res if isinstance(res, list) else ([] if res is None else [res])
                if t == "Prepare":
                    a = f"prepare {i} {enc(m['ballot_number'], m['ballot_node'])}"
                elif t == "Promise":
                    a = f"promise {i} {m['ballot_number']}"
                elif t == "Nack":
                    a = f"nack {i} {enc(m['ballot_number'], m['ballot_node'])}"
                elif t == "Accept":
                    a = f"accept {i} {idx[m['source']]} {enc(m['ballot_number'], m['ballot_node'])} {m['slot']} {cmdv(m['command'])} {m['commit_index']}"
                elif t == "Accepted":
                    a = f"accepted {i} {m['slot']}"
                elif t == "Heartbeat":
                    kind = "selfhb" if m.get("self_heartbeat") else "hb"
                    a = f"{kind} {i} {enc(m['ballot_number'], m['ballot_node'])} {m['commit_index']}"
                else:
                    a = f"other {t}"
                record(i, a, evs)
                return res

            nd.handle_event = handler

        for i in range(n):
            wrap(i)
        end_ns = case["end_ms"] * 1_000_000 if "end_ms" in case else END_NS
        sim = Simulation(end_time=_instant(end_ns), entities=[net, *nodes])

        def mk(op):
            def fn(event):
                if step[0] >= MAX_STEPS:
                    return None
                if op["op"] == "start":
                    evs = nodes[op["node"]].start()
                    record(op["node"], f"start {op['node']}", evs)
                    return evs
                if op["op"] == "submit":
                    f = nodes[op["node"]].submit(mkcmd(op["cmd"]))
                    futs.append([op["node"], f, False, op["cmd"]])
                    record(op["node"], f"submit {op['node']} {op['cmd']}", [])
                    return None
                if op["op"] == "partition":
                    a = [nodes[i] for i in op["a"]]
                    b = [nodes[i] for i in range(n) if i not in op["a"]]
                    if a and b:
                        net.partition(a, b)
                    return None
                if op["op"] == "heal":
                    net.heal_partition()
                return None
            return fn

        for k, op in enumerate(case["ops"]):
            sim.schedule(Event.once(time=_instant(op["t"]), event_type=f"Op{k}", fn=mk(op)))
        sim.run()
        return out

    def model_mpaxos(self, case, variant):
        n = case["n"]
        flex = case["family"] == "fpaxos"
        q1 = case.get("q1", n // 2 + 1)
        q2 = case.get("q2", n // 2 + 1)
        return (f"mpaxos {1 if flex else 0} {n} {q1} {q2}", self.schedule(case))

    def model_fpaxos(self, case, variant):
        return self.model_mpaxos(case, variant)

    strict_commit_quorum = False   # judge the distinct-acceptor form too (false of the pinned tree: duplicate acks are counted)
    _commit_stats = {"leader_commits_observed": 0, "leader_commits_with_fewer_distinct_acceptors_than_q2": 0,
                     "leader_commits_covering_several_slots": 0}

    def extra_checks(self, ctx):
        ctx.stats["commit_rule_measured_not_judged"] = dict(self._commit_stats)
        return []

    def judge_mpaxos(self, case, impl_out):
        """observables: submitted commands, every node's committed prefix after every step (public
        `node.log`), resolved futures, and for the commit rule: Accept messages sent (`prop`), Accepts
        answered with Accepted (`acc`), Accepted messages delivered together with the receiver's public
        commit index before and after (`ack`), for phase 1: start() calls and delivered Promises with the
        receiver's public is_leader before and after (`prom`), and for the deposed-leader rule: Prepares
        answered with a Promise together with the public is_leader afterwards (`pled`), the log entries such a
        promise carries (`pcar`), and submit() calls that made the node's public log grow (`asg`)"""
        n = case["n"]
        flex = case["family"] == "fpaxos"
        q1 = case.get("q1", n // 2 + 1) if flex else n // 2 + 1
        q2 = case.get("q2", n // 2 + 1) if flex else n // 2 + 1
        body = []
        fid = 0
        # for the bounded-progress clause (stable leader): start() calls, partition ops, protocol messages sent / delivered
        kinds = {"Prepare": "prepare", "Promise": "promise", "Accept": "accept", "Accepted": "accepted", "Nack": "nack"}
        n_start, starter, n_sent, n_dlv = 0, 0, 0, 0
        n_part = sum(1 for o in case["ops"] if o["op"] == "partition")
        step_cut = sum(1 for l in impl_out if l.startswith("step ")) >= MAX_STEPS      # delivery watchdog hit: not quiet
        ci_of = [0] * n                # last observed log.commit_index per node
        ldr_of = ["0"] * n             # last observed is_leader per node
        len_of = [0] * n               # last observed length of the public log per node
        accepted = {}                  # (ballot, slot, cmd) -> nodes that hold / accepted it
        k, N = 0, len(impl_out)
        while k < N:
            t = impl_out[k].split()
            k += 1
            if t[0] != "step":
                continue
            act = t[2:]
            st = impl_out[k].split()   # "node i b B L x ldr y ci c ap a log LG"
            k += 1
            node, bal, ldr, ci = int(st[1]), st[3], st[5], int(st[9])
            if act[0] == "start":
                n_start += 1
                starter = node
            elif act[0] in kinds.values():
                n_dlv += 1
            ents = [] if st[13] == "-" else [e.split(":")[1] for e in st[13].split(",")]
            sent, futs = [], []
            while k < N and not impl_out[k].startswith("step "):
                e = impl_out[k].split()
                k += 1
                if e[0] == "send":
                    sent.append(e)
                    if e[1] in kinds:
                        n_sent += 1
                elif e[0] == "fut":
                    futs.append(e)
            if act[0] == "submit":
                body.append(f"sub {fid} {act[2]}")
                fid += 1
                if len(ents) > len_of[node]:
                    body.append(f"asg {node} {len(ents)}")      # the node assigned a slot to the command itself
            elif act[0] == "prepare":
                for e in sent:
                    if e[1] == "Promise":
                        body.append(f"pled {node} {e[3]} {ldr}")   # promised another node's ballot; is_leader afterwards
                        if e[4] != "-":
                            for sl, ent in enumerate(e[4].split(","), 1):
                                body.append(f"pcar {e[2]} {e[3]} {sl} {ent.split(':')[1]}")
            elif act[0] == "start":
                body.append(f"prom {node} {bal.split('.')[0]} {ldr_of[node]} {ldr}")     # its own promise
            elif act[0] == "promise":
                body.append(f"prom {node} {act[2]} {ldr_of[node]} {ldr}")
            ldr_of[node] = ldr
            len_of[node] = len(ents)
            seen = set()
            for e in sent:
                if e[1] == "Accept" and (e[3], e[4], e[5]) not in seen:
                    seen.add((e[3], e[4], e[5]))
                    body.append(f"prop {node} {e[3]} {e[4]} {e[5]}")
                    accepted.setdefault((e[3], e[4], e[5]), set()).add(node)
            if act[0] == "accept" and any(e[1] == "Accepted" for e in sent):
                body.append(f"acc {node} {act[3]} {act[4]} {act[5]}")
                accepted.setdefault((act[3], act[4], act[5]), set()).add(node)
            if act[0] == "accepted":
                slot = int(act[2])
                cmd = ents[slot - 1] if 1 <= slot <= len(ents) else 0
                body.append(f"ack {node} {slot} {ci_of[node]} {ci} {bal} {cmd}")
                if ci > ci_of[node]:
                    # measured, not judged (see `assumptions`): commits reached on duplicate acknowledgements
                    st_ = self._commit_stats
                    st_["leader_commits_observed"] += 1
                    if len(accepted.get((bal, str(slot), str(cmd)), ())) < q2:
                        st_["leader_commits_with_fewer_distinct_acceptors_than_q2"] += 1
                    if ci - ci_of[node] > 1:
                        st_["leader_commits_covering_several_slots"] += 1
            ci_of[node] = ci
            body.append(f"com {node} " + " ".join(ents[:ci]))
            for e in futs:
                body.append(f"fut {e[1]} {e[2]} {e[3]}")
        # `cnt leader starts partitions sent delivered`: the run is a *quiet fault-free stable-leader run* iff one start(),
        # no partition, every Prepare / Promise / Accept / Accepted / Nack that was sent has been delivered (watchdog not hit)
        if step_cut:
            n_sent += 1
        body.append(f"cnt {starter} {n_start} {n_part} {n_sent} {n_dlv}")
        mode = "strict" if self.strict_commit_quorum else "acks"
        return (f"judge-log {case['family']} {n} {q1} {q2} {mode}", body)

    def judge_fpaxos(self, case, impl_out):
        return self.judge_mpaxos(case, impl_out)

    # ------------------------------------------------------------------ leader election
    def gen_election(self, rng, tier, uniform=None):
        n = rng.choice([3, 3, 4, 5])
        strat = rng.choice(["bully", "bully", "ring", "ring", "rand"])
        if uniform is None:
            uniform = rng.random() < 0.8
        full = list(range(n))
        members, ops = [], []
        for i in range(n):
            m = full[:]
            rng.shuffle(m)
            if not uniform and rng.random() < 0.6:
                m = [x for x in m if x == i or rng.random() < 0.6]
                if i not in m:
                    m.append(i)
            members.append(m)
        if not uniform:
            for _ in range(rng.randint(0, 3)):
                ops.append({"t": rng.choice([1, 50, 120, 300, 700]) * 1_000_000, "op": "add",
                            "node": rng.randrange(n), "m": rng.randrange(n)})
        if rng.random() < 0.25:
            side = rng.sample(range(n), rng.randint(1, n - 1))
            t0 = rng.choice([0, 40, 100, 250]) * 1_000_000
            ops.append({"t": t0, "op": "partition", "a": side})
            ops.append({"t": t0 + rng.choice([30, 100, 400]) * 1_000_000, "op": "heal"})
        ops.sort(key=lambda o: o["t"])
        pool = rng.choice([[1], [1, 2, 3], [1, 5, 20], [1, 2, 60, 200]])
        return {"family": "election", "n": n, "strategy": strat, "members": members, "ops": ops,
                "timeout_ms": [rng.choice([40, 50, 80, 100, 150]) for _ in range(n)],
                "hb_ms": rng.choice([10, 30, 60]),
                "lat": [rng.choice(pool) * 1_000_000 for _ in range(rng.choice([5, 11, 23]))],
                "draws": [rng.randint(1, 1000) for _ in range(7)], "end_ms": rng.choice([300, 600, 1000])}

    def gen_election_join(self, rng, tier):
        """a leader change by `add_member` while the old leader's heartbeats are still in flight: the nodes
        of a group know each other, a node with a higher (sometimes lower) id knows everybody but is unknown
        to (some of) them, runs its first election late and announces itself; one directed link out of the old
        leader is much slower than the heartbeat interval, so heartbeats stamped with the old term arrive
        after the receiver has moved on."""
        ms = 1_000_000
        n = rng.choice([3, 3, 4, 5])
        strat = rng.choice(["bully", "bully", "bully", "ring", "rand"])
        joiner = n - 1 if rng.random() < 0.8 else rng.randrange(n)
        group = [i for i in range(n) if i != joiner]
        members = []
        for i in range(n):
            m = (list(range(n)) if rng.random() < 0.7 else [joiner]) if i == joiner else group[:]
            rng.shuffle(m)
            members.append(m)
        old = max(group)                                  # Bully / Ring elect the highest id of the group
        slow_to = rng.choice([i for i in group if i != old] or [old])
        slow = rng.choice([60, 120, 200, 350])
        linklat = {f"{old}>{slow_to}": slow * ms}
        if rng.random() < 0.3:
            a, b = rng.sample(range(n), 2)
            linklat.setdefault(f"{a}>{b}", rng.choice([20, 80, 150]) * ms)
        timeout = [rng.choice([40, 50, 80]) for _ in range(n)]
        timeout[slow_to] = rng.choice([80, 150, slow + 200, slow + 400])
        t_join = rng.choice([slow + 120, slow + 200, 2 * slow + 100, 300])
        timeout[joiner] = t_join
        ops = []
        for i in group:
            if rng.random() < 0.5:
                ops.append({"t": rng.choice([1, t_join - 20, t_join - 1, t_join + 5, t_join + slow // 2]) * ms,
                            "op": "add", "node": i, "m": joiner})
        if len(members[joiner]) == 1:
            for i in group:
                ops.append({"t": (t_join - rng.choice([1, 30, 100])) * ms, "op": "add", "node": joiner, "m": i})
        ops.sort(key=lambda o: o["t"])
        return {"family": "election", "n": n, "strategy": strat, "members": members, "ops": ops,
                "timeout_ms": timeout, "hb_ms": rng.choice([10, 30, 60]), "lat": [ms], "linklat": linklat,
                "draws": [rng.randint(1, 1000) for _ in range(7)],
                "end_ms": t_join + 2 * slow + rng.choice([100, 300])}

    def impl_election(self, case):
        import happysimulator.components.consensus.election_strategies as es
        from happysimulator.components.consensus.leader_election import LeaderElection
        from happysimulator.core.event import Event
        from happysimulator.core.simulation import Simulation

        n = case["n"]
        names = [f"n{i}" for i in range(n)]
        idx = {nm: i for i, nm in enumerate(names)}

        def key(ev):
            m = ev.context.get("metadata", {})
            return f"{ev.event_type}:{m.get('source', '?')[1:]}:{m.get('destination', '?')[1:]}"

        net, Chosen, NetworkLink, _ = _mk_network(case, names, key)
        saved = es.random
        es.random = _Jitter([], case.get("draws") or [1])
        try:
            mk_strat = {"bully": es.BullyStrategy, "ring": es.RingStrategy,
                        "rand": lambda: es.RandomizedStrategy(ballot_range=1000)}[case["strategy"]]
            nodes = [LeaderElection(nm, net, strategy=mk_strat(), election_timeout=case["timeout_ms"][i] / 1000.0,
                                    heartbeat_interval=case["hb_ms"] / 1000.0) for i, nm in enumerate(names)]
            for i, nd in enumerate(nodes):
                for m in case["members"][i]:
                    nd.add_member(nodes[m])
            _mesh(net, Chosen, NetworkLink, nodes)
            out, step = [], [0]

            def nl(xs):
                return ",".join(str(x) for x in xs) or "-"

            def state_line(i):
                nd = nodes[i]
                ldr = "-" if nd.current_leader is None else idx[nd.current_leader]
                return (f"  node {i} ldr {ldr} term {nd.current_term} prog {1 if nd._election_in_progress else 0} "
                        f"mem {nl(idx[k] for k in nd._members)}")

            def emit_lines(evs):
                res = []
                for e in evs or []:
                    m = e.context.get("metadata", {})
                    t = e.event_type
                    if t == "ElectionTimeoutCheck":
                        res.append("  timer")
                        continue
                    d = idx[m["destination"]]
                    if t == "ElectionChallenge":
                        res.append(f"  send Challenge {d} {idx[m['challenger']]} {m['term']}")
                    elif t == "ElectionSuppress":
                        res.append(f"  send Suppress {d} {idx[m['from']]}")
                    elif t == "ElectionVictory":
                        res.append(f"  send Victory {d} {idx[m['leader']]} {m['term']}")
                    elif t == "ElectionToken":
                        res.append(f"  send Token {d} {idx[m['initiator']]} {m['term']} {nl(idx[c] for c in m['candidates'])}")
                    elif t == "ElectionBallot":
                        res.append(f"  send Ballot {d} {idx[m['from']]} {m['ballot']} {m['term']}")
                    elif t == "ElectionBallotResponse":
                        res.append(f"  send BallotResp {d} {idx[m['from']]} {m['ballot']} {m['term']}")
                    elif t == "LeaderHeartbeat":
                        res.append(f"  send LHB {d} {idx[m['leader']]} {m['term']}")
                    else:
                        res.append(f"  send ? {t}")
                return res

            def record(i, action, evs):
                out.append(f"step {step[0]} {action}")
                step[0] += 1
                out.append(state_line(i))
                out.extend(emit_lines(evs))

            def wrap(i):
                nd = nodes[i]
                orig = nd.handle_event

                def handler(event):
                    m = event.context.get("metadata", {})
                    t = event.event_type
                    if step[0] >= MAX_STEPS:
                        return None
                    if t == "ElectionTimeoutCheck":
                        exp = nd.now.to_seconds() - nd._last_leader_heartbeat > nd._election_timeout
                        a = f"timeout {i} {1 if exp else 0}"
                    elif t == "ElectionChallenge":
                        a = f"challenge {i} {idx[m['challenger']]}"
                    elif t == "ElectionSuppress":
                        a = f"suppress {i}"
                    elif t == "ElectionVictory":
                        a = f"victory {i} {idx[m['leader']]}"
                    elif t == "ElectionToken":
                        a = f"token {i} {idx[m['initiator']]} {m['term']} {nl(idx[c] for c in m['candidates'])}"
                    elif t == "ElectionBallot":
                        a = f"ballot {i} {idx[m['from']]} {m['term']}"
                    elif t == "ElectionBallotResponse":
                        a = f"ballotresp {i}"
                    elif t == "LeaderHeartbeat":
                        a = f"lhb {i} {idx[m['leader']]} {m['term']}"
                    else:
                        a = f"other {t}"
                    res = orig(event)
                    evs = res if isinstance(res, list) else ([] if res is None else [res])
                    record(i, a, evs)
                    return res

                nd.handle_event = handler

            for i in range(n):
                wrap(i)
            sim = Simulation(end_time=_instant(case.get("end_ms", 600) * 1_000_000), entities=[net, *nodes])

            def starter(event):
                evs = []
                for nd in nodes:
                    evs.extend(nd.start())
                return evs

            sim.schedule(Event.once(time=_instant(0), event_type="StartAll", fn=starter))

            def mk(op):
                def fn(event):
                    if op["op"] == "add":
                        nodes[op["node"]].add_member(nodes[op["m"]])
                        record(op["node"], f"add {op['node']} {op['m']}", [])
                    elif op["op"] == "partition":
                        a = [nodes[i] for i in op["a"]]
                        b = [nodes[i] for i in range(n) if i not in op["a"]]
                        if a and b:
                            net.partition(a, b)
                    elif op["op"] == "heal":
                        net.heal_partition()
                    return None
                return fn

            for k, op in enumerate(case["ops"]):
                sim.schedule(Event.once(time=_instant(op["t"]), event_type=f"Op{k}", fn=mk(op)))
            sim.run()
            return out
        finally:
            es.random = saved

    def model_election(self, case, variant):
        body = [f"members {i} " + (",".join(map(str, m)) or "-") for i, m in enumerate(case["members"])]
        body.append("draws " + ",".join(map(str, case.get("draws") or [1])))
        return (f"election {case['strategy']}", body + self.schedule(case))

    def judge_election(self, case, impl_out):
        """observables: `rep node term leader` = the public (current_term, current_leader) of a node after a
        handler ran on it; `st node lhb|other hterm t0 l0 t1 l1` = the same pair before and after one handler
        invocation, and the term a delivered LeaderHeartbeat was stamped with"""
        body = []
        last = {}                       # node -> (term, leader) last reported (initially term 0, no leader)
        act = None
        for l in impl_out:
            t = l.split()
            # hypothesis of El.election_one_leader_per_term_static, checked on every run: a Victory / LeaderHeartbeat /
            # Token that is delivered was sent before (`snt` / `dlv` lines, judged first)
            if t[0] == "step" and t[2] == "victory":
                body.append(f"dlv V {t[3]} {t[4]}")
            elif t[0] == "step" and t[2] == "lhb":
                body.append(f"dlv H {t[3]} {t[4]} {t[5]}")
            elif t[0] == "step" and t[2] == "token":
                body.append(f"dlv T {t[3]} {t[4]} {t[5]} {t[6]}")
            elif t[0] == "send" and t[1] == "Victory":
                body.append(f"snt V {t[2]} {t[3]}")
            elif t[0] == "send" and t[1] == "LHB":
                body.append(f"snt H {t[2]} {t[3]} {t[4]}")
            elif t[0] == "send" and t[1] == "Token":
                body.append(f"snt T {t[2]} {t[3]} {t[4]} {t[5]}")
            if t[0] == "step":
                act = t[2:]
            elif t[0] == "node":
                t0, l0 = last.get(t[1], ("0", "-"))
                if act is not None:
                    hb = act[0] == "lhb"
                    body.append(f"st {t[1]} {'lhb' if hb else 'other'} {act[3] if hb else 0} {t0} {l0} {t[5]} {t[3]}")
                    act = None
                last[t[1]] = (t[5], t[3])
                if t[3] != "-":
                    body.append(f"rep {t[1]} {t[5]} {t[3]}")
        views = [sorted(set(m)) for m in case["members"]]
        static = all(v == views[0] for v in views) and not any(o["op"] == "add" for o in case["ops"])
        return ("judge-election " + ("identical-static" if static else "mixed"), body)

    # ------------------------------------------------------------------ distributed lock
    def gen_lock(self, rng, tier):
        nl = rng.choice([1, 1, 2, 3])
        nr = rng.choice([2, 3, 4])
        ln = rng.choice([4, 8, 16, 30, 60])
        maxw = rng.choice([0, 0, 1, 2])
        odd = rng.random() < 0.6      # tokens from the value palette, '' as a requester / lock name, request events
        ops = []
        # a mirror of the manager (holder, token, waiters per lock) so that release / expire mostly name the live token
        st = {l: [None, 0, []] for l in range(nl)}
        nxt = [1]

        def grant(l, r):
            st[l][0], st[l][1] = r, nxt[0]
            nxt[0] += 1

        def free(l):
            st[l][0] = None
            if st[l][2]:
                grant(l, st[l][2].pop(0))

        for k in range(ln):
            l, r = rng.randrange(nl), rng.randrange(nr)
            x = rng.random()
            live = st[l][1]
            tok = rng.choice([live, live, live, live + 1, max(0, live - 1), rng.randint(0, nxt[0]), nxt[0] - 1])
            if odd and rng.random() < 0.35:
                # equal-but-distinct spellings of a token (True == 1 == 1.0), falsy and None-like tokens
                tok = rng.choice([f"{tok}.0", f"{tok}.0", f"({tok}+0j)", "True", "1.0", "False", "0.0", "None", "''", f"'{tok}'",
                                  f"{tok}.5", f"-{tok}", "()", f"[{tok}]"])
            if x < 0.5:
                kind = "try" if x >= 0.4 else ("acqreq" if odd and rng.random() < 0.25 else "acquire")
                ops.append([kind, l, r])
                if st[l][0] is None:
                    grant(l, r)
                elif st[l][0] != r and kind != "try" and not (maxw > 0 and len(st[l][2]) >= maxw):
                    st[l][2].append(r)
            else:
                kind = ("relreq" if odd and rng.random() < 0.3 else "release") if x < 0.8 else "expire"
                ops.append([kind, l, tok])
                if st[l][0] is not None and self._tok(_val(tok) if isinstance(tok, str) else tok) == live:
                    free(l)
        case = {"family": "lock", "max_waiters": maxw, "ops": ops}
        if odd:
            case["falsy_names"] = True       # requester 0 is '' and lock 0 is ''
        return case

    NOMATCH = 10 ** 9

    @classmethod
    def _tok(cls, x):
        """the natural a token argument is equal to under Python's `==` (True == 1 == 1.0 == (1+0j)), or NOMATCH
        (no fencing token — a positive int — is equal to it)"""
        try:
            if isinstance(x, (bool, int, float, complex)) and x == x:
                if isinstance(x, complex):
                    if x.imag != 0:
                        return cls.NOMATCH
                    x = x.real
                if x >= 0 and x == int(x) and int(x) < cls.NOMATCH:
                    return int(x)
        except (OverflowError, ValueError):
            pass
        return cls.NOMATCH

    def impl_lock(self, case):
        from happysimulator.components.consensus.distributed_lock import DistributedLock
        from happysimulator.core.event import Event
        from happysimulator.core.sim_future import SimFuture

        lk = DistributedLock("lock", lease_duration=10.0, max_waiters=case["max_waiters"])
        falsy = bool(case.get("falsy_names"))

        def rname(x):
            return "" if falsy and x == 0 else f"r{x}"

        def lname(l):
            return "" if falsy and l == 0 else f"L{l}"

        def ridx(h):
            return 0 if h == "" else int(h[1:])

        out = []
        waiting = []  # (lock, requester, future)
        for k, op in enumerate(case["ops"]):
            kind, l, x = op
            name = lname(l)
            shown = x
            if kind in ("release", "relreq", "expire"):
                tok = _val(x) if isinstance(x, str) else x
                shown = self._tok(tok)
            if kind in ("acquire", "acqreq"):
                if kind == "acquire":
                    f = lk.acquire(name, rname(x))
                else:
                    f = SimFuture()
                    lk.handle_event(Event(time=_instant(0), event_type="LockAcquireRequest", target=lk,
                                          context={"metadata": {"lock_name": name, "requester": rname(x)}, "reply_future": f}))
                if f.is_resolved:
                    res = "rejected" if f.value is None else f"grant {f.value.fencing_token}"
                    if f.value is not None and (f.value.holder != rname(x) or f.value.lock_name != name):
                        res += " WRONG-HOLDER"
                else:
                    res = "queued"
                    waiting.append((l, x, f))
            elif kind == "try":
                g = lk.try_acquire(name, rname(x))
                res = "none" if g is None else f"grant {g.fencing_token}"
            elif kind == "release":
                res = "true" if lk.release(name, tok) else "false"
            elif kind == "relreq":
                lk.handle_event(Event(time=_instant(0), event_type="LockReleaseRequest", target=lk,
                                      context={"metadata": {"lock_name": name, "fencing_token": tok}}))
                res = "-"
            else:
                lk.handle_event(Event(time=_instant(0), event_type="LockLeaseExpiry", target=lk,
                                      context={"metadata": {"lock_name": name, "fencing_token": tok}}))
                res = "-"
            wake = ""
            for w in list(waiting):
                if w[2].is_resolved:
                    waiting.remove(w)
                    g = w[2].value
                    wake += f" wake {w[1]} {g.fencing_token}"
                    if g.holder != rname(w[1]) or g.lock_name != lname(w[0]):
                        wake += " WRONG-HOLDER"
            h = lk.get_holder(name)
            ft = lk.get_fencing_token(name)
            hold = "- -" if h is None else f"{ridx(h)} {'-' if ft is None else ft}"
            nw = sum(1 for w in waiting if w[0] == l)
            out.append(f"op {k} {kind} {l} {shown} -> {res}{wake} | holder {hold} waiters {nw}")
        return out

    def model_lock(self, case, variant):
        body = []
        for kind, l, x in case["ops"]:
            if kind in ("release", "relreq", "expire"):
                x = self._tok(_val(x) if isinstance(x, str) else x)
            body.append(f"{kind} {l} {x}")
        # `get_fencing_token` tests the truth value of the holder: for the holder '' (requester 0) it reports None
        return (f"lock {case['max_waiters']} {0 if case.get('falsy_names') else '-'}", body)

    def judge_lock(self, case, impl_out):
        body = []
        for op, line in zip(case["ops"], impl_out):
            t = line.split(" | ")[0].split(" -> ")[1].split()
            if t[0] == "grant":
                body.append(f"grant {op[1]} {op[2]} {t[1]}")
                t = t[2:]
            else:
                t = t[1:]
            while t and t[0] != "wake":
                t = t[1:]
            while len(t) >= 3 and t[0] == "wake":
                body.append(f"grant {op[1]} {t[1]} {t[2]}")
                t = t[3:]
                while t and t[0] != "wake":
                    t = t[1:]
        return ("judge-lock", body)

    # ------------------------------------------------------------------ search helpers
    def nontrivial_key(self, case, impl_out):
        fam = case["family"]
        if fam == "lock":
            return json.dumps(case, sort_keys=True) if sum(1 for l in impl_out if "grant" in l or "wake" in l) >= 2 else None
        if fam == "paxos":
            # at least one value accepted somewhere (phase 2 reached)
            return json.dumps(case, sort_keys=True) if any(l.startswith("  send Accept ") for l in impl_out) else None
        return json.dumps(case, sort_keys=True)

    def shrink(self, case):
        key = "ops"
        xs = case[key]
        n = len(xs)
        step = max(1, n // 2)
        while step >= 1:
            for i in range(0, n, step):
                cand = dict(case)
                cand[key] = xs[:i] + xs[i + step:]
                if len(cand[key]) < n:
                    yield cand
            step //= 2
        if case["family"] in ("paxos", "mpaxos", "fpaxos", "election"):
            lat = case.get("lat") or []
            if len(lat) > 1:
                for cut in (len(lat) // 2, len(lat) - 1):
                    c = dict(case); c["lat"] = lat[:cut]; yield c
            if len(set(lat)) > 1:
                c = dict(case); c["lat"] = [min(lat)] * len(lat); yield c
            if case.get("n", 3) > 3:
                c = dict(case); c["n"] = case["n"] - 1
                c["ops"] = [o for o in xs if o.get("node", 0) < c["n"] and all(a < c["n"] for a in o.get("a", []))]
                yield c

    def mutate(self, case, rng):
        c = json.loads(json.dumps(case))
        fam = c["family"]
        if fam == "lock":
            xs = c["ops"]
            if xs:
                i = rng.randrange(len(xs))
                r = rng.random()
                if r < 0.3 and len(xs) > 1:
                    del xs[i]
                elif r < 0.6:
                    xs.insert(i, list(rng.choice(xs)))
                elif isinstance(xs[i][2], int):
                    xs[i][2] = max(0, xs[i][2] + rng.choice([-1, 1]))
                else:
                    xs[i][2] = rng.choice(["True", "1.0", "2.0", "None", "0", "False"])
            return c
        lat = c.get("lat") or [1_000_000]
        for _ in range(rng.randint(1, 3)):
            i = rng.randrange(len(lat))
            lat[i] = rng.choice([1, 2, 5, 40, 900]) * 1_000_000
        c["lat"] = lat
        if c.get("ops") and rng.random() < 0.5:
            o = rng.choice(c["ops"])
            o["t"] = max(0, o["t"] + rng.choice([-1, 1, 5]) * 1_000_000)
            c["ops"].sort(key=lambda o: o["t"])
        for key in ("vals", "cvals"):
            # another object for one of the values: mostly a falsy or an equal-but-distinct one
            if c.get(key) and rng.random() < 0.3:
                pool = [e for e in (FALSY + EQUAL_DISTINCT if rng.random() < 0.7 else PALETTE) if e not in c[key]]
                if pool:
                    c[key][rng.randrange(len(c[key]))] = rng.choice(pool)
        if fam in ("mpaxos", "fpaxos"):
            self._mutate_log_case(c, rng)
        return c

    def _mutate_log_case(self, c, rng):
        """quorum asymmetry (Flexible Paxos), partition sizes around q1 / q2, a take-over tail"""
        ms = 1_000_000
        n = c["n"]
        if c["family"] == "fpaxos" and rng.random() < 0.6:
            q1, q2 = c.get("q1", n // 2 + 1), c.get("q2", n // 2 + 1)
            cands = [(q2, q1), (q1 - 1, q2), (q1 + 1, q2), (q1, q2 - 1), (q1, q2 + 1), (q1, n - q1 + 1),
                     (n - q2 + 1, q2), (1, n), (n, 1), self._fp_quorums(rng, n)]
            cands = [(a, b) for a, b in cands if 1 <= a <= n and 1 <= b <= n and a + b > n and (a, b) != (q1, q2)]
            if cands:
                c["q1"], c["q2"] = rng.choice(cands)
        q1 = c.get("q1", n // 2 + 1)
        q2 = c.get("q2", n // 2 + 1)
        ops = c["ops"]
        starts = [o for o in ops if o["op"] == "start"]
        parts = [o for o in ops if o["op"] == "partition"]
        r = rng.random()
        if r < 0.25 and parts:
            # grow / shrink the cut-off side by one node
            o = rng.choice(parts)
            a = list(o["a"])
            out = [i for i in range(n) if i not in a]
            if rng.random() < 0.5 and len(a) > 1:
                a.remove(rng.choice(a))
            elif len(out) > 1:
                a.append(rng.choice(out))
            o["a"] = sorted(a)
        elif r < 0.5 and starts:
            # (re)place the partition: a starting node with exactly q1 / about q2 nodes on its side
            st = rng.choice(starts)
            ops[:] = [o for o in ops if o["op"] not in ("partition", "heal")]
            t0 = max(0, st["t"] - rng.choice([0, 1, 2]) * ms)
            ops.append({"t": t0, "op": "partition", "a": self._side_around(rng, n, st["node"], q1, q2)})
            ops.append({"t": t0 + rng.choice([5, 20, 50, 300]) * ms, "op": "heal"})
        elif r < 0.7 and ops:
            # another node takes over at the end with a fresh command
            t = max(o["t"] for o in ops) + rng.choice([1, 10, 50]) * ms
            nd = rng.randrange(n)
            cmd = 1 + max([o.get("cmd", 0) for o in ops])
            while "cvals" in c and len(c["cvals"]) < cmd:
                c["cvals"].append(rng.choice([e for e in PALETTE if e not in c["cvals"]]))
            ops.append({"t": t, "op": "submit", "node": nd, "cmd": cmd})
            ops.append({"t": t + ms, "op": "start", "node": nd})
        ops.sort(key=lambda o: (o["t"], {"partition": 0, "heal": 2}.get(o["op"], 1)))


THEOREMS = [
    "HappyModel.C12.flexible_paxos_agreement",
    "HappyModel.C12.paxos_agreement",
    "HappyModel.C12.paxos_agreement_spec",
    "HappyModel.C12.paxos_validity",
    "HappyModel.C12.decision_stable",
    "HappyModel.C12.future_resolves_decided",
    "HappyModel.C12.paxos_agreement_current_false",
    "HappyModel.C12.retry_decides_none",
    "HappyModel.C12.witnessAgreement_exact",
    "HappyModel.C12.witnessNone_exact",
    "HappyModel.C12.Px.stepCur_eq_step",
    "HappyModel.C12.Px.single_proposer_example",
    "HappyModel.C12.Px.single_proposer_lost_link_undecided",
    "HappyModel.C12.Px.paxos_judge_silent_on_model",
    "HappyModel.C12.Px.stability_on_model",
    "HappyModel.C12.Px.agreement_on_model",
    "HappyModel.C12.Px.validity_on_model",
    "HappyModel.C12.Px.futures_on_model",
    "HappyModel.C12.Px.single_proposer_decides",
    "HappyModel.C12.Px.init_G",
    "HappyModel.C12.Px.promise_step",
    "HappyModel.C12.Px.start_G",
    "HappyModel.C12.Px.prepare_step",
    "HappyModel.C12.Px.accept_step",
    "HappyModel.C12.Px.accepted_step",
    "HappyModel.C12.Px.decide_G",
    "HappyModel.C12.Px.decided_step",
    "HappyModel.C12.fencing_strictly_increasing",
    "HappyModel.C12.MP.slot_agreement_current_false",
    "HappyModel.C12.MP.flexible_slot_agreement_current_false",
    "HappyModel.C12.MP.slot_agreement_full_current_false",
    "HappyModel.C12.flexible_quorums_intersect",
    "HappyModel.C12.paxos_decision_has_phase2_quorum",
    "HappyModel.C12.promise_reports_accepted",
    "HappyModel.C12.promise_judge_silent",
    "HappyModel.C12.promise_hiding_accepted_violates_spec",
    "HappyModel.C12.propose_on_decided_resolves",
    "HappyModel.C12.propose_call_judge_silent",
    "HappyModel.C12.propose_call_pending_violates_spec",
    "HappyModel.C12.MP.commit_needs_phase2_quorum",
    "HappyModel.C12.MP.commit_judge_silent",
    "HappyModel.C12.MP.commit_on_phase1_quorum_violates_spec",
    "HappyModel.C12.MP.commit_distinct_quorum_current_false",
    "HappyModel.C12.MP.leader_needs_phase1_quorum",
    "HappyModel.C12.MP.leader_judge_silent",
    "HappyModel.C12.MP.leader_on_phase2_quorum_violates_spec",
    "HappyModel.C12.MP.stable_leader_commits_any_ack_order",
    "HappyModel.C12.MP.stable_leader_resolves_future",
    "HappyModel.C12.MP.new_leader_commits_parked_commands",
    "HappyModel.C12.MP.stable_leader_progress",
    "HappyModel.C12.MP.progress_judge_silent",
    "HappyModel.C12.MP.stuck_stable_leader_violates_spec",
    "HappyModel.C12.MP.pending_future_violates_spec",
    "HappyModel.C12.MP.promise_clears_leadership",
    "HappyModel.C12.MP.deposed_leader_never_assigns",
    "HappyModel.C12.MP.deposed_judge_silent",
    "HappyModel.C12.MP.deposed_leader_violates_spec",
    "HappyModel.C12.El.stale_heartbeat_does_not_change_leader",
    "HappyModel.C12.El.election_steps_judge_silent",
    "HappyModel.C12.El.stale_heartbeat_adopted_violates_spec",
    "HappyModel.C12.El.ringNext_eq",
    "HappyModel.C12.El.static_views_leader_is_highest",
    "HappyModel.C12.El.election_one_leader_per_term_static",
    "HappyModel.C12.El.election_two_leaders_one_term",
    "HappyModel.C12.El.election_one_leader_per_term_current_false",
]
C12.theorems = THEOREMS
PROPERTY = C12()
