"""C16 extension family `multitier` — MultiTierCache (components/datastore/multi_tier_cache.py).

The real MultiTierCache runs inside a real Simulation in front of 1–3 real CachedStore tiers which
all share one backing KVStore.  A client entity issues get / put / delete / invalidate /
invalidate_all through the MultiTierCache and `tget` (a read issued directly at one tier — the only
way a tier below L1 ever gets populated: MultiTierCache itself fills, promotes and writes L1 only).
Every generator segment is a schedule line; the Lean model (`HappyModel/C16/Tier.lean`, a
composition of the CachedStore model `St` per tier, the shared backing store and `_access_counts`)
replays the schedule, transcripts are diffed, and the Lean Spec (`TierSpec.lean`) judges the
implementation's own observations.
"""
from __future__ import annotations

import copy
import json

FAMILY = "multitier"
SLOTS = 2
MS = 1_000_000
PROMOS = ["always", "never", "on_second_access"]
NK = 3


def _c16():
    from hv.props import c16
    return c16


# ------------------------------------------------------------------------------ implementation
def _drain(pol, c16):
    """tracked keys of a policy: drain a deepcopy through the public evict() (like c16.drain_copy, but the
    oracle RNG is re-created instead of deep-copied: its Mersenne state is 625 ints per copy)"""
    memo = {}
    rng = getattr(pol, "_rng", None)
    if isinstance(rng, c16._OracleRng):
        twin = c16._OracleRng(rng.picks)
        twin.prio, twin.n = rng.prio, rng.n
        memo[id(rng)] = twin
    c = copy.deepcopy(pol, memo)
    out = []
    for _ in range(64):
        k = c.evict()
        if k is None:
            break
        out.append(int(k[1:]))
    return out


def run_sim(case):
    from happysimulator.components.datastore import CachedStore, KVStore, MultiTierCache
    from happysimulator.core.entity import Entity
    from happysimulator.core.event import Event
    from happysimulator.core.simulation import Simulation
    from happysimulator.core.temporal import Instant

    c16 = _c16()
    K = c16.K
    lat = case["lat"]
    ops = case["ops"]
    out, sched = [], []
    holder = {}
    vt = c16.Values(case)

    def clock():
        return float(holder["cl"].now.nanoseconds // MS)

    backing = KVStore("backing", read_latency=lat["rl"] / 1e9, write_latency=lat["wl"] / 1e9,
                      delete_latency=lat["dl"] / 1e9)
    tiers, pols = [], []
    for n, t in enumerate(case["tiers"]):
        pol, orc = c16.make_policy(t["policy"], t["arg"], clock)
        if orc is not None:
            orc.picks = [list(p) for p in t["picks"]]
        pols.append(pol)
        tiers.append(CachedStore(f"l{n + 1}", backing, t["cap"], pol, cache_read_latency=t["cl"] / 1e9,
                                 write_through=bool(t["wt"])))
    cache = MultiTierCache("mt", tiers, backing, promotion_policy=case["promo"])

    j = lambda xs: " ".join(map(str, xs))

    def snap(i):
        parts = [f"adv {i}"]
        for n, t in enumerate(tiers):
            c = sorted(int(k[1:]) for k in t.get_cached_keys())
            d = sorted(int(k[1:]) for k in t.get_dirty_keys())
            p = sorted(_drain(pols[n], c16))
            parts.append(f"T{n} C {j(c)} D {j(d)} P {j(p)}")
        b = sorted((int(k[1:]), vt.dec(backing.get_sync(k))) for k in backing.keys())
        parts.append("B " + " ".join(f"{k}={v}" for k, v in b))
        out.append(" ".join(" | ".join(parts).split()))

    class Client(Entity):
        def handle_event(self, ev):
            i = ev.context["metadata"]["i"]
            op = ops[i]
            kind = op[1]
            if len(sched) > 600:
                raise RuntimeError("watchdog: too many deliveries")

            def traced(gen):
                try:
                    sched.append(f"adv {i} {self.now.nanoseconds}")
                    y = next(gen)
                    while True:
                        snap(i)
                        sent = yield y
                        sched.append(f"adv {i} {self.now.nanoseconds}")
                        y = gen.send(sent)
                except StopIteration as e:
                    snap(i)
                    return e.value

            if kind == "get":
                r = yield from traced(cache.get(K(op[2])))
                res = vt.dec(r)
            elif kind == "put":
                r = yield from traced(cache.put(K(op[2]), vt.enc(op[3])))
                res = c16.fmt_res(kind, r)
            elif kind == "del":
                r = yield from traced(cache.delete(K(op[2])))
                res = c16.fmt_res(kind, r)
            elif kind == "tget":
                r = yield from traced(tiers[op[2]].get(K(op[3])))
                res = vt.dec(r)
            elif kind == "inv":
                sched.append(f"adv {i} {self.now.nanoseconds}")
                res = c16.fmt_res(kind, cache.invalidate(K(op[2])))
                snap(i)
            elif kind == "invall":
                sched.append(f"adv {i} {self.now.nanoseconds}")
                res = c16.fmt_res(kind, cache.invalidate_all())
                snap(i)
            else:
                raise ValueError(kind)
            out.append(f"ret {i} {res}")

    cl = Client("client")
    holder["cl"] = cl
    end = max([op[0] for op in ops] + [0]) + 1000 * MS
    sim = Simulation(entities=[backing, *tiers, cache, cl], end_time=Instant(end))
    for i, op in enumerate(ops):
        sim.schedule(Event(time=Instant(op[0]), event_type="op", target=cl, context={"metadata": {"i": i}}))
    sim.run()
    return out, sched


def run_impl(case):
    out, sched = run_sim(case)
    return out + ["#s " + l for l in sched]


def _view(impl_out):
    return [l for l in impl_out if not l.startswith("#")]


# ------------------------------------------------------------------------------ model / judge
def _head(case):
    body = []
    for n, t in enumerate(case["tiers"]):
        body.append(f"tier {t['policy']} {t['arg']} {t['cap']} {t['wt']}")
        for p in t["picks"]:
            body.append(f"pick {n} " + " ".join(map(str, p)))
    for i, op in enumerate(case["ops"]):
        body.append(f"op {i} " + " ".join(map(str, op[1:])))
    return body


def model_block(case, variant, impl_out):
    sched = [l[3:] for l in impl_out if l.startswith("#s ")]
    return (f"tier {variant} {case['promo']}", _head(case) + sched)


def judge_block(case, impl_out):
    if impl_out and impl_out[0].startswith("IMPL-"):
        return None
    body = _head(case)
    lines = _view(impl_out)
    last_b = ""
    k = 0
    while k < len(lines):
        l = lines[k]
        if not l.startswith("adv "):
            return None
        left, b = l.rsplit(" | B", 1)
        last_b = b.strip()
        res = "-"
        if k + 1 < len(lines) and lines[k + 1].startswith("ret "):
            res = lines[k + 1].split()[2]
            k += 1
        body.append("obs" + left[3:] + " | R " + res)
        k += 1
    body.append("fin " + last_b)
    return ("judge-tier", body)


def nontrivial_key(case, impl_out):
    # non-trivial: some tier held a key at some point and at least one operation took two segments
    v = _view(impl_out)
    if len(v) > 4 and any(" C " in l and not l.split(" C ")[1].startswith("D") for l in v):
        return json.dumps(case, sort_keys=True)
    return None


# ------------------------------------------------------------------------------ generation
def _tier(rng, level, pol=None):
    c16 = _c16()
    name = pol or rng.choice(c16.POLICIES)
    arg = 0
    if name == "ttl":
        arg = rng.choice([1, 3, 6, 20])
    if name == "sampled":
        arg = rng.choice([1, 2, 5])
    cap = rng.choice([1, 1, 2]) if level == 0 else rng.choice([1, 2, 2, 3])
    cl = rng.choice([100_000, 100_000, 0, MS]) if level == 0 else rng.choice([MS, MS, 2 * MS, 100_000, 3 * MS])
    return {"policy": name, "arg": arg, "cap": cap, "wt": 1, "cl": cl,
            "picks": [rng.sample(range(c16.NKEYS), c16.NKEYS) for _ in range(3)]}


def _renumber(case, rng=None):
    """unique value identity per put, ops sorted by issue time (stable)"""
    ops = sorted((list(o) for o in case["ops"]), key=lambda o: o[0])
    v = 1
    old = case.get("vals") or {}
    vals = {}
    for op in ops:
        if op[1] == "put":
            if str(op[3]) in old:
                vals[str(v)] = old[str(op[3])]
            op[3] = v
            v += 1
    # immutable falsy constants are shared objects: at most one value identity each
    seen = set()
    for k in sorted(vals, key=int):
        if vals[k] in _c16().FALSY_ONCE:
            if vals[k] in seen:
                vals[k] = "elist"
            seen.add(vals[k])
    c = dict(case)
    c["ops"] = ops
    c["vals"] = vals
    return c


def generate(rng, tier):
    nt = rng.choice([2, 2, 2, 2, 2, 1, 3])
    tiers = [_tier(rng, n) for n in range(nt)]
    wl = rng.choice([5, 5, 2, 1, 3]) * MS
    lat = {"rl": rng.choice([1, 1, 2, 5]) * MS, "wl": wl,
           "dl": wl if rng.random() < 0.6 else rng.choice([1, 3, 8]) * MS}
    promo = rng.choice(["always", "always", "on_second_access", "never"])
    nk = rng.choice([1, 2, 2, 3])
    n = rng.choice([3, 5, 8, 12, 16])
    style = rng.random()
    lats = [lat["rl"], lat["wl"], lat["dl"]] + [t["cl"] for t in tiers]
    low = tiers[-1]["cl"]
    t = 0
    ops = []
    hot = rng.randrange(nk)

    def gap():
        if style < 0.2:
            return rng.choice([12, 15, 25]) * MS               # sequential: no overlaps
        if style < 0.5:
            return rng.choice([0, 0, 500_000, MS, MS, 2 * MS, 4 * MS, 6 * MS])
        a, b = rng.choice(lats), rng.choice(lats)
        return rng.choice([0, 100_000, a, a, abs(a - b), max(0, a - low // 2), max(0, a - 100_000), a + 100_000,
                           2 * lat["wl"], 7 * MS])

    def scenario(k):
        """a lower tier holds k, L1 does not, then a read of k overlaps a write of k"""
        nonlocal t
        lt = rng.randrange(1, nt) if nt > 1 else 0
        pre = rng.random()
        ops.append([t, "put", k, 0])
        t += 2 * lat["wl"] + rng.choice([0, MS])
        if pre < 0.7:
            ops.append([t, "inv", k])
        ops.append([t, "tget", lt, k])
        t += lat["rl"] + rng.choice([0, MS, 3 * MS])
        if rng.random() < 0.3:
            ops.append([t, "get", k])                               # a first access (on_second_access)
            t += tiers[lt]["cl"] + rng.choice([0, MS])
        w = [t, "put", k, 0] if rng.random() < 0.65 else [t, "del", k]
        land = lat["wl"] if w[1] == "put" else rng.choice([0, lat["dl"]])
        c = tiers[lt]["cl"]
        off = rng.choice([land - c // 2, land - c, land - c + 100_000, land - 100_000, land, 0, land - lat["rl"],
                          land - lat["rl"] // 2])
        r = [t + max(0, off), "get", k]
        ops.extend([w, r] if rng.random() < 0.8 else [r, w])
        if rng.random() < 0.4:
            ops.append([t + max(0, off) + rng.choice([0, 100_000, c]), "tget", lt, k])
        t += max(0, off)

    if rng.random() < 0.45:
        scenario(hot)
        n = max(0, n - 5)
    for _ in range(n):
        t += gap()
        k = hot if rng.random() < 0.6 else rng.randrange(nk)
        r = rng.random()
        if r < 0.36:
            ops.append([t, "get", k])
        elif r < 0.62:
            ops.append([t, "put", k, 0])
        elif r < 0.74:
            ops.append([t, "del", k])
        elif r < 0.90:
            ops.append([t, "tget", rng.randrange(nt), k])
        elif r < 0.97:
            ops.append([t, "inv", k])
        else:
            ops.append([t, "invall"])
        if rng.random() < 0.08:
            scenario(k)
    # quiesce, then read every key back through the multi-tier cache, twice
    t += 60 * MS
    for _ in range(2):
        for k in range(nk):
            ops.append([t, "get", k])
            t += 20 * MS
    case = {"family": FAMILY, "promo": promo, "tiers": tiers, "lat": lat, "ops": ops, "vals": {}}
    case = _renumber(case)
    nv = sum(1 for o in case["ops"] if o[1] == "put")
    case["vals"] = _c16().pick_vals(rng, range(1, nv + 1))
    return case


def shrink(case):
    xs = case["ops"]
    n = len(xs)
    step = max(1, n // 2)
    while step >= 1:
        for i in range(0, n, step):
            cand = dict(case)
            cand["ops"] = xs[:i] + xs[i + step:]
            if len(cand["ops"]) < n:
                yield cand
        step //= 2
    if len(case["tiers"]) > 1:
        keep = len(case["tiers"]) - 1
        if all(o[1] != "tget" or o[2] < keep for o in xs):
            cand = dict(case)
            cand["tiers"] = case["tiers"][:keep]
            yield cand
    if case.get("vals"):
        cand = dict(case)
        cand["vals"] = {}
        yield cand


def mutate(case, rng):
    xs = [list(x) for x in case["ops"]]
    if not xs:
        return case
    for _ in range(rng.randint(1, 3)):
        i = rng.randrange(len(xs))
        r = rng.random()
        if r < 0.25 and len(xs) > 1:
            del xs[i]
        elif r < 0.5:
            d = list(rng.choice(xs))
            d[0] = xs[i][0]
            xs.insert(i, d)
        elif r < 0.8:
            xs[i][0] = max(0, xs[i][0] + rng.choice([-MS, -100_000, 100_000, MS, case["lat"]["wl"], -case["lat"]["wl"]]))
        else:
            j = rng.randrange(len(xs))
            xs[i][0], xs[j][0] = xs[j][0], xs[i][0]
    c = dict(case)
    c["ops"] = xs
    return _renumber(c)


# ------------------------------------------------------------------------------ metadata
THEOREMS = [
    "HappyModel.C16.Tier.multitier_size_le_capacity",
    "HappyModel.C16.Tier.multitier_policy_keys_eq_cache_keys",
    "HappyModel.C16.Tier.multitier_read_after_write_all_interleavings",
    "HappyModel.C16.Tier.multitier_read_after_write_sequential",
    "HappyModel.C16.Tier.multitier_stale_promotion_current",
]
RULE = ("family multitier: real Simulation, MultiTierCache over 1–3 write-through CachedStore tiers (L1 capacity 1–2, lower "
        "tiers 1–3, independent eviction policies out of the nine, cache read latency 0–3 ms) sharing one KVStore "
        "(read/write/delete latency 1–8 ms), promotion ALWAYS / ON_SECOND_ACCESS / NEVER, 3–25 get/put/delete/invalidate/"
        "invalidate_all operations plus direct tier reads (the only way a lower tier is populated), issued sequentially, at "
        "0–6 ms spacing or exactly one latency (or a latency difference) apart, with directed read-inside-write windows on a "
        "key held by a lower tier only; then every key is read back twice; non-trivial = some tier held a key and >4 transcript lines")
TRUSTED = [
    "hv/props/c16_tier.py adapter: drives the real MultiTierCache / CachedStore / KVStore objects inside a real Simulation; per-tier "
    "views are get_cached_keys(), get_dirty_keys() and the policy drained on a deepcopy; backing contents via keys()/get_sync()",
]
ASSUMPTIONS = [
    "multitier: a direct read at a tier (`CachedStore.get` on the tier object) is part of the input space because MultiTierCache "
    "never populates a tier below L1 itself; its result is compared with the model but not judged as a MultiTierCache read",
    "multitier: write-back tiers are not generated (MultiTierCache.put writes the backing store itself; a dirty tier entry is "
    "written back over it by the next invalidation — outside this check)",
]
HYPOTHESES = [
    "multitier theorems: any number of tiers, every tier capacity ≥ 1 (the CachedStore constructor rejects less), every tier policy "
    "made by Pol.ofName, one policy per configured tier; multitier_size_le_capacity / multitier_policy_keys_eq_cache_keys hold for both "
    "variants, both write modes and either variant of the tiers",
    "multitier_read_after_write_all_interleavings, multitier_read_after_write_sequential: repaired variant "
    "(fixes/C16-multitier-consistency.diff), every tier a repaired write-through CachedStore (SeqCfg); the all-interleavings theorem "
    "further assumes what its statement lists: unique operation ids, every first segment in the schedule is that of its table entry, "
    "no id started twice (resumes of ids with nothing pending are allowed anywhere)",
]
PARTIAL = {}
