"""C11 — Raft: one leader per term, matching logs, durable commits, identical applies.

Correspondence: clusters of 3–5 real `RaftNode`s run inside the real `Simulation` on a real
`Network` of real `NetworkLink`s.  The harness chooses every message's latency (a
`LatencyDistribution` that looks the value up per message), feeds the election-timeout draws
(`raft.random.uniform` is replaced by a list from the case), injects crashes (`CrashNode`),
partitions (`Network.partition` / `heal_partition`), link loss (`packet_loss_rate` ∈ {0, 1})
and client `submit` calls.  After every delivered event it prints the event, the public state of
the node the event was aimed at, what the recording state machine saw, the submit futures that
became resolved, and the messages handed to `network.send`.  The `ev …` lines of that
transcript are the *schedule*; the Lean model (`HappyModel/C11`) replays the schedule and must
print the same transcript.  The Lean Spec (`HappyModel/C11/Spec.lean`) judges the
implementation's own transcript.

Two input families:
  lat     latencies per message id, timeout draws, timed submits/crashes/partitions (generated)
  script  a list of steps, one per simulated second: timer firings are injected as events,
          `deliver type src dst k` fixes the arrival of the k-th such message (k = 0: of the first
          such message sent after the previous k = 0 step of that kind fired and not yet claimed);
          messages that no step names are lost (witnesses in corpus/C11, their mutations, and the
          generated `diverge` scenarios: two leaders with conflicting uncommitted suffixes);
          a `fence` step closes a block: messages sent before it cannot claim a step after it.
          `lagback` scenarios: followers that lagged across a leader change are walked back through the
          refuse-and-retry path, a command lands on the new leader between a heartbeat and its
          acknowledgements, the leader is cut off at once, the rest elects another leader
          `reelect` scenarios (built from fenced blocks): the same node leads twice, its minority
          followers' logs are rewritten by another leader in between, their replies are lost after
          the re-election, a node without the new commands is elected by the rest
  stable  lat with no faults and tiny delays; the bounded-progress clause is judged as well
          (for the model it is a theorem under schedule predicates: HappyProofs/C11/Progress.lean,
          ProgObs.lean, ProgAll.lean, ProgConvRun.lean, ProgJudgeOk.lean — see `partial_theorems` for what is not proved)
"""
from __future__ import annotations

import atexit
import hashlib
import json
import os
import random
import shutil
import tempfile

from hv import core

TYPES = {"RaftRequestVote": "rv", "RaftVoteResponse": "vr", "RaftAppendEntries": "ae", "RaftAppendEntriesResponse": "ar"}
OPS = ["set", "get", "delete", "cas"]
MAX_EVENTS = 6000


class _Watchdog(Exception):
    pass


class _Uniform:
    """stands in for the `random` module inside raft.py: election-timeout draws come from the case"""

    def __init__(self, draws_ms, fallback):
        self.draws, self.k, self.fb, self.log = list(draws_ms), 0, fallback, []

    def uniform(self, a, b):
        if self.k < len(self.draws):
            ms = self.draws[self.k]
        else:
            ms = self.fb.randrange(int(a * 1000), int(b * 1000) + 1)
        self.k += 1
        x = min(max(ms / 1000.0, a), b)
        self.log.append(x)
        return x

    def __getattr__(self, name):  # anything else raft.py might use from `random`
        return getattr(random, name)


def _canon_res(r):
    if r is None:
        return "none"
    if r is True:
        return "T"
    if r is False:
        return "F"
    return f"v{r}"


class C11(core.Property):
    id = "C11"
    driver = "drv-c11"
    lake_targets = ["HappyProofs.C11.Props", "drv-c11"]
    audit_imports = ["HappyProofs.C11.Props"]
    lean_files = ["HappyModel/C11/*.lean", "HappyProofs/C11/*.lean", "HappyModel/Proto.lean", "Driver/C11.lean"]
    theorems = []
    variants = ["repaired"]
    quick_cases = 400
    thorough_cases = 20000
    case_timeout_s = 30
    search_budget = {"quick": 150, "thorough": 2000}
    rule = ("family lat: 3–5 RaftNodes, 1.2–3 s of simulated time, heartbeat 60–120 ms, election timeouts 150–400 ms drawn from the case, "
            "per-message latency from a menu 1–600 ms, 0–8 client commands (set/get/delete/cas on 3 keys) to the current leader or a fixed node, "
            "0–2 crash/restart windows, 0–2 partitions, 0–6 lost messages; family script: step lists (corpus witnesses and their mutations, "
            "diverge scenarios, reelect scenarios: one node leads twice with rewritten follower logs in between and selectively lost replies, "
            "lagback scenarios: lagging followers caught up by refusal/retry rounds, a submit between a heartbeat and its acks, the leader cut off, a new leader); "
            "next_index/match_index of the event's target are compared after every step; "
            "family stable: no faults, latency ≤ 5 ms; non-trivial = some node became leader; distinct = distinct recorded schedule")
    trusted_base = [
        "hv/props/c11.py harness entities (latency lookup, recording state machine wrapping the real KVStateMachine, send/deliver log)",
        "private attributes read for comparison only: RaftNode._voted_for, RaftNode._last_applied, RaftNode._next_index, RaftNode._match_index (`x` lines; the judge ignores them)",
        "raft.random.uniform replaced by the case's draw list (the draws are inputs of the model's timeout action)",
        "the recorded delivery order is fed to the model: the engine's own ordering is C01's subject",
    ]
    assumptions = [
        "crash = CrashNode: events aimed at a crashed node are discarded, its state is kept (the repo has no other notion of a Raft crash); overlapping crash windows nest, as in /repo since the C06 fix 6aa5e9b",
        "client commands carry a unique id so that 'exactly its command' is decidable",
        "stable family: the timing premise (delays ≤ 5 ms, timeouts ≥ 150 ms, no faults) is established by the generator",
    ]
    hypotheses = []
    partial_theorems = {}

    def __init__(self):
        # recorded schedules travel from the forked run_impl workers to model_block through this
        # directory (model_block only receives the case); it lives as long as this process
        self._dir = tempfile.mkdtemp(prefix="hv-c11-")
        self._owner = os.getpid()
        atexit.register(self._cleanup)
        # import the implementation once, in the parent: forked workers inherit the loaded modules
        # (a first import inside 16 workers at once is slow enough to trip the per-case alarm)
        import happysimulator.components.consensus.raft  # noqa: F401
        import happysimulator.components.network.network  # noqa: F401
        import happysimulator.core.simulation  # noqa: F401
        import happysimulator.faults.schedule  # noqa: F401
        import happysimulator.faults.node_faults  # noqa: F401

    def _cleanup(self):
        if os.getpid() == self._owner:
            shutil.rmtree(self._dir, True)

    # ------------------------------------------------------------------ generation
    def generate(self, rng: random.Random, i: int, tier: str) -> dict:
        # quick tier: a case takes ~30 ms in-process, 400 of them ~12 s; on a loaded machine the fork
        # pool is slower than that and its stalls show up as IMPL-TIMEOUT.  Thorough keeps the pool.
        self.pool_workers = 1 if tier == "quick" else None
        k = i % 10
        if k == 9:
            return self.gen_stable(rng, tier)
        if k == 8:
            return self.gen_script(rng, tier)
        if k == 7 and (i // 10) % 2 == 1:
            return self.gen_lagback(rng, tier)
        if k in (6, 7):
            return self.gen_diverge(rng, tier)
        if k == 5:
            return self.gen_reelect(rng, tier)
        return self.gen_lat(rng, tier)

    LAT_MENUS = [
        [1, 1, 2, 3, 5],
        [1, 2, 5, 10, 30, 80],
        [1, 5, 20, 60, 150, 300],
        [5, 40, 40, 120, 250, 600],
        [1, 1, 1, 200, 400],
        [10, 10, 10, 10],
        [0, 0, 1, 50],
    ]

    def gen_lat(self, rng, tier):
        n = rng.choice([3, 3, 4, 5, 5])
        big = tier == "thorough" and rng.random() < 0.3
        dur = rng.choice([1200, 1800, 2500, 3000]) * (2 if big else 1)
        hb = rng.choice([60, 80, 100, 120])
        lo = rng.choice([150, 150, 200, 300])
        hi = lo + rng.choice([0, 10, 50, 100, 150])
        grid = rng.choice([1, 10, 50])
        draws = [min(hi, lo + grid * rng.randrange(0, (hi - lo) // grid + 1)) for _ in range(rng.choice([8, 20, 60]))]
        menu = rng.choice(self.LAT_MENUS)
        slow = {rng.randrange(n) for _ in range(rng.choice([0, 0, 1, 2]))}
        lats = []
        for _ in range(rng.choice([32, 64, 128, 257])):
            lats.append(rng.choice(menu))
        subs = []
        cid = 1
        for _ in range(rng.choice([0, 1, 3, 5, 8]) * (2 if big else 1)):
            t = rng.randrange(200, dur)
            who = rng.choice([-1, -1, -1, -2, -2]) if rng.random() < 0.8 else rng.randrange(n)
            op = rng.choice([0, 0, 0, 1, 2, 3])
            exp = rng.choice([None, 0, 1, 2, 7])
            subs.append([t, who, cid, op, rng.randrange(3), rng.choice([0, 1, 2, 7]), exp])
            cid += 1
        crashes = []
        for _ in range(rng.choice([0, 0, 0, 1, 1, 2])):
            at = rng.randrange(100, dur)
            crashes.append([rng.randrange(n), at, (at + rng.choice([50, 200, 500, 900])) if rng.random() < 0.8 else None,
                            rng.random() < 0.7])
        parts = []
        for _ in range(rng.choice([0, 0, 0, 1, 1, 2])):
            at = rng.randrange(100, dur)
            ids = list(range(n))
            rng.shuffle(ids)
            cut = rng.randrange(1, n)
            if rng.random() < 0.5:
                # cut off whoever leads at that moment (resolved at run time), alone or with one follower
                heal = at + rng.choice([300, 600, 1000])
                parts.append([at, heal, [-1], [rng.choice([0, 0, 1])]])
                for _ in range(rng.choice([1, 2, 3])):  # commands for the cut-off leader and for its successor
                    subs.append([rng.randrange(at + 5, heal), rng.choice([-2, -2, -1]), cid, rng.choice([0, 0, 1, 2, 3]),
                                 rng.randrange(3), rng.choice([0, 1, 2, 7]), rng.choice([None, 1, 7])])
                    cid += 1
            else:
                parts.append([at, at + rng.choice([100, 300, 600, 1000]), sorted(ids[:cut]), sorted(ids[cut:])]
                             + ([True] if rng.random() < 0.3 else []))  # one-way cut (a cannot reach b)
        lost = sorted({rng.randrange(0, 400) for _ in range(rng.choice([0, 0, 2, 6]))})
        subs.sort(key=lambda s: (s[0], s[2]))
        return {"family": "lat", "n": n, "dur": dur, "hb": hb, "to": [lo, hi], "draws": draws, "lats": lats,
                "slow": sorted(slow), "slow_x": rng.choice([3, 10, 40]), "subs": subs, "crashes": crashes,
                "parts": parts, "lost": lost, "seed": rng.randrange(1 << 30)}

    def gen_stable(self, rng, tier):
        n = rng.choice([3, 4, 5])
        lo = rng.choice([150, 200, 300])
        hi = lo + rng.choice([50, 100, 150])
        # distinct first draws so that exactly one node times out first and wins
        base = rng.sample(range(lo, hi + 1, 10), n) if (hi - lo) // 10 + 1 >= n else list(range(lo, lo + 10 * n, 10))
        draws = base + [rng.randrange(lo, hi + 1) for _ in range(40)]
        hb = rng.choice([50, 60, 80])
        k = rng.choice([1, 2, 4, 7])
        t0 = hi + 100
        subs, cid = [], 1
        for _ in range(k):
            subs.append([t0 + rng.randrange(0, 600), -1, cid, rng.choice([0, 0, 1, 2, 3]), rng.randrange(3),
                         rng.choice([0, 1, 2, 7]), rng.choice([None, 0, 1, 2, 7])])
            cid += 1
        subs.sort()
        for j, s in enumerate(subs):
            s[2] = j + 1
        dur = t0 + 600 + 3 * hb + 50
        return {"family": "stable", "n": n, "dur": dur, "hb": hb, "to": [lo, hi], "draws": draws,
                "lats": [rng.choice([0, 1, 2, 5]) for _ in range(64)], "slow": [], "slow_x": 1, "subs": subs,
                "crashes": [], "parts": [], "lost": [], "seed": rng.randrange(1 << 30)}

    def gen_script(self, rng, tier):
        """a random walk over plausible steps; selectors that never match are simply lost messages"""
        n = rng.choice([3, 5])
        steps = []
        first = rng.randrange(n)
        steps.append(["timeout", first])
        others = [j for j in range(n) if j != first]
        rng.shuffle(others)
        for j in others[: n // 2 + rng.choice([0, 0, 1])]:
            steps.append(["deliver", "rv", first, j, 1])
            steps.append(["deliver", "vr", j, first, 1])
        cnt = {}
        cid = 1
        for _ in range(rng.choice([6, 15, 30, 50])):
            r = rng.random()
            if r < 0.5:
                t = rng.choice(["ae", "ar", "ae", "ar", "rv", "vr"])
                a, b = rng.sample(range(n), 2)
                key = (t, a, b)
                cnt[key] = cnt.get(key, 0) + 1
                steps.append(["deliver", t, a, b, cnt[key]])
            elif r < 0.65:
                steps.append(["hb", rng.randrange(n)])
            elif r < 0.78:
                steps.append(["timeout", rng.randrange(n)])
            elif r < 0.93:
                steps.append(["submit", rng.choice([first, rng.randrange(n)]), cid, rng.choice([0, 0, 1, 2, 3]), rng.randrange(3),
                              rng.choice([0, 1, 2, 7]), rng.choice([None, 1, 7])])
                cid += 1
            elif r < 0.97:
                steps.append(["crash", rng.randrange(n)])
            else:
                steps.append(["restart", rng.randrange(n)])
        return {"family": "script", "n": n, "steps": steps}

    def gen_diverge(self, rng, tier):
        """leader A takes commands that reach few nodes, B is elected by the others and takes
        different commands at the same indices, then everybody talks to everybody"""
        n = rng.choice([3, 5, 5])
        ids = list(range(n))
        rng.shuffle(ids)
        A, rest = ids[0], ids[1:]
        q = n // 2 + 1
        steps = []
        cid = [1]

        def elect(c, voters, times=1):
            for _ in range(times):
                steps.append(["timeout", c])
                for j in voters:
                    steps.append(["deliver", "rv", c, j, 0])
                for j in voters:
                    steps.append(["deliver", "vr", j, c, 0])

        def submits(c, k):
            for _ in range(k):
                steps.append(["submit", c, cid[0], rng.choice([0, 0, 1, 2, 3]), rng.randrange(3), rng.choice([0, 1, 2, 7]),
                              rng.choice([None, 1, 7])])
                cid[0] += 1

        def replicate(c, targets, rounds):
            for _ in range(rounds):
                steps.append(["hb", c])
                for j in targets:
                    steps.append(["deliver", "ae", c, j, 0])
                for j in targets:
                    if rng.random() < 0.85:
                        steps.append(["deliver", "ar", j, c, 0])
                # the retry ping-pong after a failed consistency check
                for _ in range(rng.choice([0, 1, 3])):
                    for j in targets:
                        steps.append(["deliver", "ae", c, j, 0])
                        steps.append(["deliver", "ar", j, c, 0])

        elect(A, rest[: q - 1])
        submits(A, rng.choice([1, 2, 3]))
        s1 = rest[: rng.choice([0, 1, 1])] if n > 3 else rest[: rng.choice([0, 1])]
        replicate(A, s1, 1)
        cand = [j for j in rest if j not in s1]
        B = cand[-1]
        voters = [j for j in ids if j != B and j != A and j not in s1]
        if rng.random() < 0.3:
            voters = voters + s1  # will be refused when their log is longer: also a path worth seeing
        elect(B, voters, times=rng.choice([2, 2, 3]))
        submits(B, rng.choice([1, 2, 4]))
        everyone = [j for j in ids if j != B]
        rng.shuffle(everyone)
        replicate(B, everyone[: rng.randrange(1, n)], rng.choice([1, 2, 3]))
        # a third act: somebody else (possibly the deposed leader) stands again
        C = rng.choice(ids)
        elect(C, [j for j in ids if j != C][: rng.randrange(1, n)], times=rng.choice([1, 2, 3]))
        submits(C, rng.choice([0, 1, 2]))
        others = [j for j in ids if j != C]
        rng.shuffle(others)
        replicate(C, others[: rng.randrange(1, n)], rng.choice([1, 2]))
        replicate(B, everyone[: rng.randrange(1, n)], 1)
        return {"family": "script", "n": n, "steps": steps, "gen": "diverge"}


    # ---- scripted scenarios built from blocks (each block ends with a `fence`) ----
    class _Plot:
        """step-list builder: elections, client commands, replication rounds; every block is closed
        by a fence, so what a block does not deliver is lost and never leaks into a later block"""

        def __init__(self, rng, n, cid=1):
            self.rng, self.n, self.steps, self.cid = rng, n, [], cid

        def fence(self):
            self.steps.append(["fence"])

        def elect(self, c, voters, reach=(), ack=(), times=1):
            """`c` times out; RequestVote reaches `voters`, whose answers come back; the first
            AppendEntries of the new leader reaches `reach`; the replies of `ack` come back"""
            for _ in range(times):
                self.steps.append(["timeout", c])
                for j in voters:
                    self.steps.append(["deliver", "rv", c, j, 0])
                for j in voters:
                    self.steps.append(["deliver", "vr", j, c, 0])
                for j in reach:
                    self.steps.append(["deliver", "ae", c, j, 0])
                for j in reach:
                    if j in ack:
                        self.steps.append(["deliver", "ar", j, c, 0])
                self.fence()

        def submits(self, c, k):
            rng = self.rng
            for _ in range(k):
                self.steps.append(["submit", c, self.cid, rng.choice([0, 0, 1, 2, 3]), rng.randrange(3), rng.choice([0, 1, 2, 7]),
                                   rng.choice([None, 1, 7])])
                self.cid += 1

        def replicate(self, c, targets, ack, rounds=1, retries=0):
            """heartbeat of `c`: AppendEntries reaches `targets`, the replies of `ack` come back;
            `retries` further request/reply exchanges (the walk-back after a failed consistency check)"""
            for _ in range(rounds):
                self.steps.append(["hb", c])
                for j in targets:
                    self.steps.append(["deliver", "ae", c, j, 0])
                for j in targets:
                    if j in ack:
                        self.steps.append(["deliver", "ar", j, c, 0])
                for _ in range(retries):
                    for j in targets:
                        if j in ack:
                            self.steps.append(["deliver", "ae", c, j, 0])
                            self.steps.append(["deliver", "ar", j, c, 0])
                self.fence()

    def gen_reelect(self, rng, tier):
        """the same node leads twice.  Leader A (term t1) replicates commands to a minority that
        acknowledges them; the rest of the cluster elects B (term t2) which commits other commands
        and, once the cut heals, rewrites the logs of A and of its followers; A is elected again
        (term t3) and the replies of its former followers are lost, while few others acknowledge
        its new commands; then a node that does not hold them is elected by the remaining nodes.
        Everything A remembered about its followers' progress in t1 is worthless in t3.
        Sizes, identities, numbers of commands, who votes, which replies are lost all vary.
        (Only n = 5 can realise the full shape: with 3 or 4 nodes the side that holds A's
        unacknowledged commands is needed for every later majority, so they are never rewritten.)"""
        n = rng.choice([5, 5, 5, 5, 5, 5, 4, 3])
        q = n // 2 + 1
        ids = list(range(n))
        rng.shuffle(ids)
        A, others = ids[0], ids[1:]
        P = self._Plot(rng, n)
        loose = rng.random() < 0.25  # looser variations of every choice

        def some(xs, lo, hi):
            xs = list(xs)
            rng.shuffle(xs)
            return xs[: max(0, min(len(xs), rng.randint(lo, hi)))]

        if rng.random() < 0.3:  # somebody's lonely candidacy first: terms start off unequal
            P.elect(rng.choice(ids), [], times=rng.choice([1, 2]))
        # act 1: A leads, a minority follows
        V1 = some(others, q - 1, n - 1)
        reach = some(V1, 0, len(V1))
        P.elect(A, V1, reach, some(reach, 0, len(reach)), times=rng.choice([1, 1, 2]))
        k1 = rng.choice([1, 2, 3, 3, 4, 5, 6])
        P.submits(A, k1)
        minority = max(0, n - q - 1)  # followers A may have without reaching a majority
        S1 = some(others, minority, minority) if not loose else some(others, 0, minority + 1)
        if rng.random() < 0.3 and k1 > 1:  # in two batches
            P.replicate(A, S1, S1, rounds=1)
            P.submits(A, 1)
            k1 += 1
        P.replicate(A, S1, [j for j in S1 if rng.random() < 0.9], rounds=rng.choice([1, 1, 2]))
        # act 2: the others elect B, which commits its own commands
        rest = [j for j in others if j not in S1]
        if not rest:
            rest = others[:]
        B, V2 = rest[0], rest[1:]
        if rng.random() < 0.2:
            V2 = V2 + S1  # they refuse (longer log)
        P.elect(B, V2, V2, V2, times=rng.choice([2, 2, 3]))
        k2 = rng.choice([0, 1, 1, 1, 2])
        P.submits(B, k2)
        P.replicate(B, V2, V2, rounds=rng.choice([2, 2, 1]), retries=1)
        if rng.random() < 0.2 and len(V2) >= q - 1:  # a second leader on that side
            B2 = V2[0]
            V2b = [B] + V2[1:]
            P.elect(B2, V2b, V2b, V2b, times=1)
            kb = rng.choice([0, 1])
            P.submits(B2, kb)
            k2 += kb
            P.replicate(B2, V2b, V2b, rounds=2, retries=1)
            B = B2
        # the cut heals: B's log replaces the others
        everyone = [j for j in ids if j != B]
        healed = everyone if not loose else some(everyone, n - 2, n - 1)
        P.replicate(B, healed, healed, rounds=rng.choice([2, 2, 3]), retries=k1 + 1)
        # act 3: A again; its old followers do not answer
        pool = [j for j in others if j not in S1]
        V3 = some(pool, q - 1, len(pool))
        if rng.random() < 0.3:
            V3 = V3 + S1  # they may vote, their later replies are lost all the same
        reach = some(V3, 0, len(V3))
        ack3 = [j for j in reach if j not in S1 or (loose and rng.random() < 0.3)]
        P.elect(A, V3, reach, ack3, times=rng.choice([1, 1, 2]))
        k3 = rng.choice([1, 2, 2, 3])
        P.submits(A, k3)
        R3 = some(pool, minority, minority) if not loose else some(pool, 0, minority + 1)
        T3 = R3 + (S1 if rng.random() < 0.2 else [])
        P.replicate(A, T3, R3, rounds=rng.choice([1, 2, 2]), retries=rng.choice([0, 1]))
        # act 4: a node without A's new commands is elected by the rest
        cand = [j for j in others if j not in R3] or others[:]
        X = rng.choice(cand)
        V4 = [j for j in cand if j != X]
        if loose:
            V4 = some([j for j in ids if j != X], q - 1, n - 1)
        P.elect(X, V4, V4, V4, times=rng.choice([2, 2, 3]))
        k4 = rng.choice([0, 1, 1, 2])
        P.submits(X, k4)
        P.replicate(X, V4, V4, rounds=2, retries=2)
        # act 5: everybody hears X
        allx = [j for j in ids if j != X]
        P.replicate(X, allx, allx, rounds=2, retries=k1 + k3 + 2)
        return {"family": "script", "n": n, "steps": P.steps, "gen": "reelect",
                "plan": {"A": A, "S1": S1, "B": B, "R3": R3, "X": X, "k": [k1, k2, k3, k4], "loose": loose}}

    def gen_lagback(self, rng, tier):
        """followers that lagged across a leader change are walked back (refused AppendEntries, retry
        with a lower prev_log_index, possibly several rounds, accepted at prev_log_index >= 1 or 0);
        then a heartbeat of the new leader B goes out, a client command lands on B between that
        heartbeat and its acknowledgements, the acknowledgements of some up-to-date followers come
        back, and B is never heard again; the rest elects a leader and commits other commands.
        What B believes about the walked-back followers (match_index after the retry path) decides
        whether it commits the command alone.  Sizes, who lags and by how much, how many retry
        rounds are delivered, the order heartbeat/submit, who acknowledges, all vary."""
        n = rng.choice([3, 3, 5, 5, 4])
        q = n // 2 + 1
        ids = list(range(n))
        rng.shuffle(ids)
        A, B, rest = ids[0], ids[1], ids[2:]
        P = self._Plot(rng, n)
        loose = rng.random() < 0.25

        def some(xs, lo, hi):
            xs = list(xs)
            rng.shuffle(xs)
            return xs[: max(0, min(len(xs), rng.randint(lo, hi)))]

        nl = q - 1 if not loose else rng.randint(0, max(0, len(rest)))
        Ls = some(rest, nl, nl)                      # the laggers
        R = [j for j in rest if j not in Ls]          # followers that keep up
        if rng.random() < 0.25:
            P.elect(rng.choice(ids), [], times=1)     # a lonely candidacy: unequal terms at the start
        others_A = [j for j in ids if j != A]
        P.elect(A, some(others_A, q - 1, n - 1), some(others_A, 0, n - 1), others_A, times=rng.choice([1, 1, 2]))
        # act 1: everybody gets k0 commands, then only B and R get k1 more (a lagger may get a part of them)
        k0 = rng.choice([0, 1, 1, 2, 3])
        P.submits(A, k0)
        if k0:
            P.replicate(A, others_A, others_A, rounds=rng.choice([1, 2]))
        k1 = rng.choice([1, 2, 2, 3])
        depth = {}
        for r in range(k1):
            P.submits(A, 1)
            part = [j for j in Ls if rng.random() < 0.25 and depth.get(j, r) == r]  # still contiguous for this lagger
            for j in part:
                depth[j] = r + 1
            tg = [B] + R + part
            P.replicate(A, tg, tg, rounds=1)
        P.replicate(A, [B] + R, [B] + R, rounds=1)      # the commit index reaches them
        # act 2: B takes over and walks the laggers back
        others_B = [j for j in ids if j != B]
        V2 = Ls + some(R + [A], 0, len(R) + 1)
        if len(V2) < q - 1:
            V2 = others_B[:]
        P.elect(B, V2, [], [], times=rng.choice([1, 1, 2]))
        walked = others_B if not loose else some(others_B, 1, len(others_B))
        P.replicate(B, walked, walked, rounds=1, retries=k1 + rng.choice([0, 0, 1]) - (1 if loose and rng.random() < 0.5 else 0))
        if rng.random() < 0.3:                          # a plain heartbeat round that some of them acknowledge
            hs = some(others_B, 0, len(others_B))
            P.replicate(B, hs, hs, rounds=1)
        # act 3: heartbeat, command(s), acknowledgements of followers that were never walked back
        T = some(R + [A], 1, len(R) + 1) if not loose else some(others_B, 0, len(others_B))
        order = rng.choice(["hb-submit", "hb-submit", "hb-submit", "submit-hb"])
        k3 = rng.choice([1, 1, 2])
        if order == "submit-hb":
            P.submits(B, k3)
        P.steps.append(["hb", B])
        for j in T:
            P.steps.append(["deliver", "ae", B, j, 0])
        if order == "hb-submit":
            P.submits(B, k3)
        for j in T:
            if rng.random() < 0.9:
                P.steps.append(["deliver", "ar", j, B, 0])
        P.fence()
        # act 4: B is cut off; the others elect C, which commits its own commands
        pool = others_B
        C = rng.choice(pool)
        V4 = [j for j in pool if j != C]
        if loose:
            V4 = some(V4, min(len(V4), q - 1), len(V4))
        P.elect(C, V4, V4, V4, times=rng.choice([2, 2, 3]))
        k4 = rng.choice([1, 1, 2])
        P.submits(C, k4)
        P.replicate(C, V4, V4, rounds=2, retries=k1 + 1)
        # act 5: sometimes B hears C again
        if rng.random() < 0.5:
            allc = [j for j in ids if j != C]
            P.replicate(C, allc, allc, rounds=2, retries=k1 + k3 + 2)
        return {"family": "script", "n": n, "steps": P.steps, "gen": "lagback",
                "plan": {"A": A, "B": B, "Ls": Ls, "C": C, "k": [k0, k1, k3, k4], "order": order, "loose": loose}}

    # ------------------------------------------------------------------ implementation
    def run_impl(self, case):
        lines = self._run(case)
        self._stash(case, lines)
        return lines

    def _key(self, case):
        return hashlib.sha256(json.dumps(case, sort_keys=True).encode()).hexdigest()

    def _stash(self, case, lines):
        try:
            with open(os.path.join(self._dir, self._key(case)), "w") as f:
                f.write("\n".join(l for l in lines if l.startswith("ev ")))
        except OSError:
            pass

    def _schedule(self, case):
        p = os.path.join(self._dir, self._key(case))
        if not os.path.exists(p):
            try:
                out = core.run_impl_safe(self, case)
            except Exception:
                out = []
            if not os.path.exists(p):
                return [l for l in out if l.startswith("ev ")]
        with open(p) as f:
            return [l for l in f.read().split("\n") if l]

    def _run(self, case):
        import happysimulator.components.consensus.raft as raft_mod
        from happysimulator.components.consensus.raft import RaftNode, RaftState
        from happysimulator.components.consensus.raft_state_machine import KVStateMachine
        from happysimulator.components.network.link import NetworkLink
        from happysimulator.components.network.network import Network
        from happysimulator.core.event import Event
        from happysimulator.core.simulation import Simulation
        from happysimulator.core.temporal import Duration, Instant
        from happysimulator.distributions.latency_distribution import LatencyDistribution
        from happysimulator.faults.node_faults import CrashNode
        from happysimulator.faults.schedule import FaultSchedule

        n = case["n"]
        script = case["family"] == "script"
        random.seed(case.get("seed", 0))
        out: list[str] = []
        st = {"mid": 0, "cur": None, "sent": [], "apps": [], "count": 0}
        plan_lat: dict[int, float] = {}
        plan_lost: set[int] = set()

        if script:
            steps = case["steps"]
            sel_at = {}
            wild: dict = {}  # (type, src, dst) -> times of the steps with k = 0, not yet claimed
            for k, s in enumerate(steps):
                if s[0] == "deliver":
                    if s[4] == 0:
                        wild.setdefault((s[1], s[2], s[3]), []).append(k + 1)
                    else:
                        sel_at.setdefault((s[1], s[2], s[3], s[4]), k + 1)
            sel_cnt: dict = {}
            fences = [k + 1 for k, s in enumerate(steps) if s[0] == "fence"]
        else:
            lats = case["lats"] or [1]
            slow = set(case.get("slow", []))
            lost = set(case.get("lost", []))

        class RecSM:
            def __init__(self, i):
                self.i, self.kv, self.k = i, KVStateMachine(), 0

            def apply(self, command):
                r = self.kv.apply(command)
                self.k += 1
                st["apps"].append(f"a {self.i} {self.k} {command['id']} {_canon_res(r)}")
                return r

            def snapshot(self):
                return self.kv.snapshot()

            def restore(self, s):
                self.kv.restore(s)

        class HLat(LatencyDistribution):
            def __init__(self):
                super().__init__(0.0)

            def get_latency(self, current_time):
                ev = st["cur"]
                mid = ev.context["metadata"]["hv_id"]
                return Duration.from_seconds(plan_lat.get(mid, 0.001))

        class RecNetwork(Network):
            def send(self, source, destination, event_type, payload=None, daemon=False):
                ev = super().send(source, destination, event_type, payload, daemon)
                mid = st["mid"]
                st["mid"] += 1
                md = ev.context["metadata"]
                md["hv_id"] = mid
                a, b = idx[source.name], idx[destination.name]
                t = TYPES[event_type]
                if t == "rv":
                    body = f"rv {md['term']} {idx[md['candidate_id']]} {md['last_log_index']} {md['last_log_term']}"
                elif t == "vr":
                    body = f"vr {md['term']} {int(bool(md['vote_granted']))} {idx[md['from']]}"
                elif t == "ae":
                    k0 = md["prev_log_index"]
                    # an entry is printed as term:id; its own index only when it is not prev_log_index + 1 + position
                    # (the follower places entries by that field, so such a message is a legal input; the model never sends one)
                    ents = " ".join(f"{e['term']}:{e['command']['id']}" + ("" if e["index"] == k0 + 1 + j else f"@{e['index']}")
                                    for j, e in enumerate(md["entries"]))
                    body = (f"ae {md['term']} {idx[md['leader_id']]} {md['prev_log_index']} {md['prev_log_term']} "
                            f"{md['leader_commit']} E" + (" " + ents if ents else ""))
                else:
                    body = f"ar {md['term']} {int(bool(md['success']))} {idx[md['from']]} {md['match_index']}"
                st["sent"].append(f"m {mid} {a} {b} {body}")
                if script:
                    key = (t, a, b)
                    sel_cnt[key] = sel_cnt.get(key, 0) + 1
                    at = sel_at.get((t, a, b, sel_cnt[key]))
                    now_s = self.now.to_seconds()
                    if at is None:
                        # k = 0: the first later step of this kind that no message has claimed yet
                        # a `fence` step closes a block: a message sent before it cannot claim a
                        # step after it (it is lost), and steps nobody claimed before it stay idle
                        w = wild.get(key, [])
                        while w and w[0] <= now_s:
                            w.pop(0)
                        wall = next((f for f in fences if f > now_s), None)
                        if w and (wall is None or w[0] < wall):
                            at = w.pop(0)
                    if at is None or at <= now_s:
                        plan_lost.add(mid)
                    else:
                        plan_lat[mid] = at - now_s
                else:
                    ms = lats[mid % len(lats)]
                    if a in slow or b in slow:
                        ms *= case.get("slow_x", 1)
                    plan_lat[mid] = ms / 1000.0
                    if mid in lost:
                        plan_lost.add(mid)
                return ev

            def handle_event(self, event):
                md = event.context.get("metadata", {})
                mid = md.get("hv_id")
                st["cur"] = event
                link = self.get_link(md.get("source"), md.get("destination"))
                if link is not None:
                    link.packet_loss_rate = 1.0 if mid in plan_lost else 0.0
                res = yield from super().handle_event(event)
                if res is None and mid is not None:
                    out.append(f"ev drop {mid}")
                return res

        names = [f"n{i}" for i in range(n)]
        idx = {nm: i for i, nm in enumerate(names)}
        net = RecNetwork(name="net")
        if script:
            to_lo, to_hi, hb = 1.0e6, 2.0e6, 1.0e6
            dur = len(case["steps"]) + 2.0
            uni = _Uniform([], random.Random(1))
        else:
            to_lo, to_hi, hb = case["to"][0] / 1000.0, case["to"][1] / 1000.0, case["hb"] / 1000.0
            dur = case["dur"] / 1000.0
            uni = _Uniform(case.get("draws", []), random.Random(case.get("seed", 0)))
        sms = [RecSM(i) for i in range(n)]
        nodes = [RaftNode(nm, network=net, state_machine=sms[i], election_timeout_min=to_lo,
                          election_timeout_max=to_hi, heartbeat_interval=hb) for i, nm in enumerate(names)]
        for nd in nodes:
            nd.set_peers(nodes)
        for i in range(n):
            for j in range(i + 1, n):
                net.add_bidirectional_link(nodes[i], nodes[j], NetworkLink(name=f"l{i}_{j}", latency=HLat()))

        futures = []  # (fid, node index, SimFuture)
        done = set()
        ROLE = {RaftState.FOLLOWER: "F", RaftState.CANDIDATE: "C", RaftState.LEADER: "L"}

        def view(i):
            nd = nodes[i]
            vf = nd._voted_for
            ents = " ".join(f"{e.term}:{e.command['id']}" for e in nd.log.entries_after(0))
            others = [nm for nm in names if nm != nd.name]
            nx = " ".join(str(nd._next_index.get(nm, 1)) for nm in others)
            mt = " ".join(str(nd._match_index.get(nm, 0)) for nm in others)
            return (f"s {i} {ROLE[nd.state]} {nd.current_term} {'-' if vf is None else idx[vf]} "
                    f"{nd.log.commit_index} {nd._last_applied} L" + (" " + ents if ents else "")
                    + f"\nx {i} N {nx} M {mt}")

        last = [view(i) for i in range(n)]

        def flush(evline, target):
            out.append(evline)
            for i in range(n):
                v = view(i)
                if i == target or v != last[i]:
                    out.extend(v.split("\n"))
                    last[i] = v
            out.extend(st["apps"])
            st["apps"] = []
            res = []
            for fid, i, fut in futures:
                if fid not in done and fut.is_resolved:
                    done.add(fid)
                    k, r = fut.value
                    res.append((k, f"r {i} {fid} {k} {_canon_res(r)}"))
            out.extend(l for _, l in sorted(res))
            out.extend(st["sent"])
            st["sent"] = []

        def do_submit(spec):
            who, cid, op, key, val, exp = spec
            if who < 0:
                ls = [i for i in range(n) if nodes[i].is_leader]
                if who == -2:  # the leader with the oldest term (a deposed one that has not noticed yet)
                    ls.sort(key=lambda i: (nodes[i].current_term, i))
                who = ls[0] if ls else 0
            cmd = {"op": OPS[op], "key": f"k{key}", "value": val, "expected": exp, "id": cid}
            fut = nodes[who].submit(cmd)
            fid = len(futures)
            futures.append((fid, who, fut))
            flush(f"ev submit {who} {fid} {cid} {op} {key} {val} {'-' if exp is None else exp}", who)

        def on_event(ev):
            st["count"] += 1
            if st["count"] > MAX_EVENTS:
                raise _Watchdog()
            tgt = ev.target
            et = ev.event_type
            if isinstance(tgt, RaftNode):
                i = idx[tgt.name]
                crashed = getattr(tgt, "_crashed", False)
                if et in TYPES:
                    flush(f"ev deliver {ev.context['metadata']['hv_id']}", i)
                elif crashed:
                    return
                elif et == "RaftElectionTimeout":
                    flush(f"ev timeout {i}", i)
                elif et == "RaftHeartbeat":
                    flush(f"ev hb {i}", i)
            elif et.startswith("fault.crash:"):
                i = idx[et.split(":", 1)[1]]
                flush(f"ev crash {i}", i)
            elif et.startswith("fault.restart:"):
                i = idx[et.split(":", 1)[1]]
                flush(f"ev restart {i}", i)

        fs = FaultSchedule()
        pre = []
        if script:
            for k, s in enumerate(case["steps"]):
                t = Instant.from_seconds(k + 1)
                if s[0] == "timeout":
                    pre.append(Event(time=t, event_type="RaftElectionTimeout", target=nodes[s[1]], daemon=True))
                elif s[0] == "hb":
                    pre.append(Event(time=t, event_type="RaftHeartbeat", target=nodes[s[1]], daemon=True))
                elif s[0] == "submit":
                    pre.append(Event.once(time=t, event_type="hv.submit", fn=(lambda e, sp=s[1:]: do_submit(sp))))
                elif s[0] == "crash":
                    back = next((k2 for k2 in range(k + 1, len(case["steps"]))
                                 if case["steps"][k2][0] == "restart" and case["steps"][k2][1] == s[1]), None)
                    fs.add(CrashNode(names[s[1]], at=float(k + 1), restart_at=None if back is None else float(back + 1)))
                elif s[0] == "part":
                    pre.append(Event.once(time=t, event_type="hv.part", daemon=True,
                                          fn=(lambda e, a=s[1], b=s[2]: (net.partition([nodes[i] for i in a], [nodes[i] for i in b]), None)[1])))
                elif s[0] == "heal":
                    pre.append(Event.once(time=t, event_type="hv.heal", daemon=True, fn=(lambda e: net.heal_partition())))
        else:
            for s in case.get("subs", []):
                pre.append(Event.once(time=Instant.from_seconds(s[0] / 1000.0), event_type="hv.submit",
                                      fn=(lambda e, sp=s[1:]: do_submit(sp))))
            for node, at, back, rearm in case.get("crashes", []):
                fs.add(CrashNode(names[node], at=at / 1000.0, restart_at=None if back is None else back / 1000.0))
                if back is not None and rearm:
                    pre.append(Event.once(time=Instant.from_seconds(back / 1000.0 + 0.0005), event_type="hv.rearm", daemon=True,
                                          fn=(lambda e, nd=nodes[node]: nd.start())))
            def groups(a, b):
                if a == [-1]:  # the current leader (plus b[0] followers) against the rest
                    ls = [i for i in range(n) if nodes[i].is_leader] or [0]
                    side = [ls[-1]] + [j for j in range(n) if j != ls[-1]][: b[0] if b else 0]
                    return side, [j for j in range(n) if j not in side]
                return a, b

            for at, heal, a, b, *asym in case.get("parts", []):
                holder = {}

                def cut(e, a=a, b=b, h=holder, asym=bool(asym and asym[0])):
                    ga, gb = groups(a, b)
                    h["p"] = net.partition([nodes[i] for i in ga], [nodes[i] for i in gb], asymmetric=asym)

                pre.append(Event.once(time=Instant.from_seconds(at / 1000.0), event_type="hv.part", daemon=True, fn=cut))
                pre.append(Event.once(time=Instant.from_seconds(heal / 1000.0), event_type="hv.heal", daemon=True,
                                      fn=(lambda e, h=holder: h["p"].heal() if "p" in h else None)))

        saved = raft_mod.random
        raft_mod.random = uni
        try:
            sim = Simulation(duration=dur, entities=[net, *nodes], fault_schedule=fs)
            sim.control.on_event(on_event)
            if not script:
                for nd in nodes:
                    for e in nd.start():
                        sim.schedule(e)
            for e in pre:
                sim.schedule(e)
            try:
                sim.run()
            except _Watchdog:
                out.append("watchdog")
        finally:
            raft_mod.random = saved
        return out

    # ------------------------------------------------------------------ model / judge
    def model_block(self, case, variant):
        return (f"model {variant} {case['n']}", self._schedule(case))

    def judge_block(self, case, impl_out):
        if impl_out and impl_out[0].startswith("IMPL-"):
            return None
        return (f"judge {case['n']} {1 if case['family'] == 'stable' else 0}", list(impl_out))

    def nontrivial_key(self, case, impl_out):
        if any(l.startswith("s ") and l.split()[2] == "L" for l in impl_out):
            return hashlib.sha256("\n".join(l for l in impl_out if l.startswith("ev ")).encode()).hexdigest()
        return None

    def shrink(self, case):
        if case["family"] == "script":
            xs = case["steps"]
            n = len(xs)
            step = max(1, n // 2)
            while step >= 1:
                for i in range(0, n, step):
                    cand = dict(case)
                    cand.pop("plan", None)  # the plan describes the generated step list only
                    cand["steps"] = xs[:i] + xs[i + step:]
                    if len(cand["steps"]) < n:
                        yield cand
                step //= 2
            return
        for key in ("crashes", "parts", "subs", "lost"):
            xs = case.get(key, [])
            for i in range(len(xs)):
                cand = dict(case)
                cand[key] = xs[:i] + xs[i + 1:]
                yield cand
        if case["dur"] > 400:
            cand = dict(case)
            cand["dur"] = case["dur"] * 3 // 4
            yield cand
        if len(case["lats"]) > 1:
            cand = dict(case)
            cand["lats"] = case["lats"][: len(case["lats"]) // 2]
            yield cand


    def _mutate_blocks(self, steps, n, rng):
        """mutations at the level of a scenario: towards a node that leads twice with a rewritten log
        in between and selectively lost replies — drop one follower's replies in a stretch, repeat an
        earlier election later on, append a further act (a former leader stands again, takes
        commands, reaches few; somebody else is elected by the rest), remove or swap whole blocks"""
        blocks, cur = [], []
        for s in steps:
            cur.append(s)
            if s[0] == "fence":
                blocks.append(cur)
                cur = []
        if cur:
            blocks.append(cur + [["fence"]])
        q = n // 2 + 1
        cid = 1 + max([s[2] for s in steps if s[0] == "submit"] + [0])
        stood = [s[1] for s in steps if s[0] == "timeout"]  # candidates so far, former leaders among them
        for _ in range(rng.randint(1, 3)):
            k = rng.random()
            if k < 0.25 and blocks:
                # one follower's replies to one node are lost from some block on
                i = rng.randrange(len(blocks))
                ars = sorted({(s[2], s[3]) for b in blocks[i:] for s in b if s[0] == "deliver" and s[1] == "ar"})
                if ars:
                    a, b_ = rng.choice(ars)
                    for j in range(i, len(blocks)):
                        blocks[j] = [s for s in blocks[j] if not (s[0] == "deliver" and s[1] == "ar" and s[2] == a and s[3] == b_)]
            elif k < 0.4 and blocks:
                # an earlier election happens again later
                el = [b for b in blocks if b[0][0] == "timeout"]
                if el:
                    blocks.insert(rng.randrange(len(blocks) + 1), json.loads(json.dumps(rng.choice(el))))
            elif k < 0.5 and len(blocks) > 1:
                del blocks[rng.randrange(len(blocks))]
            elif k < 0.6 and len(blocks) > 1:
                i, j = rng.randrange(len(blocks)), rng.randrange(len(blocks))
                blocks[i], blocks[j] = blocks[j], blocks[i]
            elif k < 0.7 and blocks:
                # more (or fewer) commands for somebody who already got some
                subs = [(i, j) for i, b in enumerate(blocks) for j, s in enumerate(b) if s[0] == "submit"]
                if subs:
                    i, j = rng.choice(subs)
                    if rng.random() < 0.7:
                        blocks[i].insert(j, ["submit", blocks[i][j][1], cid, rng.choice([0, 0, 1, 2, 3]), rng.randrange(3),
                                             rng.choice([0, 1, 2, 7]), rng.choice([None, 1, 7])])
                        cid += 1
                    else:
                        del blocks[i][j]
            else:
                # a further act
                P = self._Plot(rng, n, cid)
                ids = list(range(n))
                c = rng.choice(stood) if stood and rng.random() < 0.7 else rng.randrange(n)
                others = [j for j in ids if j != c]
                rng.shuffle(others)
                flat = [s for b in blocks for s in b]
                old = sorted({s[2] for s in flat if s[0] == "deliver" and s[1] == "ar" and s[3] == c})
                if old and rng.random() < 0.6:
                    # `c` stood before and `old` answered it then: this time they stay silent, few
                    # others acknowledge the new commands, and the rest elects somebody else
                    pool = [j for j in others if j not in old]
                    V = (pool + old)[: max(q - 1, len(pool))]
                    reach = [j for j in V if j in pool]
                    P.elect(c, V, reach, reach, times=rng.choice([1, 2]))
                    P.submits(c, rng.choice([1, 1, 2]))
                    few = pool[: max(1, min(q - 2, n - q - 1))]
                    P.replicate(c, few, few, rounds=rng.choice([1, 2]))
                else:
                    V = others[: rng.randint(q - 1, n - 1)]
                    reach = [j for j in V if rng.random() < 0.5]
                    P.elect(c, V, reach, [j for j in reach if rng.random() < 0.5], times=rng.choice([1, 2]))
                    P.submits(c, rng.choice([1, 2, 3]))
                    few = others[: rng.randint(0, max(1, n - q))]
                    P.replicate(c, few, [j for j in few if rng.random() < 0.8], rounds=rng.choice([1, 2]), retries=rng.choice([0, 2]))
                if rng.random() < 0.8:
                    rest = [j for j in others if j not in few] or others
                    x = rng.choice(rest)
                    V2 = [j for j in rest if j != x]
                    if rng.random() < 0.2:
                        V2 = [j for j in ids if j != x][: rng.randint(q - 1, n - 1)]
                    P.elect(x, V2, V2, V2, times=2)
                    P.submits(x, rng.choice([0, 1, 1, 2]))
                    P.replicate(x, V2, V2, rounds=2, retries=2)
                    if rng.random() < 0.5:
                        allx = [j for j in ids if j != x]
                        P.replicate(x, allx, allx, rounds=2, retries=6)
                    stood.append(x)
                stood.append(c)
                cid = P.cid
                at = len(blocks) if rng.random() < 0.7 else rng.randrange(len(blocks) + 1)
                new, cur = [], []
                for s in P.steps:
                    cur.append(s)
                    if s[0] == "fence":
                        new.append(cur)
                        cur = []
                blocks[at:at] = new
        return [s for b in blocks for s in b]

    def mutate(self, case, rng):
        c = json.loads(json.dumps(case))
        if c["family"] == "script":
            c.pop("plan", None)
            if rng.random() < 0.6:
                c["steps"] = self._mutate_blocks(c["steps"], c["n"], rng)
                return c
            xs = c["steps"]
            for _ in range(rng.randint(1, 3)):
                if not xs:
                    break
                i = rng.randrange(len(xs))
                k = rng.random()
                if k < 0.3 and len(xs) > 1:
                    del xs[i]
                elif k < 0.6:
                    j = rng.randrange(len(xs))
                    xs[i], xs[j] = xs[j], xs[i]
                elif k < 0.8:
                    xs.insert(i, ["hb", rng.randrange(c["n"])])
                else:
                    xs.insert(i, ["timeout", rng.randrange(c["n"])])
            return c
        for _ in range(rng.randint(1, 4)):
            k = rng.random()
            if k < 0.4 and c["lats"]:
                c["lats"][rng.randrange(len(c["lats"]))] = rng.choice([0, 1, 5, 50, 200, 500])
            elif k < 0.6 and c["draws"]:
                c["draws"][rng.randrange(len(c["draws"]))] = rng.randrange(c["to"][0], c["to"][1] + 1)
            elif k < 0.8 and c["family"] == "lat":
                c["lost"] = sorted(set(c["lost"]) ^ {rng.randrange(0, 300)})
            elif c["subs"]:
                s = c["subs"][rng.randrange(len(c["subs"]))]
                s[0] = max(1, s[0] + rng.choice([-100, -10, 10, 100]))
                c["subs"].sort()
        return c


THEOREMS: list[str] = [
    # general forms (quantified over the repair flags they need)
    "HappyModel.C11.election_safety",
    "HappyModel.C11.log_matching",
    "HappyModel.C11.apply_in_order_no_gaps",
    "HappyModel.C11.apply_from_log",
    "HappyModel.C11.submit_resolves_own_command",
    "HappyModel.C11.match_sound",
    "HappyModel.C11.lc_main",
    "HappyModel.C11.leader_completeness",
    "HappyModel.C11.state_machine_safety",
    "HappyModel.C11.commit_monotone",
    "HappyModel.C11.committed_never_truncated",
    "HappyModel.C11.clen_reachable",
    "HappyModel.C11.step_new_leader_fresh",
    "HappyModel.C11.new_leader_progress_reset",
    # earlier per-step / conditional forms, now lemmas of the four theorems above
    "HappyModel.C11.commit_monotone_partial",
    "HappyModel.C11.state_machine_safety_partial",
    "HappyModel.C11.leader_completeness_partial",
    # the repaired code
    "HappyModel.C11.election_safety_repaired",
    "HappyModel.C11.log_matching_repaired",
    "HappyModel.C11.apply_in_order_no_gaps_repaired",
    "HappyModel.C11.apply_from_log_repaired",
    "HappyModel.C11.submit_resolves_own_command_repaired",
    "HappyModel.C11.match_sound_repaired",
    "HappyModel.C11.leader_completeness_repaired",
    "HappyModel.C11.state_machine_safety_repaired",
    "HappyModel.C11.commit_monotone_repaired",
    "HappyModel.C11.committed_never_truncated_repaired",
    "HappyModel.C11.leader_completeness_full_holds",
    "HappyModel.C11.state_machine_safety_full_holds",
    "HappyModel.C11.commit_monotone_full_holds",
    # bounded progress under a stable leader (Progress.lean, ProgObs.lean, ProgAll.lean, ProgConvRun.lean, ProgJudgeOk.lean and their lemma files Prog*.lean)
    "HappyModel.C11.stable_leader_commits",
    "HappyModel.C11.stable_leader_commits_obs",
    "HappyModel.C11.stable_all_apply",
    "HappyModel.C11.stable_leader_commits_conv",
    "HappyModel.C11.stable_leader_commits_conv_obs",
    "HappyModel.C11.follower_ae",
    "HappyModel.C11.prev0_not_refused",
    "HappyModel.C11.nack_decrements",
    "HappyModel.C11.backoff_bound",
    "HappyModel.C11.conv_rounds",
    "HappyModel.C11.conv_exists",
    "HappyModel.C11.conv_exists_example",
    # per-link FIFO implies noRegressRun (ProgFifo.lean, ProgFifoInv.lean, ProgFifoRun.lean)
    "HappyModel.C11.new_ack",
    "HappyModel.C11.arSrc_step",
    "HappyModel.C11.regress_of_fifo",
    "HappyModel.C11.kf_step",
    "HappyModel.C11.noRegress_of_fifo",
    "HappyModel.C11.stable_leader_commits_fifo",
    "HappyModel.C11.fifo_example",
    "HappyModel.C11.kf_start_conv",
    "HappyModel.C11.stable_leader_commits_conv_fifo",
    "HappyModel.C11.fifo_conv_example",
    "HappyModel.C11.miLen_step",
    "HappyModel.C11.est_step",
    "HappyModel.C11.sync_step",
    "HappyModel.C11.accept_step",
    "HappyModel.C11.ack_commits",
    "HappyModel.C11.told_applies",
    "HappyModel.C11.laOk_reach",
    "HappyModel.C11.stableOk_settled",
    "HappyModel.C11.stableOk_of_progress",
    "HappyModel.C11.commit_le_leader",
    "HappyModel.C11.stable_leader_commits_repaired",
    "HappyModel.C11.stable_leader_commits_obs_repaired",
    "HappyModel.C11.stableOk_settled_repaired",
    "HappyModel.C11.stable_leader_commits_conv_repaired",
    "HappyModel.C11.stableConv_example",
    "HappyModel.C11.stableFair_example",
    "HappyModel.C11.stableOk_example_hyps",
    "HappyModel.C11.progress_needs_fairness",
    "HappyModel.C11.progress_needs_stability",
    # the pinned code falsifies the property (concrete runs, by `decide`)
    "HappyModel.C11.election_safety_current_false",
    "HappyModel.C11.leader_completeness_current_false",
    "HappyModel.C11.submit_resolves_own_command_current_false",
]
C11.partial_theorems = {
    "stable_leader_commits":
        "PROVED for the message-level model (every cluster size, every reachable start state, every interleaving of other actions): "
        "under a stable leader L of term t, a command submitted to L is appended at k = len(log)+1, replicated on the followers Q, "
        "committed and applied by L at k exactly once, its future resolved with k and that application's result, and no node ever applies "
        "another command at k (stable_leader_commits, stable_leader_commits_obs); every in-sync follower handed the commit notice applies it "
        "too (stable_all_apply); Spec.stableOk accepts the model's frames of every settled single-leader run (stableOk_settled) and of the "
        "one-command stable run described by the schedule predicates alone (stableOk_of_progress). "
        "Log back-off is covered by stable_leader_commits_conv / _conv_obs: no in-sync premise, the fairness predicate `convRun` follows the whole "
        "AppendEntries conversation of each follower (refusal, next_index decrement, immediate retry, …) up to a successful acknowledgement. "
        "The back-off is finite, as a statement about runs: `conv_exists` — from every reachable state with leader L of term t, a live follower p of a term <= t and an "
        "AppendEntries of term t reaching k in flight to p, the conversation-only schedule `convActs` (deliver it, deliver the reply, deliver the retry, …) of at most "
        "2·(next_index[p]+2) deliveries satisfies `convRun` (`conv_rounds` is the induction: fuel >= next_index[p] rounds when the message is the one L would build now, "
        "+1 otherwise; `backoff_bound` the handler-level variant: at most next_index[p]-1 refusals before an accept). "
        "NOT PROVED: (1) the same bound when other traffic between L and p is interleaved with the conversation (a re-delivered old acknowledgement raises next_index[p] "
        "again, so the bound then has to count those too): for interleaved runs `convRun` remains a hypothesis; the "
        "one-round versions (stable_leader_commits, `ackedRun`) instead assume the followers of Q in sync at the submit (`inSync`, kept for ever after "
        "under stability by `sync_step`); (2) the model has no clock: that 'delays well "
        "below the election timeout on a fault-free network' yield the schedule predicates (`stableRun`: no term above t reaches L :: Q; `ackedRun`: the "
        "entry is delivered to each p in Q and p's reply to L; `noRegressRun`: an older acknowledgement does not overtake a newer one — without it the claim is false for n = 5; it is now DERIVED from per-link FIFO: "
        "`fifoRun` (every message handed to a live destination has a larger id than every message delivered before on the same (src,dst) link) implies it along "
        "stable runs from in-sync followers (`noRegress_of_fifo`, invariant `KF`/`kf_step`), and `stable_leader_commits_fifo` is the theorem with the FIFO hypothesis — "
        "what the real Network gives with a constant latency per link; `toldRun`: a later AppendEntries with leader_commit >= k is delivered) is established "
        "by the generated `stable` family of the harness and judged by Spec.stableOk on the implementation's transcript, not proved; "
        "(3) many commands in one theorem: progress is proved per submitted command (any number of other submits may be interleaved), and "
        "stableOk_settled turns 'every node's last_applied = len(L's log)' into the judge's clause, but the composition over all submits of a run is "
        "stated only for one command (stableOk_of_progress).",
}
C11.hypotheses = [
    "election_safety, log_matching: Variant.keepVote (repair D1: _step_down keeps voted_for within a term)",
    "match_sound, leader_completeness, state_machine_safety, commit_monotone: Rep v = keepVote ∧ matchSent ∧ staleAck (repairs D1–D3, all in /repo); "
    "proved over every action list via the history invariant HInv (seen/llogs/cands ghost lists, HappyProofs/C11/HInv.lean)",
    "submit_resolves_own_command: Variant.dropPending (repair D4) and FreshFutures (each submit call gets its own SimFuture)",
    "soup never shrinks on delivery: theorems also cover duplicated deliveries, which the real Network never produces",
    "stable_leader_commits, stable_leader_commits_obs, stable_all_apply, stableOk_of_progress (bundle StableFair, all decidable Bools over the start state / action list): "
    "Rep v; the start state is reachable (run from init over any prefix `pre`); `established s L t` (L is leader of term t); Q a duplicate-free non-empty list of "
    "peers with quorum(n) <= |Q|+1; `inSync s L t p` for p in Q (p < n, p != L, term_p = t, p has a slot in L's match_index, L.log.take(next_index[p]-1) is a prefix of "
    "p's log, and every AppendEntries of term t to p / successful acknowledgement of term t from p in the soup names a prefix of L's log that p holds); "
    "`stableRun v t (L :: Q) s (submit :: as)` (in every state of the run the terms of L and of Q's nodes are <= t — nothing is assumed about other nodes); "
    "`ackedRun … p` for p in Q (monitor over the action list: some step delivers to a live p an AppendEntries of term t from L with prev < k <= prev+len(entries), "
    "and a later step delivers to a live L the message p sent in that step); `noRegressRun` (no step hands L a successful acknowledgement m < k of term t from a "
    "node of Q whose match_index is already >= k); for stable_all_apply additionally `toldRun … p` (some step delivers to a live p an AppendEntries of term t from L "
    "with k <= prev+len(entries) and leader_commit >= k). `progress_needs_fairness` / `progress_needs_stability` (decided 3-node runs) show the conclusion fails "
    "when `ackedRun` resp. `stableRun` is dropped.",
    "stable_leader_commits_fifo: as stable_leader_commits with `fifoRun v [] s (submit :: as)` in place of `noRegressRun` (decidable: walking the action list with the list of "
    "envelopes delivered so far, each delivery to a live destination must carry a larger id than every earlier delivery on the same (src, dst) link; re-deliveries are thereby excluded); "
    "stable_leader_commits_conv_fifo is the back-off variant with `fifoRun`: StableConv without `noRegressRun`, plus the decidable start-state hypothesis `aeBounded s L t p` for p in Q "
    "(every AppendEntries of term t in flight from L to p has prev_log_index + len(entries) <= len(L's log)); that bound holds of every message a leader builds from a next_index <= len(log)+1, "
    "but 'next_index never overshoots' is not among the proved invariants, so it is a hypothesis (the in-sync variant gets it from `inSync`); acknowledgements in flight and match_index are "
    "bounded by the proved safety invariant (ARM, n_ms).",
    "stable_leader_commits_conv, stable_leader_commits_conv_obs (bundle StableConv): as StableFair without `inSync` — only p < n, p != L for p in Q — and with "
    "`convRun … p` in place of `ackedRun`: a step delivers to a live p an AppendEntries of term t from L with k <= prev+len(entries); then, alternately, the message "
    "sent in the previous step of the conversation is delivered to its (live) destination, until the message delivered to L is a successful acknowledgement. "
    "`stableConv_example` is a decided run with a real refusal/retry round in which `inSync` is false.",
    "stableOk_settled: Rep v; `onlyLeader L frames` (no frame shows a leader other than L) and `settledAt` (in the final state every node's last_applied equals "
    "len(L's log)); stableOk_of_progress derives `settledAt` from StableFair and toldRun for Q = all peers, with `onlyLeader` and 'L's final log has length k' "
    "(nothing accepted after the command) as decidable hypotheses on the run.",
]
C11.theorems = THEOREMS
PROPERTY = C11()
