"""C19 extension family `idem` — microservice/idempotency_store.py (IdempotencyStore).

Clause of C19 checked here: *nothing is delivered again after it was acknowledged*, for the
duplicate-suppressing store: a request whose idempotency key is in flight or remembered is not
forwarded a second time; a request with a fresh key (never seen, or forgotten again by a TTL sweep /
by the max_entries eviction of the oldest entry) is forwarded exactly once; key-less requests are
always forwarded; the target receives exactly the forwarded events, each once, at the forwarding
instant; the statistics add up.

What the docstrings promise about forgetting (and what is therefore judged): "a periodic cleanup
daemon expires entries older than ttl seconds" and "cleanup_interval: seconds between TTL cleanup
sweeps" — entries are forgotten by the sweeps (not at lookup), so a key older than ttl that has not
been swept yet still suppresses; a sweep must forget exactly the entries whose age has reached ttl;
"oldest entries evicted on overflow" — a completion that finds max_entries remembered keys forgets
the oldest one; sweeps of one store are at least cleanup_interval apart.

The real IdempotencyStore runs inside a real Simulation.  A harness client turns scripted `go`
events into request events (metadata idempotency_key / rid); a harness target logs every receipt,
takes the scripted service time (`yield dt`, or returns at once for 0) and logs its completion; a
harness subclass of the store wraps handle_event only to log which branch ran when, what it returned
(forwarded event + stamp, scheduled cleanup event) and the public counters afterwards.  The
*schedule* (time + action of every delivery the engine made) is taken from the real run and replayed
through the Lean transition system `HappyModel.C19.Idem`; the Lean Spec `judgeIdem` judges the
implementation's own transcript.

Transcript lines (`<t>` = engine clock in ns when the segment ran; counters after the segment):
    <t> req <rid> <key|-> => fwd <stamp> <cleanup-time|-> | T H M E S C F
    <t> req <rid> <key>   => sup | T H M E S C F
    <t> recv <rid>        => got <key|-> <stamp>          (target received a forwarded event)
    <t> done <rid>        => fin <key|->                  (target finished processing it)
    <t> resp <key|->      => ok | T H M E S C F           (the store's completion event)
    <t> sweep             => swept <next-cleanup-time|-> | T H M E S C F
    open <rids forwarded, never received> ; <keys of finished requests whose completion event never came> ; <cleanup times never fired>
  T H M E S = stats.total_requests cache_hits cache_misses entries_expired entries_stored, C = cache_size,
  F = in_flight_count.

DEFECT (fixes/C19-idem-cleanup-chains.*): every key-less request that arrives while the cache is empty
and at most one keyed request is in flight starts one more self-rescheduling cleanup chain; the chains
never merge, so sweeps come more often than cleanup_interval and the number of daemon events grows with
the key-less traffic.  Until the patch is applied to /repo the generator is restricted (see
RESTRICT_UNTIL_FIXED) so that this interleaving is not generated.
"""
from __future__ import annotations

import json
import os

FAMILY = "idem"
SLOTS = 2
Q = 250_000_000      # 0.25 s grid: every instant / duration is an exact float
NK = 5
BIG = 4_000_000      # ttl of 10^6 s: nothing expires during a run

# The unmodified /repo starts an extra cleanup chain for key-less requests (see module docstring).  While
# this flag is True, key-less requests are generated only where the defect cannot show: in cases whose ttl
# outlasts the run, strictly after the first keyed request has completed (the cache is then never empty
# again).  Set HV_IDEM_UNRESTRICTED=1 (or flip the flag once fixes/C19-idem-cleanup-chains.diff is applied)
# to generate key-less requests everywhere.
RESTRICT_UNTIL_FIXED = True


def restricted():
    return RESTRICT_UNTIL_FIXED and not os.environ.get("HV_IDEM_UNRESTRICTED")


_NS = "HappyModel.C19.Idem."
THEOREMS = [_NS + n for n in (
    "idem_run_accepted", "idem_no_duplicate_forward", "idem_fresh_key_forwarded", "idem_counters_add_up",
    "idem_cache_bounded", "idem_single_cleanup_chain", "idem_once_per_ttl_window", "legacy_idem_chains_witness")]
RULE = ("family idem (2/20): IdempotencyStore inside a real Simulation, 3–40 timed requests over 1–5 keys with repeats and "
        "key-less requests, scripted target service times 0–2 s (duplicates while in flight, at the completion instant, after it, "
        "at / after TTL expiry and at sweep instants), ttl 0.5–4 s or longer than the run, max_entries 1/2/3/large, "
        "cleanup_interval 0.5–3 s, all on a 0.25 s grid; non-trivial when at least one request was forwarded and one suppressed. "
        "While RESTRICT_UNTIL_FIXED is set key-less requests are generated only where the cache can no longer be empty")
TRUSTED = [
    "hv/props/c19_idem.py harness entities (client, target with scripted service time) and the tracing subclass of "
    "IdempotencyStore whose handle_event only logs which branch ran, the events it returned (forwarded event + stamp, cleanup "
    "event + time) and the public counters (stats, cache_size, in_flight_count); no private attribute is read",
]
ASSUMPTIONS = [
    "idem: forgetting is what the docstrings promise — entries expire at the periodic sweeps (not at lookup), the oldest entry is "
    "evicted when a completion finds max_entries entries; a key older than ttl that no sweep has visited yet still suppresses",
    "idem: the target completes every forwarded event (an in-flight key has no expiry: with a crashed target the key is suppressed "
    "for ever — fixes/C19-idem-inflight-never-expires.known.md, not modelled)",
    "idem: completion hooks of the client's own request events are not judged (the forwarder copies them like every wrapper in the repo)",
    "idem: times on a 0.25 s grid so that the code's float seconds are exact; constructor argument validation is not exercised",
]
HYPOTHESES = [
    "idem: cfg.legacy = false (the tree after fixes/C19-idem-cleanup-chains.diff), 1 ≤ max_entries (the constructor rejects others; "
    "idem_once_per_ttl_window: 1 ≤ ttl)",
    "idem: Sorted — schedule times never decrease (engine clock, C01); Deliverable — the engine delivers only events that exist "
    "(a forwarded event at its stamp, a completion event for a finished in-flight request, a scheduled sweep)",
]
PARTIAL = {}


def eff_ns(seconds: float) -> int:
    return int(seconds * 1_000_000_000)


def kname(k):
    return "-" if k is None else str(k)


# ---------------------------------------------------------------------------- implementation
def run_impl(case):
    from happysimulator.components.microservice.idempotency_store import IdempotencyStore
    from happysimulator.core.entity import Entity
    from happysimulator.core.event import Event
    from happysimulator.core.simulation import Simulation
    from happysimulator.core.temporal import Instant

    reqs = case["reqs"]
    lines = []
    sent, got, fin, resp_seen, cl_emitted, cl_fired = {}, [], [], [], [], []
    count = [0]

    def tick():
        count[0] += 1
        if count[0] > 5000:
            raise RuntimeError("watchdog: too many deliveries")

    class Target(Entity):
        def handle_event(self, ev):
            tick()
            md = ev.context.get("metadata", {})
            rid = md.get("rid")
            key = md.get("idempotency_key")
            lines.append(f"{self.now.nanoseconds} recv {rid} => got {kname(key)} {ev.time.nanoseconds}")
            got.append(rid)
            svc = reqs[rid][2]
            if svc == 0:
                lines.append(f"{self.now.nanoseconds} done {rid} => fin {kname(key)}")
                fin.append(key)
                return None
            return self._work(rid, key, svc)

        def _work(self, rid, key, svc):
            yield svc / 1e9
            lines.append(f"{self.now.nanoseconds} done {rid} => fin {kname(key)}")
            fin.append(key)
            return None

    target = Target("svc")

    def extract(e):
        k = e.get_context("idempotency_key")
        return None if k is None else f"k{k}"

    class TS(IdempotencyStore):
        """the real store; handle_event is wrapped only to log which branch ran when"""

        def counters(self):
            st = self.stats
            return (f"{st.total_requests} {st.cache_hits} {st.cache_misses} {st.entries_expired} "
                    f"{st.entries_stored} {self.cache_size} {self.in_flight_count}")

        def handle_event(self, event):
            tick()
            res = super().handle_event(event)
            now = self.now.nanoseconds
            evs = res if isinstance(res, list) else ([res] if res is not None else [])
            cl = [e for e in evs if e.event_type.startswith("_is_cleanup::")]
            for e in cl:
                cl_emitted.append(e.time.nanoseconds)
            cls = " ".join(str(e.time.nanoseconds) for e in cl) or "-"
            et = event.event_type
            if et.startswith("_is_cleanup::"):
                cl_fired.append(now)
                lines.append(f"{now} sweep => swept {cls} | {self.counters()}")
            elif et == "_is_response":
                key = event.context.get("metadata", {}).get("key")
                k = None if key is None else int(key[1:])
                resp_seen.append(k)
                lines.append(f"{now} resp {kname(k)} => ok | {self.counters()}")
            else:
                md = event.context.get("metadata", {})
                rid, key = md.get("rid"), md.get("idempotency_key")
                fw = [e for e in evs if e.target is target]
                if fw:
                    for e in fw:
                        sent[rid] = sent.get(rid, 0) + 1
                    stamp = " ".join(str(e.time.nanoseconds) for e in fw)
                    lines.append(f"{now} req {rid} {kname(key)} => fwd {stamp} {cls} | {self.counters()}")
                else:
                    lines.append(f"{now} req {rid} {kname(key)} => sup | {self.counters()}")
            return res

    store = TS("idem", target=target, key_extractor=extract, ttl=case["ttl_ns"] / 1e9,
               max_entries=case["max"], cleanup_interval=case["interval_ns"] / 1e9)

    class Client(Entity):
        def handle_event(self, ev):
            rid = ev.context["metadata"]["rid"]
            key = reqs[rid][1]
            md = {"rid": rid}
            if key is not None:
                md["idempotency_key"] = key
            return [Event(time=self.now, event_type="request", target=store, context={"metadata": md})]

    client = Client("client")
    sim = Simulation(end_time=Instant(case["horizon_ns"]), entities=[store, target, client])
    for rid, r in enumerate(reqs):
        sim.schedule(Event(time=Instant(r[0]), event_type="go", target=client, context={"metadata": {"rid": rid}}))
    sim.run()

    open_fwd = []
    for rid in sorted(sent):
        open_fwd += [rid] * max(0, sent[rid] - got.count(rid))
    pend = list(fin)
    for k in resp_seen:
        if k in pend:
            pend.remove(k)
    pend_cl = list(cl_emitted)
    for t in cl_fired:
        if t in pend_cl:
            pend_cl.remove(t)
    pend_cl = [t for t in pend_cl if t <= case["horizon_ns"]]
    lines.append(" ".join(f"open {' '.join(map(str, open_fwd))} ; {' '.join(kname(k) for k in pend)} ; "
                          f"{' '.join(map(str, sorted(pend_cl)))}".split()))
    return lines


# ---------------------------------------------------------------------------- generation
def generate(rng, tier):
    ttl = rng.choice([2, 2, 4, 4, 8, 16, BIG]) * Q
    interval = rng.choice([2, 2, 4, 4, 8, 12]) * Q
    mx = rng.choice([1, 1, 2, 2, 3, 10000])
    nk = rng.choice([1, 2, 3, NK])
    n = rng.choice([3, 6, 10, 16, 24] if tier == "quick" else [4, 10, 16, 24, 40])
    pnone = rng.choice([0.0, 0.1, 0.3])
    reqs, t = [], 0
    first_done = None
    for _ in range(n):
        r = rng.random()
        if r < 0.45:
            t += Q * rng.choice([1, 1, 2, 3])
        elif r < 0.6:
            small = ttl if ttl < BIG * Q else 4 * Q
            t += rng.choice([small, interval, small + interval, 2 * interval])   # land on expiry / sweep instants
        svc = rng.choice([0, 1, 1, 2, 4, 8]) * Q
        key = rng.randrange(nk)
        if rng.random() < pnone:
            if not restricted() or (ttl >= BIG * Q and first_done is not None and t > first_done):
                key = None
        if key is not None and first_done is None:
            first_done = t + svc
        reqs.append([t, key, svc])
    return {"family": FAMILY, "ttl_ns": ttl, "interval_ns": interval, "max": mx, "reqs": reqs,
            "horizon_ns": _horizon(ttl, interval, reqs)}


def _horizon(ttl, interval, reqs):
    """past the last completion, the expiry of the last entry and three more sweeps"""
    return (max(r[0] + r[2] for r in reqs) + (ttl if ttl < BIG * Q else 0) + 3 * interval + Q) if reqs else Q


def _sched(impl_out):
    return [l.split(" => ")[0] for l in impl_out if " => " in l]


def _hdr(case, variant="repaired"):
    return f"{case['ttl_ns']} {case['max']} {eff_ns(case['interval_ns'] / 1e9)} {case['horizon_ns']} {variant}"


def model_block(case, variant, impl_out):
    return ("idem " + _hdr(case, variant), _sched(impl_out))


def judge_block(case, impl_out):
    if impl_out and impl_out[0].startswith("IMPL-"):
        return None
    return ("judge-idem " + _hdr(case), list(impl_out))


def nontrivial_key(case, impl_out):
    if any(" => sup" in l for l in impl_out) and any(" => fwd" in l for l in impl_out):
        return json.dumps(case, sort_keys=True)
    return None


def shrink(case):
    xs = case["reqs"]
    n = len(xs)
    step = max(1, n // 2)
    while step >= 1:
        for i in range(0, n, step):
            cand = dict(case, reqs=xs[:i] + xs[i + step:])
            if len(cand["reqs"]) < n:
                yield cand
        step //= 2
    for i, r in enumerate(xs):
        if r[2] > 0:
            yield dict(case, reqs=xs[:i] + [[r[0], r[1], 0]] + xs[i + 1:])
    if case["max"] > 3:
        yield dict(case, max=3)


def mutate(case, rng):
    xs = [list(x) for x in case["reqs"]]
    if not xs:
        return case
    ttl, interval = case["ttl_ns"], case["interval_ns"]
    small = ttl if ttl < BIG * Q else 4 * Q
    for _ in range(rng.randint(1, 3)):
        i = rng.randrange(len(xs))
        r = rng.random()
        if r < 0.25 and len(xs) > 1:
            del xs[i]
        elif r < 0.55:
            dup = list(xs[i])
            dup[0] += rng.choice([0, Q, dup[2], small, interval])
            xs.append(dup)
        elif r < 0.8:
            xs[i][0] += rng.choice([Q, interval, small])
        else:
            xs[i][2] = rng.choice([0, 1, 2, 4]) * Q
    if restricted():
        for x in xs:
            if x[1] is None:
                x[1] = 0
    xs.sort(key=lambda o: o[0])
    return dict(case, reqs=xs, horizon_ns=_horizon(ttl, interval, xs))
