"""C09 extension — Bulkhead, ThreadPool (over QueuedResource / QueueDriver) and PreemptibleResource.

Lean side: `HappyModel/C09/{Bulkhead,ThreadPool,Preempt,ExtraDriver}.lean`, theorems in
`HappyProofs/C09/{BulkheadInv,ThreadPoolInv,PreemptInv,ExtraProps}.lean`.

Families
  bulkhead-engine   2–12 requests sent to a real `Bulkhead` (max_concurrent 1–3, max_wait_queue 0–3,
                    max_wait_time None or 1–4 ticks of 1/8 s) inside a real `Simulation`; the target is a
                    harness entity that serves each forwarded request for 0–3 ticks (or returns at once).
                    The harness subclasses `Bulkhead` only to log the public counters after every
                    delivery.  The *schedule* (which request / response / timeout / service start / service
                    end was delivered at which clock value) is taken from the implementation run and
                    replayed through `Bulkhead.step`; the model recomputes every result, the request that a
                    response admits, and every public counter, and predicts *when* each start, response and
                    timeout delivery has to happen.
  tpool-engine      2–12 tasks submitted to a real `ThreadPool` (1–3 workers, queue capacity None/0–3,
                    processing time 0–3 ticks) in a real `Simulation`.  Every delivery to the pool, its
                    queue, its driver and its worker adapter is logged by harness wrappers around the public
                    `handle_event`s and replayed through `ThreadPool.step`.
  preempt-direct    ≤40 acquire / release calls on a real `PreemptibleResource` (capacity 1–4, amounts
                    1–cap and malformed ones, priorities 0–3 with many ties, preempt flag, double release,
                    release of a preempted grant, release of a grant not yet given).  Acquires may carry a
                    *callback program* (`progs`): actions the grant's `on_preempt` callback performs on the same
                    resource while `_try_preempt` is running — release (own grant, another holder, the co-victim
                    of the same round, a waiter, dead and unknown ids), nested acquire (amount, priority, preempt
                    flag, its own program), counter query.  Every action is logged from inside the callback
                    (`cb <victim> …` lines) and judged: held + available = capacity after every observation,
                    every amount returned once, victims and wake-ups in order.

Generator restrictions (the property is false of the code outside them; see fixes/C09-extra-*.md):
  * bulkhead-engine: the protected target is a plain entity whose `handle_event` *is* the service
    (a generator, or an immediate return).  A target that buffers the forwarded event and serves it later
    (any `QueuedResource`: `Server`, `ThreadPool`, …) is not generated: the Bulkhead's completion hook fires
    when the forwarded event has been *enqueued*, so the permit is returned while the request is still
    outstanding — signature `bulkhead/release/permit-returned-before-completion`
    (fixes/C09-extra-bulkhead-queued-target.md; `run_impl` understands `"target": "tpool"` for replays).
  * preempt-direct: an acquire gets `preempt=1` only if — in the generator's own planning picture of the
    resource (`_PlanPreempt`) — the eviction it causes does not leave the head waiter grantable, i.e. not when
    (a) the evicted amount exceeds what the requester takes and the rest fits the head waiter, or (b) the
    requester still does not fit and is queued while the freed amount fits the head waiter.  `acquire` does not
    call `_wake_waiters()` after a preemption — signature `preempt/head/grantable-but-blocked`
    (fixes/C09-extra-preempt-wake-after-preempt.{md,diff}).  `PREEMPT_RESTRICT = False` lifts the restriction
    (to be done once the patch is applied); the model is run with `wakeAfterPreempt = true`
    (`PREEMPT_MODEL_FIX = 1`), which coincides with the unpatched code on the restricted inputs.

  * preempt-direct, callback programs: see `PREEMPT_CB_LIFT` below (fixes/C09-preempt-callback-reentrancy.{md,diff},
    witnesses corpus/C09/pending/preempt-callback-*.json).  The model (`HappyModel/C09/PreemptCb.lean`, a small-step machine
    with an explicit call stack; theorems in `HappyProofs/C09/PreemptCb{Inv,Step,Props}.lean`) has the repaired order.

What the judges do not cover: `ThreadPool` with a LIFO / priority `queue_policy` (FIFO only), user completion
hooks on requests sent through a Bulkhead, PreemptibleResource inside an engine (the SimFuture resumption
clause is judged for `Resource`, which uses the same mechanism).
"""
from __future__ import annotations

import json
import os
import random

TICK = 125_000_000
END_NS = 10**15
WATCHDOG = 4000   # deliveries logged per case before the harness stops the run

FAMILIES = ("bulkhead-engine", "tpool-engine", "preempt-direct")

THEOREMS = [
    "HappyModel.C09.bulkhead_active_le_limit",
    "HappyModel.C09.bulkhead_conservation",
    "HappyModel.C09.bulkhead_release_never_exceeds",
    "HappyModel.C09.bulkhead_head_not_grantable",
    "HappyModel.C09.bulkhead_fifo_ledger",
    "HappyModel.C09.bulkhead_admitted_at_most_once",
    "HappyModel.C09.preempt_held_le_capacity",
    "HappyModel.C09.preempt_conservation",
    "HappyModel.C09.preempt_release_never_exceeds",
    "HappyModel.C09.preempt_head_not_grantable",
    "HappyModel.C09.preempt_current_leaves_head_grantable",
    "HappyModel.C09.preempt_wake_order",
    "HappyModel.C09.preempt_grant_at_most_once",
    "HappyModel.C09.preempt_victim_lower_priority",
    "HappyModel.C09.tpool_active_le_workers",
    "HappyModel.C09.tpool_no_task_lost",
    "HappyModel.C09.tpool_fifo_ledger",
    "HappyModel.C09.tpool_head_not_grantable",
    "HappyModel.C09.bulkhead_trace_satisfies_spec",
    "HappyModel.C09.preempt_trace_satisfies_spec",
    "HappyModel.C09.tpool_trace_satisfies_spec",
    "HappyModel.C09.tpool_trace_satisfies_spec_drained",
    "HappyModel.C09.preempt_cb_conservation",
    "HappyModel.C09.preempt_cb_held_le_capacity",
    "HappyModel.C09.preempt_release_idempotent",
    "HappyModel.C09.preempt_cb_trace_satisfies_spec",
]

import happysimulator.components.industrial.preemptible_resource  # noqa: E402,F401
import happysimulator.components.resilience.bulkhead  # noqa: E402,F401
import happysimulator.components.server.thread_pool  # noqa: E402,F401


def ids(xs):
    xs = list(xs)
    return ",".join(str(x) for x in xs) if xs else "-"


# ====================================================================== generation
def generate(rng: random.Random, i: int, tier: str) -> dict:
    k = i % 3
    if k == 0:
        return gen_bulkhead(rng, tier)
    if k == 1:
        return gen_preempt(rng, tier)
    return gen_tpool(rng, tier)


def gen_bulkhead(rng, tier):
    mx = rng.choice([1, 1, 2, 2, 3])
    mq = rng.choice([0, 1, 1, 2, 2, 3])
    wt = rng.choice([0, 0, 1, 2, 2, 3, 4])          # max_wait_time in ticks, 0 = None
    n = rng.choice([2, 3, 4, 6, 8] if tier == "quick" else [2, 3, 4, 6, 8, 10, 12])
    spread = rng.choice([0, 0, 1, 2, 3, 4, 6])
    rs = []
    for _ in range(n):
        r = {"at": rng.randint(0, spread), "hold": rng.choice([0, 1, 1, 2, 2, 3])}
        if r["hold"] == 0 and rng.random() < 0.5:
            r["inst"] = True                         # the target returns at once (no generator)
        rs.append(r)
    return {"family": "bulkhead-engine", "max": mx, "maxq": mq, "wait": wt, "reqs": rs}


def gen_tpool(rng, tier):
    nw = rng.choice([1, 1, 2, 2, 3])
    qcap = rng.choice([-1, -1, -1, 0, 1, 2, 3])      # -1 = unbounded
    n = rng.choice([2, 3, 4, 6, 8] if tier == "quick" else [2, 3, 4, 6, 8, 10, 12])
    spread = rng.choice([0, 0, 1, 2, 3, 4, 6])
    ts = [{"at": rng.randint(0, spread), "hold": rng.choice([0, 0, 1, 1, 2, 3])} for _ in range(n)]
    return {"family": "tpool-engine", "workers": nw, "qcap": qcap, "tasks": ts}


PREEMPT_RESTRICT = False   # see the module docstring; False regenerates the defect trigger

# Re-entrant `on_preempt` callbacks (fixes/C09-preempt-callback-reentrancy.{md,diff}).  At the pinned commit a
# callback that releases another *live* grant, or acquires, or merely reads the counters finds the resource in the
# middle of `_try_preempt` (victim flagged released, amount not yet returned; a later `list.remove` raises).  Until
# the patch is applied the generated programs are restricted to what is a no-op there — `release()` of the
# victim's own grant, of grants that are already released / preempted, of unknown ids — and nested lines carry no
# counters (`cbobs = 0`).  HV_C09_PREEMPT_CB_LIFT=1 generates the full language (release of other holders, of the
# other victim of the same round, nested acquires with and without preemption, counter queries inside callbacks).
PREEMPT_CB_LIFT = os.environ.get("HV_C09_PREEMPT_CB_LIFT", "1") == "1"
NO_CB = 999                # program index meaning "no program"


def gen_preempt(rng, tier):
    """ops: ["acq", amount, priority, preempt(0/1), cb] and ["rel", id].  Acquire calls are numbered in the order
    they *return* (call id; without nested acquires: the k-th acquire of the list is call id k).  `cb` indexes
    `progs`: the actions the grant's `on_preempt` callback performs on the same resource —
    ["rel", id] | ["acq", amount, priority, preempt, cb] | ["q"]."""
    cap = rng.choice([1, 2, 2, 3, 3, 4])
    n = rng.choice([3, 6, 10, 16, 25] if tier == "quick" else [3, 6, 10, 16, 25, 40])
    nprio = rng.choice([1, 2, 3, 4])
    with_cb = rng.random() < 0.7
    lift = PREEMPT_CB_LIFT
    progs, ops = [], []
    sim = _PlanPreempt(cap, progs)    # generation bias / restriction only, never an oracle
    dead = []
    for _ in range(n):
        r = rng.random()
        if r < 0.55 or sim.nid == 0:
            q = rng.random()
            if q < 0.88:
                amt = rng.randint(1, cap)
            elif q < 0.92:
                amt = cap
            else:
                amt = rng.choice([0, -1, cap + 1, cap + 3])
            prio = rng.randrange(nprio)
            pre = 1 if rng.random() < 0.6 else 0
            if PREEMPT_RESTRICT and pre and 0 < amt <= cap and sim.leaves_head_grantable(amt, prio):
                pre = 0
            cb = NO_CB
            prog = None
            if with_cb and 0 < amt <= cap and len(progs) < 12 and rng.random() < 0.6:
                cb = len(progs)
                prog = []
                progs.append(prog)            # filled in below, once the call id of this acquire is known
            ops.append(["acq", amt, prio, pre, cb])
            before = set(g[0] for g in sim.active)
            own = sim.acquire(amt, prio, pre, cb)
            if prog is not None:
                prog.extend(_gen_prog(rng, sim, own, before, cap, nprio, cb, dead, lift))
        else:
            live = [g[0] for g in sim.active]
            q = rng.random()
            if live and q < 0.75:
                i = rng.choice(live)
                dead.append(i)
            elif sim.gone and q < 0.85:
                i = rng.choice(sim.gone)                   # release of a preempted grant
            elif dead and q < 0.92:
                i = rng.choice(dead)                       # double release
            elif sim.waiters and q < 0.97:
                i = rng.choice(sim.waiters)[0]             # release of a grant not yet given
            else:
                i = sim.nid + rng.randint(0, 2)            # unknown id
            ops.append(["rel", i])
            sim.release(i)
    case = {"family": "preempt-direct", "cap": cap, "ops": ops}
    if progs:
        case["progs"] = progs
        case["cbobs"] = 1 if lift else 0
    return case


def _gen_prog(rng, sim, own, before, cap, nprio, k, dead, lift):
    """the callback program of the acquire that was just planned as call id `own` (program index `k`)"""
    acts = []
    peers = [g for g in sim.active if g[0] != own]           # holders right now: likely co-victims / the preemptor's peers
    for _ in range(rng.choice([1, 1, 2, 2, 3])):
        q = rng.random()
        if not lift:
            # only what is a no-op on the code as it is: own grant (flagged released when the callback runs),
            # grants that are dead for good, ids nobody has
            if q < 0.6:
                acts.append(["rel", own])
            elif q < 0.8 and (sim.gone or dead):
                acts.append(["rel", rng.choice(sim.gone + dead)])
            else:
                acts.append(["rel", 900 + rng.randint(0, 9)])
            continue
        if q < 0.22:
            acts.append(["rel", own])
        elif q < 0.50 and peers:
            acts.append(["rel", rng.choice(peers)[0]])      # another holder: a co-victim, a bystander, a higher priority one
        elif q < 0.56 and sim.waiters:
            acts.append(["rel", rng.choice(sim.waiters)[0]])  # not yet given now; may be live when the callback runs
        elif q < 0.62 and (sim.gone or dead):
            acts.append(["rel", rng.choice(sim.gone + dead)])
        elif q < 0.66:
            acts.append(["rel", sim.nid + rng.randint(0, 3)])  # a call that has not been made yet
        elif q < 0.88:
            amt = rng.randint(1, cap) if rng.random() < 0.9 else rng.choice([0, cap + 1])
            prio = rng.randrange(nprio) if rng.random() < 0.7 else -1    # -1: above everybody, preempts for sure
            sub = rng.randrange(k) if k > 0 and rng.random() < 0.5 else NO_CB
            acts.append(["acq", amt, prio, 1 if rng.random() < 0.6 else 0, sub])
        else:
            acts.append(["q"])
    if lift and rng.random() < 0.5:
        acts.append(["q"])
    return acts


def norm_preempt(case):
    """ops with an explicit program index; programs may only refer to programs of smaller index (no cycles)"""
    progs = []
    for k, acts in enumerate(case.get("progs") or []):
        row = []
        for a in acts:
            if a[0] == "acq":
                cb = a[4] if len(a) > 4 else NO_CB
                row.append(["acq", a[1], a[2], a[3], cb if 0 <= cb < k else NO_CB])
            elif a[0] == "rel":
                row.append(["rel", a[1]])
            else:
                row.append(["q"])
        progs.append(row)
    ops = []
    for op in case["ops"]:
        if op[0] == "acq":
            cb = op[4] if len(op) > 4 else NO_CB
            ops.append(["acq", op[1], op[2], op[3], cb if 0 <= cb < len(progs) else NO_CB])
        else:
            ops.append(["rel", op[1]])
    return {"cap": case["cap"], "progs": progs, "ops": ops, "cbobs": 1 if case.get("cbobs") else 0}


class _PlanPreempt:
    """A rough picture of the resource (repaired semantics, callbacks included) used by the generator to aim
    releases at live / preempted / released grants, to predict call ids, and to apply the generator restriction (no
    preempting acquire that would leave the head waiter grantable).  It is not used to judge anything."""

    def __init__(self, cap, progs=None):
        self.cap, self.avail = cap, cap
        self.active, self.waiters, self.gone = [], [], []      # (id, amt, prio)
        self.progs = progs if progs is not None else []
        self.cb = {}
        self.nid = 0
        self.depth = 0

    def _victims(self, amt, prio, active, avail):
        active = list(active)
        ev = []
        while avail < amt:
            cands = [g for g in active if g[2] > prio]
            if not cands:
                break
            v = max(cands, key=lambda g: g[2])     # first of the maximal ones = earliest grant
            active.remove(v)
            avail += v[1]
            ev.append(v)
        return ev, active, avail

    def leaves_head_grantable(self, amt, prio):
        if self.avail >= amt:
            return False
        ev, active, avail = self._victims(amt, prio, self.active, self.avail)
        if not ev:
            return False
        waiters = list(self.waiters)
        if avail >= amt:
            avail -= amt
        else:
            waiters = sorted(waiters + [(10**9, amt, prio)], key=lambda w: (w[2], w[0]))
        return bool(waiters) and waiters[0][1] <= avail

    def _wake(self):
        while self.waiters and self.waiters[0][1] <= self.avail:
            w = self.waiters.pop(0)
            self.avail -= w[1]
            self.active.append(w)

    def _run(self, acts):
        for a in list(acts):
            if a[0] == "rel":
                self.release(a[1])
            elif a[0] == "acq":
                self.acquire(a[1], a[2], a[3], a[4] if len(a) > 4 else NO_CB)

    def acquire(self, amt, prio, pre, cb=NO_CB):
        """returns the call id"""
        if amt <= 0 or amt > self.cap:
            self.nid += 1
            return self.nid - 1
        freed = False
        if self.avail < amt and pre and self.depth < 6:
            snap = list(self.active)
            self.depth += 1
            while self.avail < amt:
                cands = [g for g in snap if g in self.active and g[2] > prio]
                if not cands:
                    break
                v = max(cands, key=lambda g: g[2])
                self.active.remove(v)
                self.avail += v[1]
                self.gone.append(v[0])
                freed = True
                k = self.cb.get(v[0], NO_CB)
                if 0 <= k < len(self.progs):
                    self._run(self.progs[k])
            self.depth -= 1
        i = self.nid
        self.nid += 1
        self.cb[i] = cb
        if self.avail >= amt:
            self.avail -= amt
            self.active.append((i, amt, prio))
        else:
            self.waiters = sorted(self.waiters + [(i, amt, prio)], key=lambda w: (w[2], w[0]))
        if freed:
            self._wake()
        return i

    def release(self, i):
        for g in self.active:
            if g[0] == i:
                self.active.remove(g)
                self.avail += g[1]
                self._wake()
                return


# ====================================================================== implementation
def run_impl(case):
    fam = case["family"]
    if fam == "bulkhead-engine":
        return impl_bulkhead(case)
    if fam == "preempt-direct":
        return impl_preempt(case)
    if fam == "tpool-engine":
        return impl_tpool(case)
    raise ValueError(f"unknown family {fam}")


def impl_tpool(case):
    from happysimulator.components.queue import QueueDeliverEvent, QueueNotifyEvent, QueuePollEvent
    from happysimulator.components.queue_driver import QueueDispatchedEvent
    from happysimulator.components.server.thread_pool import ThreadPool
    from happysimulator.core.event import Event
    from happysimulator.core.simulation import Simulation
    from happysimulator.core.temporal import Instant

    out = []
    tasks = case["tasks"]
    running = []

    class Stop(Exception):
        pass

    def cnt():
        st = tp.stats
        return (f"aw={tp.active_workers} iw={tp.idle_workers} q={tp.queued_tasks} acc={tp.stats_accepted} drop={tp.stats_dropped} "
                f"done={st.tasks_completed} rej={st.tasks_rejected} cap={int(tp.has_capacity())}")

    def log(line):
        out.append(line)
        if len(out) > WATCHDOG:
            raise Stop()

    def tid_of(event):
        return event.context.get("metadata", {}).get("tid", 999) if event is not None else None

    def polled(ret):
        evs = ret if isinstance(ret, list) else ([ret] if ret is not None else [])
        return "polled" if any(isinstance(e, QueuePollEvent) for e in evs) else "idle"

    class Obs(ThreadPool):
        def handle_event(self, event):
            t, tid = self.now.nanoseconds, tid_of(event)
            a, d = self.stats_accepted, self.stats_dropped
            ret = super().handle_event(event)
            evs = ret if isinstance(ret, list) else ([ret] if ret is not None else [])
            if self.stats_accepted == a + 1:
                res = "accepted"
            elif self.stats_dropped == d + 1:
                res = "dropped"
            else:
                res = "unknown"
            log(f"submit {t} {tid} res={res} n={sum(isinstance(e, QueueNotifyEvent) for e in evs)} {cnt()}")
            return ret

        def handle_queued_event(self, event):
            inner = super().handle_queued_event(event)
            tid = tid_of(event)
            pt = (tasks[tid]["hold"] if tid < len(tasks) else 0) * TICK
            pool = self

            def proc():
                t = pool.now.nanoseconds
                try:
                    y = next(inner)
                except StopIteration as e:
                    log(f"work {t} {tid} {pt} res=rejected {cnt()}")
                    return e.value
                running.append(tid)
                log(f"work {t} {tid} {pt} res=started {cnt()}")
                while True:
                    sent = yield y
                    try:
                        y = inner.send(sent)
                    except StopIteration as e:
                        if tid in running:
                            running.remove(tid)
                        log(f"finish {pool.now.nanoseconds} {tid} {cnt()}")
                        return e.value

            return proc()

    tp = Obs("tp", num_workers=case["workers"], queue_capacity=(None if case["qcap"] < 0 else case["qcap"]))

    q_orig, d_orig = tp.queue.handle_event, tp.driver.handle_event

    def q_handle(event):
        if not isinstance(event, QueuePollEvent):
            return q_orig(event)                      # the enqueue, called from the pool's own handle_event
        ret = q_orig(event)
        evs = ret if isinstance(ret, list) else ([ret] if ret is not None else [])
        item = next((tid_of(e.payload) for e in evs if isinstance(e, QueueDeliverEvent)), None)
        log(f"poll {tp.now.nanoseconds} res=item item={'-' if item is None else item} {cnt()}")
        return ret

    def d_handle(event):
        t = tp.now.nanoseconds
        ret = d_orig(event)
        if isinstance(event, QueueNotifyEvent):
            log(f"notify {t} res={polled(ret)} {cnt()}")
        elif isinstance(event, QueueDispatchedEvent):
            log(f"disp {t} res={polled(ret)} {cnt()}")
        elif isinstance(event, QueueDeliverEvent):
            if event.payload is None:
                log(f"deliver {t} res={polled(ret)} {cnt()}")
            else:
                log(f"deliver {t} res=item item={tid_of(event.payload)} {cnt()}")
        else:
            log(f"other {t} {cnt()}")
        return ret

    tp.queue.handle_event = q_handle
    tp.driver.handle_event = d_handle
    sim = Simulation(end_time=Instant(END_NS), entities=[tp])
    for k, w in enumerate(tasks):
        sim.schedule(tp.submit(Event(time=Instant(w["at"] * TICK), event_type="task", target=tp,
                                     context={"metadata": {"tid": k, "processing_time": w["hold"] / 8}})))
    try:
        sim.run()
    except Stop:
        out.append("watchdog")
    out.append(f"fin 0 pend=0 run={ids(running)} {cnt()}")
    return out


def impl_preempt(case):
    """Every line is one observation: `acq i amt prio pre <res> …` when an acquire call returned, `rel i <res> …`
    after a release call; inside an `on_preempt` callback the lines carry the prefix `cb <victim>`: first
    `cb v ev <first> <amt> <prio> fired …` (the callback of grant v fired inside an acquire call for (amt, prio);
    first = 1 for the first victim of that call), then one line per action of v's callback program.  The tail is
    `pre=<victims of this call> woke=<futures resolved since the previous line>` plus the public counters
    (`pset` = grants whose `preempted` flag is set, `av`, `s` = stats); nested lines carry the counters only when
    the case says `cbobs = 1`."""
    from happysimulator.components.industrial.preemptible_resource import PreemptibleResource

    c = norm_preempt(case)
    progs, cbobs = c["progs"], c["cbobs"]
    r = PreemptibleResource("r", c["cap"])
    futs, grants, pending, out = {}, {}, [], []
    nid = [0]
    ctx = []          # victims whose callbacks are running, innermost last
    calls = []        # acquire calls in progress, innermost last

    class Stop(Exception):
        pass

    def emit(head, ev):
        woke = [i for i in pending if futs[i].is_resolved]
        for i in woke:
            pending.remove(i)
            grants[i] = futs[i].value
        line = (f"cb {ctx[-1]} " if ctx else "") + f"{head} pre={ids(ev)} woke={ids(sorted(woke))}"
        if not ctx or cbobs:
            pset = sorted(i for i, g in grants.items() if g.preempted)
            s = r.stats
            line += f" pset={ids(pset)} av={r.available} s={s.acquisitions},{s.releases},{s.preemptions},{s.contentions}"
        out.append(line)
        if len(out) > WATCHDOG:
            raise Stop()

    def do_rel(i):
        g = grants.get(i)
        if g is None:
            emit(f"rel {i} noop", [])             # no grant object exists: nothing to call
            return
        was = g.released
        g.release()
        emit(f"rel {i} " + ("noop" if was else "released"), [])

    def do_acq(amt, prio, pre, cb):
        call = {"amt": amt, "prio": prio, "ev": []}
        cell = [None]

        def on_preempt():
            v = cell[0]
            cur = calls[-1] if calls else {"amt": 0, "prio": 0, "ev": [0]}
            first = 0 if cur["ev"] else 1
            cur["ev"].append(v)
            ctx.append(v)
            try:
                emit(f"ev {first} {cur['amt']} {cur['prio']} fired", [])
                for a in (progs[cb] if 0 <= cb < len(progs) else []):
                    do_act(a)
            finally:
                ctx.pop()

        calls.append(call)
        try:
            f = r.acquire(amt, priority=prio, preempt=bool(pre), on_preempt=on_preempt)
        except ValueError:
            calls.pop()
            i = nid[0]
            nid[0] += 1
            emit(f"acq {i} {amt} {prio} {pre} err:ValueError", call["ev"])
            return
        calls.pop()
        i = nid[0]
        nid[0] += 1
        cell[0] = i
        futs[i] = f
        if f.is_resolved:
            grants[i] = f.value
            emit(f"acq {i} {amt} {prio} {pre} granted", call["ev"])
        else:
            emit(f"acq {i} {amt} {prio} {pre} queued", call["ev"])
            pending.append(i)

    def do_act(a):
        if a[0] == "acq":
            do_acq(a[1], a[2], a[3], a[4])
        elif a[0] == "rel":
            do_rel(a[1])
        else:
            emit("q obs", [])

    try:
        for op in c["ops"]:
            do_act(op)
    except Stop:
        out.append("watchdog")
    return out


def impl_bulkhead(case):
    from happysimulator.components.resilience.bulkhead import Bulkhead
    from happysimulator.core.entity import Entity
    from happysimulator.core.event import Event
    from happysimulator.core.simulation import Simulation
    from happysimulator.core.temporal import Instant

    out = []
    by_bid = {}                # the bulkhead's request id (seen in returned events) -> harness request id
    fwd, run, unresp, waiting, tmos = [], [], [], [], []
    reqs = case["reqs"]

    class Stop(Exception):
        pass

    def cnt():
        s = bh.stats
        return (f"a={bh.active_count} q={bh.queue_depth} p={bh.available_permits} T={s.total_requests} A={s.accepted_requests} "
                f"R={s.rejected_requests} X={s.timed_out_requests} Q={s.queued_requests} pc={s.peak_concurrent} pq={s.peak_queue_depth}")

    def log(line):
        out.append(line)
        if len(out) > WATCHDOG:
            raise Stop()

    class Target(Entity):
        def handle_event(self, event):
            md = event.context.get("metadata", {})
            rid = md.get("rid", 999)
            by_bid[md.get("_bh_request_id")] = rid
            if rid in fwd:
                fwd.remove(rid)
            run.append(rid)
            log(f"start {self.now.nanoseconds} {rid} {cnt()}")
            r = reqs[rid] if rid < len(reqs) else {"hold": 0}
            if r.get("inst"):
                run.remove(rid)
                unresp.append(rid)
                log(f"done {self.now.nanoseconds} {rid} {cnt()}")
                return None
            return self.serve(rid, r["hold"])

        def serve(self, rid, hold):
            yield hold / 8
            if rid in run:
                run.remove(rid)
            unresp.append(rid)
            log(f"done {self.now.nanoseconds} {rid} {cnt()}")

    tgt = Target("t")
    if case.get("target") == "tpool":
        # never generated (see the module docstring): the protected target is a ThreadPool, i.e. a QueuedResource
        from happysimulator.components.server.thread_pool import ThreadPool

        class PoolTarget(ThreadPool):
            def handle_queued_event(self, event):
                inner = super().handle_queued_event(event)
                md = event.context.get("metadata", {})
                rid = md.get("rid", 999)
                pool = self

                def proc():
                    by_bid[md.get("_bh_request_id")] = rid
                    if rid in fwd:
                        fwd.remove(rid)
                    run.append(rid)
                    log(f"start {pool.now.nanoseconds} {rid} {cnt()}")
                    y = next(inner)
                    while True:
                        sent = yield y
                        try:
                            y = inner.send(sent)
                        except StopIteration as e:
                            if rid in run:
                                run.remove(rid)
                            unresp.append(rid)
                            log(f"done {pool.now.nanoseconds} {rid} {cnt()}")
                            return e.value

                return proc()

        tgt = PoolTarget("t", num_workers=max(1, len(reqs)),
                         processing_time_extractor=lambda e: reqs[e.context["metadata"]["rid"]]["hold"] / 8)

    def forwarded(ret):
        """harness ids of the requests the returned events forward to the target"""
        evs = ret if isinstance(ret, list) else ([ret] if ret is not None else [])
        out_ids = []
        for e in evs:
            if e.target is tgt:
                md = e.context.get("metadata", {})
                by_bid[md.get("_bh_request_id")] = md.get("rid", 999)
                out_ids.append(md.get("rid", 999))
        return out_ids

    class Obs(Bulkhead):
        def handle_event(self, event):
            t = self.now.nanoseconds
            et = event.event_type
            md = event.context.get("metadata", {})
            qb, xb = self.queue_depth, self.stats.timed_out_requests
            ret = super().handle_event(event)
            f = forwarded(ret)
            fwd.extend(f)
            if et == "_bh_response":
                rid = by_bid.get(md.get("request_id"), 999)
                if rid in unresp:
                    unresp.remove(rid)
                del waiting[:max(0, self.stats.timed_out_requests - xb)]   # expired entries the response skipped
                for x in f:
                    if x in waiting:
                        waiting.remove(x)
                log(f"resp {t} {rid} fwd={ids(f)} {cnt()}")
            elif et == "_bh_timeout":
                rid = by_bid.get(md.get("request_id"), 999)
                res = "timedout" if self.queue_depth == qb - 1 else "noop"
                if rid in tmos:
                    tmos.remove(rid)
                if res == "timedout" and rid in waiting:
                    waiting.remove(rid)
                log(f"tmo {t} {rid} res={res} fwd={ids(f)} {cnt()}")
            else:
                rid = md.get("rid", 999)
                if f:
                    res = "admitted"
                elif ret is None:
                    res = "rejected"
                else:
                    res = "queued"
                    waiting.append(rid)
                    evs = ret if isinstance(ret, list) else [ret]
                    for e in evs:
                        if e.target is self:
                            by_bid[e.context.get("metadata", {}).get("request_id")] = rid
                            tmos.append(rid)
                log(f"req {t} {rid} res={res} fwd={ids(f)} {cnt()}")
            return ret

    bh = Obs("bh", tgt, max_concurrent=case["max"], max_wait_queue=case["maxq"],
             max_wait_time=(case["wait"] / 8 if case["wait"] else None))
    sim = Simulation(end_time=Instant(END_NS), entities=[bh, tgt])
    for k, r in enumerate(reqs):
        sim.schedule(Event(time=Instant(r["at"] * TICK), event_type="req", target=bh, context={"metadata": {"rid": k}}))
    try:
        sim.run()
    except Stop:
        out.append("watchdog")
    out.append(f"fin 0 fwd={ids(fwd)} run={ids(run)} unresp={ids(unresp)} waiting={ids(waiting)} tmos={ids(tmos)} {cnt()}")
    return out


# ====================================================================== model / judge blocks
def _schedule_line(line):
    keep = []
    for tok in line.split():
        if "=" in tok or tok.startswith("!"):
            break
        keep.append(tok)
    return " ".join(keep)


def _act_tok(a):
    if a[0] == "rel":
        return f"r{a[1]}"
    if a[0] == "acq":
        return f"a{a[1]}:{a[2]}:{a[3]}:{a[4]}"
    return "q"


def model_block(case, variant, impl_out=None):
    fam = case["family"]
    if impl_out is None:
        impl_out = run_impl(case)
    bad = bool(impl_out) and impl_out[0].startswith("IMPL-")
    if fam == "bulkhead-engine":
        hdr = f"bulkhead {case['max']} {case['maxq']} {case['wait'] * TICK}"
        return (hdr, [] if bad else [_schedule_line(l) for l in impl_out])
    if fam == "tpool-engine":
        return (f"tpool {case['workers']} {case['qcap']}", [] if bad else [_schedule_line(l) for l in impl_out])
    if fam == "preempt-direct":
        c = norm_preempt(case)
        body = []
        for acts in c["progs"]:
            body.append("prog " + " ".join(_act_tok(a) for a in acts))
        for op in c["ops"]:
            if op[0] == "acq":
                body.append(f"acq {op[1]} {op[2]} {op[3]} {op[4]}")
            else:
                body.append(f"rel {op[1]}")
        return (f"preemptcb {c['cap']} {c['cbobs']}", body)
    raise ValueError(fam)


# which behaviour the preempt model is run with: 1 = `_wake_waiters` is called after a preemption (the repaired
# code, the one the theorems are about), 0 = the code as it is.  Under the generator restriction both coincide.
PREEMPT_MODEL_FIX = 1


def judge_block(case, impl_out):
    if impl_out and impl_out[0].startswith("IMPL-"):
        return None
    fam = case["family"]
    if fam == "bulkhead-engine":
        return (f"judge-bulkhead {case['max']} {case['maxq']} {case['wait'] * TICK}", list(impl_out))
    if fam == "preempt-direct":
        return (f"judge-preemptcb {case['cap']}", list(impl_out))
    if fam == "tpool-engine":
        return (f"judge-tpool {case['workers']} {case['qcap']}", list(impl_out))
    return None


def nontrivial_key(case, impl_out):
    fam = case["family"]
    if fam == "bulkhead-engine":
        # at least one request waited and was admitted later, or timed out
        if any(l.startswith("resp ") and "fwd=-" not in l for l in impl_out) or any("res=timedout" in l for l in impl_out):
            return json.dumps(case, sort_keys=True)
    if fam == "tpool-engine":
        # some task had to wait in the queue for a worker: it was polled out by a completion, not by its own notify
        if any(l.startswith("finish ") for l in impl_out) and sum(l.startswith("poll ") and "item=-" not in l for l in impl_out) >= 2 \
                and any(" q=" in l and " q=0" not in l and l.startswith(("finish", "work")) for l in impl_out):
            return json.dumps(case, sort_keys=True)
    if fam == "preempt-direct":
        # somebody was queued and later granted, or somebody was preempted
        if any(" woke=" in l and "woke=-" not in l for l in impl_out) or any(" pre=" in l and "pre=-" not in l for l in impl_out):
            return json.dumps(case, sort_keys=True)
    return None


def _list_key(case):
    return {"bulkhead-engine": "reqs", "tpool-engine": "tasks", "preempt-direct": "ops"}[case["family"]]


def shrink(case):
    key = _list_key(case)
    xs = case[key]
    n = len(xs)
    step = max(1, n // 2)
    while step >= 1:
        for i in range(0, n, step):
            cand = dict(case)
            cand[key] = xs[:i] + xs[i + step:]
            if len(cand[key]) < n:
                yield cand
        step //= 2
    # callback programs: drop a whole program's actions, then single actions
    for pi, acts in enumerate(case.get("progs") or []):
        if acts:
            cand = dict(case)
            cand["progs"] = [list(a) for a in case["progs"]]
            cand["progs"][pi] = []
            yield cand
        if len(acts) > 1:
            for ai in range(len(acts)):
                cand = dict(case)
                cand["progs"] = [list(a) for a in case["progs"]]
                cand["progs"][pi] = acts[:ai] + acts[ai + 1:]
                yield cand
    # smaller parameters
    for k in ("maxq", "wait", "max", "cap", "workers", "qcap"):
        if isinstance(case.get(k), int) and case[k] > (1 if k in ("max", "cap", "workers") else 0):
            cand = dict(case)
            cand[k] = case[k] - 1
            yield cand
    for i, x in enumerate(xs):
        if isinstance(x, dict):
            for f in ("at", "hold"):
                if x.get(f, 0) > 0:
                    cand = dict(case)
                    cand[key] = [dict(y) for y in xs]
                    cand[key][i][f] -= 1
                    yield cand


def mutate(case, rng):
    key = _list_key(case)
    xs = [json.loads(json.dumps(x)) for x in case[key]]
    if not xs:
        return case
    for _ in range(rng.randint(1, 3)):
        i = rng.randrange(len(xs))
        k = rng.random()
        if k < 0.25 and len(xs) > 1:
            del xs[i]
        elif k < 0.5 and len(xs) < 14:
            xs.insert(i, json.loads(json.dumps(rng.choice(xs))))
        elif k < 0.75:
            j = rng.randrange(len(xs))
            xs[i], xs[j] = xs[j], xs[i]
        elif isinstance(xs[i], dict):
            f = rng.choice(["at", "hold"])
            xs[i][f] = max(0, min(6, xs[i].get(f, 0) + rng.choice([-1, 1])))
            if xs[i].get("hold"):
                xs[i].pop("inst", None)
    c = dict(case)
    c[key] = xs
    return _renumber(c)


def _renumber(case):
    return case


if __name__ == "__main__":
    import sys
    rng = random.Random(int(sys.argv[1]) if len(sys.argv) > 1 else 0)
    c = gen_bulkhead(rng, "quick")
    print(json.dumps(c))
    print("\n".join(run_impl(c)))
