"""C05 — partitioned parallel execution is equivalent to sequential execution.

Correspondence: a generated program (1–6 harness entities whose handlers run *scripts*: on
(entity, event kind) emit events with given delays / targets / kinds; kinds form a DAG so every
program is finite) is assigned to 1–4 partitions with `PartitionLink`s.  The real
`ParallelSimulation` runs it (`max_workers` 1 and N, repeated), a plain `Simulation` runs an
identical second copy, and the Lean model (`HappyModel/C05`: per-partition engine, router,
`_run_window`, barrier exchange with the min-latency check, coordinator loop, validation) runs the
same input.  Compared: per-entity delivery logs (time ns, kind) of the parallel and the sequential
run up to `end_time` (order inside one timestamp canonicalised), the number of "Time travel
detected" warnings, cross-partition emitted / injected counts, the number of windows, and the
error class for rejected configurations.  The Lean Spec (`HappyModel/C05/Spec.lean`) judges the
implementation's parallel-vs-sequential logs directly.
"""
from __future__ import annotations

import logging
import os
import random
import warnings

from hv import core

# Every case starts thread pools (4 ParallelSimulation runs).  Running 16 of those in forked worker
# processes oversubscribes the machine: measured 8–23 s for 53 cases in the pool against 1.5 s
# serially, with spurious per-case timeouts under load.  `./check C05` therefore runs its cases in
# the harness process (core.pmap_impl honours HV_SERIAL).
os.environ.setdefault("HV_SERIAL", "1")

_NODE = None


def _node_class():
    global _NODE
    if _NODE is not None:
        return _NODE
    from happysimulator.core.entity import Entity
    from happysimulator.core.event import Event
    from happysimulator.core.temporal import Instant

    class Node(Entity):
        """harness entity: logs every delivery, then emits what its script says for this kind"""

        def __init__(self, eid, pid, script):
            super().__init__(f"e{eid}")
            self.eid = eid
            self.pid = pid
            self.script = script      # kind -> [(delay_ns, target eid, kind2)]
            self.peers = {}           # public on purpose: validate_partitions walks it
            self.log = []
            self.sent_remote = 0

        def handle_event(self, ev):
            t = ev.time.nanoseconds
            k = int(ev.event_type[1:])
            self.log.append((t, k))
            out = []
            for (d, tgt, k2) in self.script.get(k, ()):
                peer = self.peers[tgt]
                if peer.pid != self.pid:
                    self.sent_remote += 1
                out.append(Event(time=Instant(t + d), event_type=f"k{k2}", target=peer))
            return out

    _NODE = Node
    return Node


class _TTCounter(logging.Handler):
    def __init__(self):
        super().__init__(level=logging.WARNING)
        self.n = 0

    def emit(self, record):
        try:
            if "Time travel detected" in record.getMessage():
                self.n += 1
        except Exception:
            pass


def _canon(log, end):
    """(time, kind) list -> tokens; only the order inside a run of equal timestamps is
    canonicalised, so a log that is not sorted by time stays visibly unsorted"""
    xs = [(t, k) for (t, k) in log if end is None or t <= end]
    out, i = [], 0
    while i < len(xs):
        j = i
        while j < len(xs) and xs[j][0] == xs[i][0]:
            j += 1
        out += sorted(xs[i:j])
        i = j
    return " ".join(f"{t}:{k}" for t, k in out)


class C05(core.Property):
    id = "C05"
    driver = "drv-c05"
    lake_targets = ["HappyProofs.C05.Props", "drv-c05"]
    audit_imports = ["HappyProofs.C05.Props"]
    lean_files = ["HappyModel/C05/*.lean", "HappyProofs/C05/*.lean", "HappyModel/Proto.lean", "Driver/C05.lean"]
    theorems = []
    variants = ["repaired"]
    quick_cases = 600
    thorough_cases = 12000
    case_timeout_s = 20
    rule = ("program = 1–6 script entities (kinds 0..4, emits only to higher kinds, ≤3 emits per (entity, kind)), 1–4 partitions "
            "(some empty), directed links with latencies in {L, L+1ns, 2L, 3L}; window ∈ {default, L, L−1ns, L/2, L/3, wEff≠w values}; "
            "end ∈ {∞, k·w, k·w±1ns, values whose float round trip loses 1 ns}; init times and delays on / 1 ns before / after window "
            "boundaries, 0, 1 ns, exactly the link latency, many windows ahead; max_workers ∈ {1, N}, each run twice; "
            "family invalid: window > min latency, reference without link, delay below min latency. "
            "non-trivial = at least one cross-partition event was exchanged; distinct = distinct case content")
    trusted_base = [
        "hv/props/c05.py harness entities (script handlers, delivery logs), canonicalisation of same-timestamp order",
        "Python threads / the GIL / ThreadPoolExecutor scheduling are not modelled: a partition's window is a function of its own state; "
        "checked only by running max_workers=1 and N, twice each, and requiring identical observables",
        "CPython heapq for ties with equal (time, creation index) across partitions (not compared: same-timestamp order is canonicalised)",
        "float glue int((w_ns/1e9)*1e9) for the window size (Lean Float = IEEE double), no theorem mentions it",
    ]
    assumptions = [
        "packet_loss = 0 and latency = None on every link (declared loss and latency distributions are outside the property's hypothesis; "
        "the coordinator calls latency.sample(), which LatencyDistribution does not have)",
        "wall-clock summary fields (speedup, efficiency, barrier overhead) are not compared",
        "handlers in the correspondence runs are stateless scripts; stateful handlers are covered only by the theorems that quantify over arbitrary handler functions",
        "times < 100 s so that the coordinator's float min-latency check (delay_s < min_latency - 1e-12) is exact on the ns grid",
        "model describes /repo with fixes/C05-window-overshoot.diff and fixes/C05-coordinator-window-end.diff applied",
    ]
    hypotheses = [
        "WindowLeLat: effective window ≤ every declared link latency (validate_partitions step 7) and 0 < window",
        "the run returns with err = none: no router raised, the coordinator's min-latency validation passed at every barrier "
        "(= cross-partition delays respect the declared minimum), every window loop ran to completion (Halted; the code's loop has no fuel)",
        "Safe / ParInit initial state: clocks at start, scheduled events at or after start and scheduled on the partition owning their target, partition ids distinct, links point to existing partitions",
        "par_eq_seq_partial: EventDetermined (emissions are a function of the delivered event) and Ranked (finite programs)",
    ]
    partial_theorems = {
        "HappyModel.C05.par_eq_seq_partial": (
            "full statement is `def par_eq_seq_full` (entity-local *stateful* handlers). Proved: every handler whose emissions are a "
            "function of the delivered event (time, target, kind) alone — state updates arbitrary — for all ties, partitionings, windows "
            "≤ min latency, end times, on the executable coordinator loop. Gap: handlers whose emissions depend on entity state/history; "
            "there a permutation inside one timestamp can change later emissions, so the clause needs either a no-shared-timestamp "
            "hypothesis with a window-local commutation argument, or order-insensitive handlers. Left to the correspondence runs "
            "(whose script handlers are stateless, i.e. inside the proved class)."),
    }

    # ------------------------------------------------------------------ generation
    def generate(self, rng: random.Random, i: int, tier: str) -> dict:
        r = i % 10
        if r == 0:
            return self.gen(rng, tier, family="indep")
        if r == 1:
            return self.gen(rng, tier, family="invalid")
        if r in (2, 3):
            return self.gen(rng, tier, family="boundary")
        if r == 4:
            return self.gen(rng, tier, family="idle")
        return self.gen(rng, tier, family="linked")

    def gen(self, rng, tier, family):
        nparts = rng.choice([2, 2, 3, 3, 4]) if family != "indep" else rng.choice([1, 2, 3, 4])
        nent = rng.randint(1, 6)
        ents = [rng.randrange(nparts) for _ in range(nent)]
        if family != "indep" and nent >= 2 and len(set(ents)) == 1:
            ents[-1] = (ents[0] + 1) % nparts
        L = rng.choice([1_000_000, 10_000_000, 100_000_000, 7_000_000, 29_000_000, 1_000, 65_000, 3_000_000])
        links = []
        if family != "indep":
            pairs = [(a, b) for a in range(nparts) for b in range(nparts) if a != b]
            rng.shuffle(pairs)
            keep = pairs[: rng.randint(1, len(pairs))]
            # make sure partitions that host entities can talk
            used = sorted(set(ents))
            for a in used:
                for b in used:
                    if a != b and (a, b) not in keep and rng.random() < 0.7:
                        keep.append((a, b))
            for (a, b) in keep:
                links.append([a, b, rng.choice([L, L, L + 1, 2 * L, 3 * L])])
        lmin = min((l[2] for l in links), default=L)
        lat = {(a, b): l for a, b, l in links}
        window = None
        if links:
            window = rng.choice([None, lmin, lmin, max(1000, lmin - 1), max(1000, lmin // 2), max(1000, lmin // 3)])
        w = window if window is not None else lmin
        # end time
        ke = rng.choice([1, 2, 3, 5, 8, 13])
        end = rng.choice([None, ke * w, ke * w + 1, max(1, ke * w - 1), ke * w + w // 2, 1_001_000_000 if w >= 10_000_000 else 65_000])
        if end is not None and end // max(w, 1) > 3000:
            end = 3000 * w
        horizon = (end if end is not None else 13 * w)

        def boundary_time():
            k = rng.choice([0, 1, 1, 2, 3, 5, 8])
            return max(0, k * w + rng.choice([0, 0, -1, 1, w // 2]))

        def local_delay():
            return rng.choice([0, 0, 1, 1, 1000 if w > 2000 else 2, w, w - 1, w + 1, lmin, 2 * w, 7 * w, rng.randrange(0, 2 * w + 1)])

        def remote_delay(l):
            ch = [l, l, l, l + 1, l + rng.randrange(0, w + 1), 2 * l, l + w, l + 7 * w]
            if family == "idle":
                ch += [l + 20 * w, l + 40 * w]
            return rng.choice(ch)

        nk = rng.choice([2, 3, 4, 5])
        prog = []
        dens = rng.choice([0.3, 0.5, 0.8])
        for e in range(nent):
            for k in range(nk - 1):
                if rng.random() > dens:
                    continue
                for _ in range(rng.choice([1, 1, 2, 3])):
                    k2 = rng.randint(k + 1, nk - 1)
                    mode = rng.random()
                    remote = [t for t in range(nent) if ents[t] != ents[e] and (ents[e], ents[t]) in lat]
                    localp = [t for t in range(nent) if ents[t] == ents[e]]
                    if mode < 0.55 and remote:
                        t = rng.choice(remote)
                        d = remote_delay(lat[(ents[e], ents[t])])
                    else:
                        t = e if rng.random() < 0.5 else rng.choice(localp)
                        d = local_delay()
                    prog.append([e, k, d, t, k2])
        init = []
        for _ in range(rng.randint(1, 6)):
            t = boundary_time() if family in ("boundary", "idle") or rng.random() < 0.5 else rng.randrange(0, horizon + 1)
            if family == "idle" and rng.random() < 0.5:
                t += rng.choice([10, 20, 30]) * w
            init.append([t, rng.randrange(nent), rng.choice([0, 0, 0, 1])])
        if family == "boundary" and init:
            # ties: several events on one instant
            t0 = init[0][0]
            for _ in range(rng.randint(0, 3)):
                init.append([t0, rng.randrange(nent), 0])
        # end_time exactly on the arrival of a cross-partition event (last-barrier boundary)
        arrivals = [t + d for (t, e, k) in init for (e2, k2, d, tg, _k3) in prog
                    if e2 == e and k2 == k and ents[tg] != ents[e]]
        if arrivals and rng.random() < (0.4 if family == "boundary" else 0.15):
            end = rng.choice(arrivals) + rng.choice([0, 0, 0, -1, 1])
            if end // max(w, 1) > 3000:
                end = 3000 * w
        case = dict(family=family, nparts=nparts, ents=ents, links=links, window=window, end=end,
                    prog=prog, init=init, reps=2)
        if family == "invalid":
            self.break_case(case, rng, lat, lmin)
        return case

    def break_case(self, case, rng, lat, lmin):
        nent = len(case["ents"])
        ents = case["ents"]
        k = rng.random()
        if k < 0.3 and case["links"]:
            case["window"] = lmin + rng.choice([1, 1000, lmin])          # ValueError
        elif k < 0.5:
            # reference to an entity in a partition without a link (ValueError) if one exists
            for e in range(nent):
                for t in range(nent):
                    if ents[e] != ents[t] and (ents[e], ents[t]) not in lat:
                        case["prog"].append([e, 0, lmin, t, 1])
                        return
            case["links"].append([0, 1, 0])                               # min_latency 0: ValueError
        else:
            # a delay below the link's min latency: RuntimeError at the barrier (if the emit is reached)
            for e in range(nent):
                for t in range(nent):
                    if (ents[e], ents[t]) in lat:
                        l = lat[(ents[e], ents[t])]
                        case["prog"].insert(0, [e, 0, max(0, l - rng.choice([1, 1, l // 2, l])), t, 1])
                        case["init"].insert(0, [rng.choice([0, 1, lmin]), e, 0])
                        return
            case["window"] = lmin + 1

    # ------------------------------------------------------------------ implementation
    def build_nodes(self, case):
        Node = _node_class()
        nent = len(case["ents"])
        scripts = [dict() for _ in range(nent)]
        for e, k, d, t, k2 in case["prog"]:
            scripts[e].setdefault(k, []).append((d, t, k2))
        nodes = [Node(e, case["ents"][e], scripts[e]) for e in range(nent)]
        for e, k, d, t, k2 in case["prog"]:
            nodes[e].peers[t] = nodes[t]
        return nodes

    def run_parallel(self, case, workers):
        from happysimulator.core.event import Event
        from happysimulator.core.temporal import Instant
        from happysimulator.parallel.link import PartitionLink
        from happysimulator.parallel.partition import SimulationPartition
        from happysimulator.parallel.simulation import ParallelSimulation

        nodes = self.build_nodes(case)
        end = case["end"]
        lg = logging.getLogger("happysimulator.core.simulation")
        h = _TTCounter()
        lg.addHandler(h)
        old_disabled, old_level = lg.disabled, lg.level
        lg.disabled = False
        if not lg.isEnabledFor(logging.WARNING):
            lg.setLevel(logging.WARNING)
        try:
            links = [PartitionLink(f"p{a}", f"p{b}", l / 1e9) for a, b, l in case["links"]]
            parts = [SimulationPartition(name=f"p{i}", entities=[n for n in nodes if n.pid == i])
                     for i in range(case["nparts"])]
            kw = dict(links=links or None, max_workers=workers)
            if case["window"] is not None:
                kw["window_size"] = case["window"] / 1e9
            if end is not None:
                kw["end_time"] = Instant(end)
            ps = ParallelSimulation(parts, **kw)
            for t, e, k in case["init"]:
                ps.schedule(Event(time=Instant(t), event_type=f"k{k}", target=nodes[e]), partition=f"p{nodes[e].pid}")
            summ = ps.run()
        finally:
            lg.removeHandler(h)
            lg.disabled = old_disabled
            lg.setLevel(old_level)
        out = [f"par {n.eid} {_canon(n.log, end)}".rstrip() for n in nodes]
        sent = sum(n.sent_remote for n in nodes)
        tail = [f"tt {h.n}", f"cross {sent} {summ.total_cross_partition_events}", f"windows {summ.total_windows}"]
        return out, tail

    def run_sequential(self, case):
        from happysimulator.core.event import Event
        from happysimulator.core.simulation import Simulation
        from happysimulator.core.temporal import Instant

        nodes = self.build_nodes(case)
        end = case["end"]
        sim = Simulation(entities=nodes, end_time=Instant(end) if end is not None else None)
        for t, e, k in case["init"]:
            sim.schedule(Event(time=Instant(t), event_type=f"k{k}", target=nodes[e]))
        sim.run()
        return [f"seq {n.eid} {_canon(n.log, end)}".rstrip() for n in nodes]

    def run_impl(self, case):
        with warnings.catch_warnings():
            warnings.simplefilter("ignore")
            try:
                par, tail = self.run_parallel(case, 1)
            except (ValueError, RuntimeError) as e:
                return [f"err {type(e).__name__}"]
            extra = []
            n = len(case["ents"])
            for rep in range(1, 2 * max(1, case.get("reps", 1))):
                workers = 1 if rep % 2 == 0 else None
                try:
                    p2, t2 = self.run_parallel(case, workers)
                except (ValueError, RuntimeError) as e:
                    p2, t2 = [f"err {type(e).__name__}"], []
                if p2 != par or t2 != tail:
                    extra += [f"rep {rep} " + x for x in p2 + t2]
            seq = self.run_sequential(case)
        return par + seq + tail + extra

    # ------------------------------------------------------------------ model / judge
    @staticmethod
    def _t(x):
        return "inf" if x is None else str(x)

    def model_block(self, case, variant):
        body = [f"ent {e} {p}" for e, p in enumerate(case["ents"])]
        body += [f"link {a} {b} {l}" for a, b, l in case["links"]]
        body += ["emit " + " ".join(map(str, x)) for x in case["prog"]]
        body += ["init " + " ".join(map(str, x)) for x in case["init"]]
        w = "none" if case["window"] is None else str(case["window"])
        return (f"run {variant} {case['nparts']} {w} {self._t(case['end'])}", body)

    def judge_block(self, case, impl_out):
        if not impl_out or impl_out[0].startswith("IMPL-") or impl_out[0].startswith("err "):
            return None
        return (f"judge {self._t(case['end'])}", list(impl_out))

    def nontrivial_key(self, case, impl_out):
        for line in impl_out:
            if line.startswith("cross "):
                if int(line.split()[1]) > 0:
                    return core.json.dumps(case, sort_keys=True)
        return None

    def shrink(self, case):
        for key in ("init", "prog", "links"):
            xs = case[key]
            n = len(xs)
            step = max(1, n // 2)
            while step >= 1:
                for i in range(0, n, step):
                    cand = dict(case)
                    cand[key] = xs[:i] + xs[i + step:]
                    if len(cand[key]) < n and (key != "init" or cand[key]):
                        yield cand
                step //= 2
        if case.get("reps", 1) > 1:
            yield dict(case, reps=1)
        if case["end"] is not None:
            yield dict(case, end=None)

    def mutate(self, case, rng):
        c = dict(case)
        c["init"] = [list(x) for x in case["init"]]
        c["prog"] = [list(x) for x in case["prog"]]
        w = case["window"] or min((l[2] for l in case["links"]), default=1_000_000)
        for _ in range(rng.randint(1, 3)):
            k = rng.random()
            if k < 0.4 and c["init"]:
                x = rng.choice(c["init"])
                x[0] = max(0, x[0] + rng.choice([-1, 1, w, -w, w // 2]))
            elif k < 0.6 and c["init"]:
                c["init"].append(list(rng.choice(c["init"])))
            elif k < 0.9 and c["prog"]:
                x = rng.choice(c["prog"])
                x[2] = x[2] + rng.choice([0, 1, w, 2 * w])
            elif c["end"] is not None:
                c["end"] = max(1, c["end"] + rng.choice([-1, 1, w]))
        return c


THEOREMS: list[str] = [
    "HappyModel.C05.no_time_travel",
    "HappyModel.C05.no_time_travel_run",
    "HappyModel.C05.exchange_conserves",
    "HappyModel.C05.partition_order",
    "HappyModel.C05.seq_order",
    "HappyModel.C05.independent_eq_separate",
    "HappyModel.C05.par_eq_seq_partial",
    "HappyModel.C05.no_time_travel_current_false",
]
C05.theorems = THEOREMS
PROPERTY = C05()
