"""C05 — partitioned parallel execution is equivalent to sequential execution.

Correspondence: a generated program (1–6 harness entities whose handlers run *scripts*: on
(entity, event kind) emit events with given delays / targets / kinds; kinds form a DAG so every
program is finite) is assigned to 1–4 partitions with `PartitionLink`s.  The real
`ParallelSimulation` runs it (`max_workers` 1 and N, repeated), a plain `Simulation` runs an
identical second copy, and the Lean model (`HappyModel/C05`: per-partition engine, router,
`_run_window`, barrier exchange with the min-latency check, coordinator loop, validation) runs the
same input.  Compared: per-entity delivery logs (time ns, kind) of the parallel and the sequential
run up to `end_time` (order inside one timestamp canonicalised), the number of "Time travel
detected" warnings, cross-partition emitted / injected counts, the number of windows, and the
error class for rejected configurations.  Family `wake` (`gen_wake`) and the timing mutations of the
failing-input search (`mutate`, `splice_burst`) exercise "partitions that are idle across several
windows": bursts that start anywhere inside a window after a quiet stretch, messages that take exactly
the link minimum, local deliveries around each arrival (Lean side: `HappyModel/C05/Idle.lean`,
`HappyProofs/C05/Idle.lean` — which idle fast-forwards are sound and which are not).  The Lean Spec (`HappyModel/C05/Spec.lean`) judges the
implementation's parallel-vs-sequential logs directly.

Families `stateful` and `tiex` (20 % of the cases) run *stateful* harness entities (delivery counter, set of kinds
seen; rules `nth`, `dedup` — tie-commutative — and `first` — order-sensitive) whose transcripts keep the real order
of deliveries and the sender's partition; the model's `runs` mode (`HappyModel/C05/Stateful.lean`, `DriverS.lean`)
assigns creation indices the way the code does, the `judges` mode (`SpecS.lean`) names the design-level tie-order
divergence `par/tie-order/cross-arrival-after-local-tie` (known finding, fixes/C05-tie-order-sensitive-handlers.known.md).
"""
from __future__ import annotations

import logging
import os
import random
import warnings

from hv import core

# Every case starts thread pools (4 ParallelSimulation runs).  Running 16 of those in forked worker
# processes oversubscribes the machine: measured 8–23 s for 53 cases in the pool against 1.5 s
# serially, with spurious per-case timeouts under load.  `./check C05` therefore runs its cases in
# the harness process (core.pmap_impl honours HV_SERIAL).
os.environ.setdefault("HV_SERIAL", "1")

_NODE = None

# F1: link latencies whose float seconds truncate to one nanosecond less (0.0157 s -> 15_699_999 ns).  On /repo
# without fixes/C05-min-latency-float-truncation.diff a sender that uses the very float it declared on the link is
# rejected at the barrier; the trigger is not generated unless HV_C05_LIFT=F1 (checking a tree that has the fix).
LIFT = set(filter(None, os.environ.get("HV_C05_LIFT", "F1").split(",")))   # F1 lifted: the repair is in /repo


def trunc_ns(ns: int) -> int:
    """`int((ns / 1e9) * 1e9)`: the nanoseconds the engine makes of the float seconds `ns / 1e9`
    (`Duration.from_seconds`, `Instant + float`).  `ns / 1e9` is the double nearest to the decimal."""
    return int((ns / 1e9) * 1e9)


def _classify():
    up, down = [], []
    for digits in (1, 2, 3, 4):
        unit = 10 ** (9 - digits)
        for n in range(1, min(10 ** digits, 5000)):
            ns = n * unit
            x = (ns / 1e9) * 1e9
            if int(x) < ns:
                down.append(ns)
            elif x > ns:
                up.append(ns)
    return sorted(set(up)), sorted(set(down))


# decimal latencies (1-4 fractional digits of a second) whose product with 1e9 is not an integer in binary
# floating point: DEC_UP rounds up (0.0041, 0.0079, 0.067, 0.134, ...: truncation gives the decimal back),
# DEC_DOWN rounds down (0.0157, 0.0163, ...: truncation loses one nanosecond)
DEC_UP, DEC_DOWN = _classify()


def fix_lat(l: int) -> int:
    """F1: keep declared latencies off the values whose float truncates (unless lifted)"""
    if "F1" in LIFT:
        return l
    while l > 0 and trunc_ns(l) != l:
        l += 1
    return l


def pick_decimal_lat(rng) -> int:
    """a declared minimum latency written as a decimal number of seconds with 1-4 fractional digits"""
    r = rng.random()
    if r < 0.5 or ("F1" in LIFT and r < 0.75):
        pool = DEC_DOWN if ("F1" in LIFT and r >= 0.4) else DEC_UP
        return rng.choice([x for x in pool if x <= 500_000_000])
    digits = rng.choice([1, 2, 3, 4])
    unit = 10 ** (9 - digits)
    return fix_lat(rng.randint(1, min(10 ** digits - 1, 500_000_000 // unit)) * unit)


def eff_delay(x) -> int:
    """delay in ns of a script line `[e, k, d, target, k2]` / `[e, k, d, target, k2, "s"]`"""
    return trunc_ns(x[2]) if len(x) > 5 else x[2]


def _node_class():
    global _NODE
    if _NODE is not None:
        return _NODE
    from happysimulator.core.entity import Entity
    from happysimulator.core.event import Event
    from happysimulator.core.temporal import Instant

    class Node(Entity):
        """harness entity: logs every delivery, then emits what its script says for this kind"""

        def __init__(self, eid, pid, script):
            super().__init__(f"e{eid}")
            self.eid = eid
            self.pid = pid
            self.script = script      # kind -> [(delay_ns, target eid, kind2, as_float_seconds)]
            self.peers = {}           # public on purpose: validate_partitions walks it
            self.log = []
            self.sent_remote = 0
            self.xsends = set()       # (time, own partition, destination partition, delay ns) of cross-partition emissions
            self.is_cb = False        # a callback pseudo entity: never registered with a partition, reached through Event.once

        def handle_event(self, ev):
            t = ev.time.nanoseconds
            k = int(ev.event_type[1:])
            self.log.append((t, k))
            out = []
            for (d, tgt, k2, as_s) in self.script.get(k, ()):
                peer = self.peers[tgt]
                # as_s: the way a user writes it — float seconds, the same float the link was declared with
                when = ev.time + (d / 1e9) if as_s else Instant(t + d)
                if peer.pid != self.pid:
                    self.sent_remote += 1
                    self.xsends.add((t, self.pid, peer.pid, when.nanoseconds - t))
                if peer.is_cb:
                    # a local one-shot callback (Event.once -> CallbackEntity target): the callback runs the pseudo
                    # entity's script (logs the firing, returns its emissions)
                    out.append(Event.once(when, f"k{k2}", peer.handle_event))
                else:
                    out.append(Event(time=when, event_type=f"k{k2}", target=peer))
            return out

    _NODE = Node
    return Node


_SNODE = None


def _snode_class():
    """stateful harness entity (family stateful / tiex): a delivery counter and the set of kinds seen; on top of
    the stateless script, rules `first` (answer kind A only while no kind B has been delivered: order-sensitive),
    `nth` (emit on the n-th delivery) and `dedup` (answer a kind only the first time it is seen) — the latter two
    commute on same-timestamp deliveries.  Emitted event types carry the sender (`k<kind>s<entity>`), the log says for
    every delivery which partition it came from (`i` = scheduled before the run) and is NOT canonicalised."""
    global _SNODE
    if _SNODE is not None:
        return _SNODE
    Node = _node_class()
    from happysimulator.core.event import Event
    from happysimulator.core.temporal import Instant

    class SNode(Node):
        def __init__(self, eid, pid, script, rules, pids):
            super().__init__(eid, pid, script)
            self.rules = rules        # this entity's rules, in case order
            self.pids = pids          # entity -> partition
            self.cnt = 0
            self.seen = set()
            self.timers = {}          # armed timers (Event objects) by serial number
            self.nsid = 0

        def handle_event(self, ev):
            t = ev.time.nanoseconds
            typ = ev.event_type[1:]
            cancels = None
            if "c" in typ:                      # the canceller of timer <sid>
                typ, cs = typ.split("c")
                cancels = int(cs)
            if "s" in typ:
                ks, ss = typ.split("s")
                k, origin = int(ks), str(self.pids[int(ss)])
            else:
                k, origin = int(typ), "i"
            self.log.append((t, k, origin))
            if cancels is not None:
                self.timers.pop(cancels).cancel()      # Event.cancel(): no-op if it has fired already
            ems = list(self.script.get(k, ()))
            for r in self.rules:
                if r[0] == "first":
                    _n, _e, ka, kb, d, tgt, k2 = r
                    if k == ka and kb not in self.seen:
                        ems.append((d, tgt, k2, False))
                elif r[0] == "nth":
                    _n, _e, n, d, tgt, k2 = r
                    if self.cnt + 1 == n:
                        ems.append((d, tgt, k2, False))
                elif r[0] == "dedup":
                    _n, _e, k0, d, tgt, k2 = r
                    if k == k0 and k0 not in self.seen:
                        ems.append((d, tgt, k2, False))
                elif r[0] == "tmr":
                    _n, _e, k0, dt, kt, dc, kc = r
                    if k == k0:
                        ems.append((dt, self.eid, kt, "timer"))
                        ems.append((dc, self.eid, kc, "cancel"))
            self.cnt += 1
            self.seen.add(k)
            out = []
            for (d, tgt, k2, as_s) in ems:
                if as_s == "timer":
                    self.nsid += 1
                    tm = Event(time=Instant(t + d), event_type=f"k{k2}s{self.eid}", target=self)
                    self.timers[self.nsid] = tm
                    out.append(tm)
                    continue
                if as_s == "cancel":
                    out.append(Event(time=Instant(t + d), event_type=f"k{k2}s{self.eid}c{self.nsid}", target=self))
                    continue
                peer = self.peers[tgt]
                when = ev.time + (d / 1e9) if as_s else Instant(t + d)
                if peer.pid != self.pid:
                    self.sent_remote += 1
                    self.xsends.add((t, self.pid, peer.pid, when.nanoseconds - t))
                if peer.is_cb:
                    out.append(Event.once(when, f"k{k2}s{self.eid}", peer.handle_event))
                else:
                    out.append(Event(time=when, event_type=f"k{k2}s{self.eid}", target=peer))
            return out

    _SNODE = SNode
    return SNode


def _raw(log, end):
    """stateful families: deliveries in the order they happened, with origin tags"""
    return " ".join(f"{t}:{k}:{o}" for (t, k, o) in log if end is None or t <= end)


class _TTCounter(logging.Handler):
    def __init__(self):
        super().__init__(level=logging.WARNING)
        self.n = 0

    def emit(self, record):
        try:
            if "Time travel detected" in record.getMessage():
                self.n += 1
        except Exception:
            pass


def _canon(log, end):
    """(time, kind) list -> tokens; only the order inside a run of equal timestamps is
    canonicalised, so a log that is not sorted by time stays visibly unsorted"""
    xs = [(t, k) for (t, k) in log if end is None or t <= end]
    out, i = [], 0
    while i < len(xs):
        j = i
        while j < len(xs) and xs[j][0] == xs[i][0]:
            j += 1
        out += sorted(xs[i:j])
        i = j
    return " ".join(f"{t}:{k}" for t, k in out)


class C05(core.Property):
    id = "C05"
    driver = "drv-c05"
    lake_targets = ["HappyProofs.C05.Props", "drv-c05"]
    audit_imports = ["HappyProofs.C05.Props"]
    lean_files = ["HappyModel/C05/*.lean", "HappyProofs/C05/*.lean", "HappyModel/Proto.lean", "Driver/C05.lean"]
    theorems = []
    variants = ["repaired"]
    quick_cases = 600
    thorough_cases = 12000
    case_timeout_s = 20
    rule = ("program = 1–6 script entities (kinds 0..4, emits only to higher kinds, ≤3 emits per (entity, kind)), 1–4 partitions "
            "(some empty), directed links with latencies in {L, L+1ns, 2L, 3L}; window ∈ {default, L, L−1ns, L/2, L/3, wEff≠w values}; "
            "end ∈ {∞, k·w, k·w±1ns, values whose float round trip loses 1 ns}; init times and delays on / 1 ns before / after window "
            "boundaries, 0, 1 ns, exactly the link latency, many windows ahead; max_workers ∈ {1, N}, each run twice; "
            "family wake: all partitions idle for m ∈ {2..20} windows, then bursts at m·w + off (off ∈ {0, 1, 2, w−1, w−2, w/2, w/2±1, w/4, 3w/4, w/3, 2w/3, random}) "
            "whose cross-partition messages take exactly the link minimum (or +1 ns, +w/4, +w/2, +w) with local deliveries at the destination 1 ns before / at / "
            "1 ns after / a fraction of a window after each arrival and on the next window boundary, optional replies; "
            "family invalid: window > min latency, reference without link, delay below min latency. "
            "decimal minima (35 % of gen / wake cases): min_latency written with 1–4 fractional digits of a second, preferring values whose product with 1e9 is not an "
            "integer in binary floating point (0.0041, 0.0079, 0.067, 0.134, … round up; the ones that round down, 0.0157, 0.0163, …, only with HV_C05_LIFT=F1), "
            "several different decimal minima per model, decimal window sizes ≤ the minimum; cross delays given as the *same float seconds* as the link (`time + l/1e9`), "
            "and the integer-nanosecond neighbours (exactly int(l_float·1e9), +1 ns; −1 ns in family invalid). "
            "An aborted parallel run is judged (judge-err) on the declared configuration and the cross-partition emissions of the implementation's own sequential run. "
            "search after a disagreement: mutations re-grid instants inside their window, stretch / insert idle gaps (everything after an instant moves by "
            "±1 ns, w/4, w/2, w/2+1, 3w/4, w−1, k·w + off), set cross delays to the exact link minimum, add local deliveries around cross arrivals, "
            "splice a wake-up burst after the last scheduled event. "
            "family stateful (15 %): a linked / boundary program, often snapped to a grid of w, w/2 or w/4, plus 1–4 stateful rules on the harness entities — nth (emit on the "
            "n-th delivery, n ∈ 1..5) and dedup (answer a kind only the first time it is seen), emissions local (delay 0, 1, w/2, w, w−1, L) or over a link (L, L+1, L+w/2, L+w): "
            "tie-commutative handlers with state-dependent emissions. family tiex (5 %): two partitions with one stateful entity each, links both ways (L, 2L), window ∈ {default, L, L/2, L−1}, "
            "all instants and delays on a grid of L/2, order-sensitive rules first (answer kind A only while no kind B was delivered) with local or cross-partition answers, in half of the cases a planted tie "
            "(a cross-partition and a self-sent event due at one instant, the cross one created first, the receiver answering one of the two kinds only while it has not seen the other). "
            "family timers (2.5 %): a stateful entity arms 1–3 timers and cancels them (Event.cancel(), rule tmr: canceller after 0 / 1 ns / w/10 / w/4, timer expiring before, exactly when or "
            "after its canceller runs, inside or beyond the window), its next live event lies 1.5–20 windows ahead (control: also one in between), and another partition sends it an event due 1 ns / w/4 / w/2 / "
            "w−1 / w / w+1 after the window end; tmr rules also in family stateful. "
            "start_time / duration (all families but invalid): 30 % of the cases start at S ∈ {1 ns, w/2+1, w, 3w+1, 7w, 1 s, 2.5–3.5 s, random} (all instants move by S), half of those with a finite end and 15 % of the "
            "epoch cases pass duration= instead of end_time= (to ParallelSimulation and to Simulation). "
            "local one-shot callbacks (35 % of the linked cases of every family but tiex / timers / invalid): 1–3 (entity, kind) batches additionally contain Event.once events (CallbackEntity target) "
            "placed before, between and after the batch's cross-partition and local events, delay 0 / 1 ns / w/2 / w / L; the callback is a pseudo entity (case key cb; an ordinary entity of the same partition for "
            "the model) that logs its firing and emits to a local entity or across a link. "
            "family wedge (5 %): explicit window ∈ {min−1 ns, min, min+1 ns, the decimal a derived minimum was meant to be, default}, minimum latency a decimal up to 5 s or a derived float (0.15−0.10, 0.7−0.4, 0.3−0.2, "
            "random a−b) that truncates to one nanosecond less than its decimal; sender at the start instant using exactly the declared latency, local events of the destination exactly on the first window end; "
            "a window above the minimum must be rejected, and a run that is accepted although the effective window exceeds an effective link minimum is a violation (par/invalid-configuration-accepted). "
            "Stateful transcripts carry the real delivery order (no canonicalisation) and the sender's partition of every delivery; the model assigns creation indices as the code does. "
            "non-trivial = at least one cross-partition event was exchanged; distinct = distinct case content")
    trusted_base = [
        "hv/props/c05.py harness entities (script handlers, stateful rule handlers, delivery logs with sender tags carried in the event type `k<kind>s<entity>`), "
        "canonicalisation of same-timestamp order for stateless entities",
        "Python threads / the GIL / ThreadPoolExecutor scheduling are not modelled: a partition's window is a function of its own state; "
        "checked only by running max_workers=1 and N, twice each, and requiring identical observables",
        "CPython heapq for ties with equal (time, creation index) across partitions (not compared: same-timestamp order is canonicalised)",
        "float glue int((x_ns/1e9)*1e9) (= Duration.from_seconds / Instant + float) for the window size, for the effective minimum latency of a link and for "
        "script delays given in float seconds (Lean Float = IEEE double), no theorem mentions it",
    ]
    assumptions = [
        "packet_loss = 0 and latency = None on every link (declared loss and latency distributions are outside the property's hypothesis; "
        "the coordinator calls latency.sample(), which LatencyDistribution does not have)",
        "wall-clock summary fields (speedup, efficiency, barrier overhead) are not compared",
        "80 % of the correspondence runs use stateless script entities; 20 % (families stateful, tiex) stateful ones: delivery counter + set of kinds seen, rules nth / dedup "
        "(tie-commutative: ruleHandler_commAt) and first (order-sensitive), compared with the model delivery by delivery in the real order",
        "known finding (design-level, fixes/C05-tie-order-sensitive-handlers.known.md, signature par/tie-order/cross-arrival-after-local-tie, witness corpus/C05/tie-order-first-kind-wins.json): "
        "for handlers that are order-sensitive inside one timestamp the main clause is false of model and code alike (a cross-partition arrival is injected at the barrier and delivered after a local "
        "event of the same timestamp that sequentially comes later); family tiex hits it a few times per run; the order-sensitive rule is generated only for two single-entity partitions, where every "
        "tie inversion has the named form",
        "Event.once / CallbackEntity targets are modelled as ordinary entities of the emitter's partition (the router treats them as always local; the harness never registers them with a partition "
        "and records their firings itself)",
        "derived float latencies (case key latf) are given to the model as their effective nanoseconds int(float·1e9); the generator keeps only values for which float order and nanosecond order of window "
        "vs latency agree and whose nanoseconds survive the float round trip",
        "cancelled events (lazy deletion in Simulation._execute_until: popped and skipped, behind the strict-window peek guard) are modelled as ghost deliveries: the stateful entity's handler "
        "returns its state unchanged and emits nothing (ghost_is_silent), the ghost is removed from the printed log; it advances the model clock to its own time, which no later event can precede",
        "the stateful modes of the model (runs / judges) use coordLoopR + Part.initCtr (creation indices as in core/event.py, event_heap.py, Simulation.schedule at a barrier); the stateless modes keep "
        "coordLoop (indices of injected events unchanged) — there the order inside a timestamp is canonicalised and cannot influence a stateless script",
        "times < 100 s so that the coordinator's float min-latency check (delay_s < min_latency - 1e-12) is exact on the ns grid",
        "generator restriction F1 (reproduced defect of /repo, fixes/C05-min-latency-float-truncation.{diff,md}): declared latencies whose float seconds truncate to "
        "one nanosecond less (0.0157 s) are not generated unless HV_C05_LIFT=F1; on such a link /repo rejects a sender that uses the very float it declared",
        "model describes /repo with fixes/C05-window-overshoot.diff and fixes/C05-coordinator-window-end.diff applied",
    ]
    hypotheses = [
        "WindowLeLat: effective window ≤ every declared link latency (validate_partitions step 7) and 0 < window",
        "the run returns with err = none: no router raised, the coordinator's min-latency validation passed at every barrier "
        "(= cross-partition delays respect the declared minimum), every window loop ran to completion (Halted; the code's loop has no fuel)",
        "Safe / ParInit initial state: clocks at start, scheduled events at or after start and scheduled on the partition owning their target, partition ids distinct, links point to existing partitions",
        "sched_no_time_travel / idle_skip_safe (partitions idle across several windows): SchedOk — every window of the schedule satisfies "
        "b ≤ we ≤ b + w and the coordinator's own checks, every idle skip moves the barrier to an instant not after any pending event "
        "(idle_skip_round_unsafe: rounding to the nearest window instead violates this and loses an event); /repo's loop is the skip-free instance",
        "valid_config_never_rejected: RespectsMin — every cross-partition emission of the handler goes over a declared link with a delay of at least its "
        "(effective, integer-nanosecond) minimum; initial heaps owned, outboxes empty; conclusion: the run never ends in RuntimeError",
        "par_eq_seq_partial: EventDetermined (emissions are a function of the delivered event) and Ranked (finite programs)",
        "*_R theorems (coordLoopR, what the `runs` mode executes): same hypotheses; creation counters of the partitions arbitrary (ParInit does not constrain them), "
        "sequential run started with any counter n0 (the driver: number of pre-run events); agree_before_first_tie(_R): additionally T' ≤ end_time and NoTies of the sequential logs up to T'",
        "par_eq_seq_tie_commutative / par_eq_seq_no_ties / par_eq_seq_no_ties_observed: handler = liftP hE, hE : state of the target entity × event "
        "(time, target, kind; no creation index) → new state × emissions (entity-local); same run hypotheses as par_eq_seq_partial (ParInit, all "
        "partitions start from one state map, coordLoop returns err = none, sequential run Halted); no finiteness hypothesis (the induction is on "
        "the sequential run's deliveries). TieCommutative: for all a, d with the same target and time and every state, delivering a then d and d then a "
        "give the same state and the same emissions as a multiset. NoTies: the per-entity log (up to end_time) is strictly increasing in time",
    ]
    partial_theorems = {
        "HappyModel.C05.par_eq_seq_partial": (
            "the statement it is partial for, `def par_eq_seq_full` (the main clause for EVERY entity-local stateful handler), is FALSE and "
            "refuted in Lean: `par_eq_seq_full_false_for_order_sensitive_handlers` (two partitions, window = link latency; a local and a "
            "cross-partition delivery reach one entity at the same timestamp in different orders in the two runs; an order-sensitive handler "
            "then emits an event sequentially that never exists in the partitioned run; the real code behaves like the model: "
            "fixes/C05-tie-order-sensitive-handlers.known.md). The true envelope is proved in full on the executable coordinator loop: "
            "(1) par_eq_seq_partial — emissions a function of the delivered event, state updates arbitrary, all ties; "
            "(2) par_eq_seq_tie_commutative — entity-local stateful handlers (emissions depend on the entity's state / history) that commute "
            "on two deliveries to one entity at one timestamp: logs equal up to the order inside a timestamp, final entity states determined; "
            "(3) par_eq_seq_no_ties — arbitrary (order-sensitive) entity-local stateful handlers when the SEQUENTIAL run delivers no two events "
            "to one entity at one timestamp: logs EQUAL, final states determined (par_eq_seq_no_ties_observed: same from the partitioned run's logs; "
            "seq_final_state: states equal to the sequential run's when it has no horizon overshoot). "
            "agree_before_first_tie(_R): for every handler the two runs agree up to the first same-timestamp group of the sequential run, so the model's divergences are always tie-order divergences; "
            "the _R theorems are the same statements for coordLoopR, the coordinator with the code's creation indices that the driver runs for stateful entities. "
            "ruleHandler_commAt: the check's stateful entities without `first` rules commute on every same-timestamp pair except a timer and its own canceller (created together, never reordered). "
            "Exact remaining gap: handlers that are order-sensitive inside a timestamp AND receive such ties (there the clause is false: known finding par/tie-order/…); "
            "handlers that read another entity's state (not entity-local) or the event's creation index; (2) asks commutation for all "
            "same-timestamp pairs of events, not only those that actually tie in the run (the core lemma `stateful_core` needs it only for pairs "
            "delivered by the partitioned run). The judge's classification of a divergence as par/tie-order/… (SpecS.tieOrderCause) is a decidable observation on the two logs, not a theorem."),
    }

    # ------------------------------------------------------------------ generation
    def generate(self, rng: random.Random, i: int, tier: str) -> dict:
        if i % 20 == 13:
            return self.gen_window_edge(rng, tier)
        case = self.generate0(rng, i, tier)
        if case["family"] == "invalid":
            return case
        return self.with_start(self.with_once(case, rng), rng)

    def with_once(self, case, rng):
        """local one-shot callbacks: in 35 % of the linked cases some handler batches additionally contain
        `Event.once(...)` events (target: a CallbackEntity, always local) placed before, between and after the batch's
        cross-partition and local events; the callback is a pseudo entity (listed in `cb`, never registered with a
        partition) that logs its firing and emits to an ordinary entity, local or across a link"""
        if not case["links"] or case["family"] in ("tiex", "timers") or rng.random() > 0.35:
            return case
        ents = case["ents"]
        lat = {(a, b): l for a, b, l in case["links"]}
        lmin = min(l[2] for l in case["links"])
        w = trunc_ns(case["window"] if case["window"] is not None else lmin) or 1
        cb = []
        keys = sorted({(x[0], x[1]) for x in case["prog"] if ents[x[0]] != ents[x[3]]}) or sorted({(x[0], x[1]) for x in case["prog"]})
        rng.shuffle(keys)
        nreal = len(ents)
        for (e, k) in keys[: rng.randint(1, 3)]:
            h = len(ents)
            ents.append(ents[e])
            cb.append(h)
            kk = k + 1
            for _ in range(rng.choice([1, 1, 2])):
                pos = [j for j, x in enumerate(case["prog"]) if x[0] == e and x[1] == k]
                at = rng.choice(pos + [pos[-1] + 1, pos[-1] + 1]) if pos else len(case["prog"])
                case["prog"].insert(at, [e, k, rng.choice([0, 0, 1, w // 2, w, lmin]), h, kk])
            remote = [t for t in range(nreal) if ents[t] != ents[e] and (ents[e], ents[t]) in lat]
            if remote and rng.random() < 0.4:
                t = rng.choice(remote)
                case["prog"].append([h, kk, trunc_ns(lat[(ents[e], ents[t])]) + rng.choice([0, 1, w]), t, kk + 1])
            else:
                t = rng.choice([x for x in range(nreal) if ents[x] == ents[e]])
                case["prog"].append([h, kk, rng.choice([0, 1, w // 2, w]), t, kk + 1])
        case["cb"] = cb
        return case

    def gen_window_edge(self, rng, tier):
        """family wedge: explicit window sizes one nanosecond below / at / above the minimum link latency, where the
        minimum is (a) a decimal number of nanoseconds up to 5 s (so that 1 ns is far below any relative float
        tolerance) or (b) a *derived* float (0.15 − 0.10, 0.7 − 0.4, 0.3 − 0.2, …) that differs from the decimal window
        (0.05, 0.3, 0.1) only in the last bits yet truncates to one nanosecond less.  A window above the minimum must be
        rejected (ValueError); at or below it the run must agree with the sequential one — with a sender at the start
        instant that uses exactly the declared latency and a local event of the destination exactly on the first
        window end."""
        case = None
        for _ in range(50):
            if rng.random() < 0.5:
                x, y = rng.choice([(150_000_000, 100_000_000), (700_000_000, 400_000_000), (300_000_000, 200_000_000),
                                   (rng.randrange(2, 999) * 1_000_000, rng.randrange(1, 500) * 1_000_000)])
                if x <= y:
                    continue
                lf = x / 1e9 - y / 1e9
                eff = int(lf * 1e9)
                if eff <= 0 or trunc_ns(eff) != eff:
                    continue
                latf = {"0": [x, y]}
                near = x - y            # the decimal the user thinks the latency is
            else:
                eff = rng.choice([1_000_000, 50_000_000, 2_000_000_000, 5_000_000_000, 1_234_567_891])
                if trunc_ns(eff) != eff:
                    continue
                lf, latf, near = eff / 1e9, {}, eff
            window = rng.choice([near, near, eff, eff + 1, eff - 1, near + 1, None])
            if window is not None:
                if window <= 0 or trunc_ns(window) != window:
                    continue
                # the configuration is valid iff window <= latency; make sure float order and nanosecond order agree
                if (window / 1e9 > lf) != (window > eff):
                    continue
            case = dict(latf=latf, eff=eff, window=window)
            break
        if case is None:
            case = dict(latf={}, eff=1_000_000, window=1_000_001)
        eff, window, latf = case["eff"], case["window"], case["latf"]
        w = window if window is not None else eff
        ents = [0, 1] + ([1] if rng.random() < 0.3 else [])
        links = [[0, 1, eff]]
        if rng.random() < 0.5:
            links.append([1, 0, eff * rng.choice([1, 2]) + rng.choice([0, 1])])
        prog = [[0, 0, eff, 1, 1]]                      # exactly the declared latency
        if latf and rng.random() < 0.5:
            prog = [[0, 0, eff + rng.choice([0, 1]), 1, 1]]
        if len(links) > 1 and rng.random() < 0.5:
            prog.append([1, 1, links[1][2], 0, 2])
        init = [[0, 0, 0], [w, 1, 2], [w, len(ents) - 1, 2]]
        if rng.random() < 0.5:
            init.append([rng.choice([1, w - 1, w + 1, 2 * w]), rng.randrange(len(ents)), 2])
        ke = rng.choice([2, 3, 5])
        end = rng.choice([None, ke * w, ke * w + 1])
        out = dict(family="wedge", nparts=2, ents=ents, links=links, window=window, end=end, prog=prog, init=init, reps=1)
        if latf:
            out["latf"] = latf
        return out

    def with_start(self, case, rng):
        """start_time / duration: 30 % of the cases start at S ≠ epoch (every instant of the case moves by S, so the window
        grid S + k·w keeps its alignment with the events), and half of those with a finite end — and 15 % of the epoch cases —
        pass `duration=` instead of `end_time=` to ParallelSimulation and Simulation (end = start + duration)"""
        lmin = min((l[2] for l in case["links"]), default=1_000_000)
        w = trunc_ns(case["window"] if case["window"] is not None else lmin) or 1
        S = 0
        if rng.random() < 0.3:
            S = rng.choice([1, w // 2 + 1, w, 3 * w + 1, 7 * w, 1_000_000_000, 2_500_000_000 + rng.randrange(0, 1000) * 1_000_000,
                            rng.randrange(1, 10 * w + 2)])
            for x in case["init"]:
                x[0] += S
            if case["end"] is not None:
                case["end"] += S
            case["start"] = S
        if case["end"] is not None and rng.random() < (0.5 if S else 0.15):
            dur = case["end"] - S
            if dur > 0:
                case["dur"] = dur
                case["end"] = S + trunc_ns(dur)       # Instant + float seconds
        return case

    def generate0(self, rng: random.Random, i: int, tier: str) -> dict:
        r = i % 10
        if r == 0:
            return self.gen(rng, tier, family="indep")
        if r == 1:
            return self.gen(rng, tier, family="invalid")
        if r in (2, 3):
            return self.gen(rng, tier, family="boundary")
        if r == 4:
            return self.gen(rng, tier, family="idle")
        if r in (5, 6):
            return self.gen_wake(rng, tier)
        if r == 8:
            return self.gen_stateful(rng, tier)
        if r == 9:
            return [self.gen_tiex, self.gen_stateful, self.gen_timers, self.gen_tiex][(i // 10) % 4](rng, tier)
        return self.gen(rng, tier, family="linked")

    # ---- stateful harness entities ------------------------------------------------------------------
    def gen_stateful(self, rng, tier):
        """family stateful: a linked / boundary program plus tie-commutative stateful rules (`nth`: emit on the n-th
        delivery, `dedup`: answer a kind only the first time) on a coarse time grid, so that same-timestamp deliveries
        to one entity (local + cross-partition) are frequent.  par_eq_seq_tie_commutative says the logs stay equal up
        to the order inside a timestamp; the transcripts carry the real order and must agree with the model's."""
        case = self.gen(rng, tier, family=rng.choice(["linked", "linked", "boundary"]))
        case["family"] = "stateful"
        ents, nent = case["ents"], len(case["ents"])
        lat = {(a, b): l for a, b, l in case["links"]}
        lmin = min((l[2] for l in case["links"]), default=1_000_000)
        w = trunc_ns(case["window"] if case["window"] is not None else lmin) or 1
        kinds = [x[2] for x in case["init"]] + [x[1] for x in case["prog"]] + [x[4] for x in case["prog"]]
        nk = max(kinds, default=0) + 1
        if rng.random() < 0.6:
            # snap instants and integer delays to a coarse grid: many ties
            g = max(1, rng.choice([w, w // 2, w // 2, w // 4]))
            for x in case["init"]:
                x[0] = (x[0] // g) * g
            for x in case["prog"]:
                if len(x) == 5:
                    l = lat.get((ents[x[0]], ents[x[3]]))
                    d = (x[2] // g) * g
                    if l is not None and ents[x[0]] != ents[x[3]]:
                        while d < trunc_ns(l):
                            d += g
                    x[2] = d
        sprog = []
        for _ in range(rng.randint(1, 4)):
            e = rng.randrange(nent)
            remote = [t for t in range(nent) if ents[t] != ents[e] and (ents[e], ents[t]) in lat]
            if remote and rng.random() < 0.5:
                t = rng.choice(remote)
                l = trunc_ns(lat[(ents[e], ents[t])])
                d = l + rng.choice([0, 0, 1, w // 2, w])
            else:
                t = rng.choice([x for x in range(nent) if ents[x] == ents[e]])
                d = rng.choice([0, 1, w // 2, w, w - 1, lmin])
            k2 = rng.randrange(nk + 1)
            if rng.random() < 0.5:
                sprog.append(["nth", e, rng.randint(1, 5), d, t, k2])
            else:
                sprog.append(["dedup", e, rng.randrange(nk + 1), d, t, k2])
        # timers that are cancelled before (or exactly when, or after) they expire
        for _ in range(rng.choice([0, 0, 1, 1, 2])):
            e = rng.randrange(nent)
            dc = rng.choice([0, 1, w // 4, w // 2, w - 1, w])
            dt = rng.choice([dc, dc + 1, dc + w // 4, dc + w, max(0, dc - 1), 2 * w])
            sprog.append(["tmr", e, rng.randrange(nk + 1), dt, nk + 6, dc, nk + 7])
        # planted tie of two cross-partition arrivals from different source partitions (plus a self-sent event) at one
        # entity: their order is the order in which the barrier exchange walks the outboxes
        trip = [(a, b, t) for t in range(nent) for a in range(nent) for b in range(nent)
                if a < b and len({ents[a], ents[b], ents[t]}) == 3 and (ents[a], ents[t]) in lat and (ents[b], ents[t]) in lat]
        if trip and rng.random() < 0.6:
            a, b, t = rng.choice(trip)
            la, lb = trunc_ns(lat[(ents[a], ents[t])]), trunc_ns(lat[(ents[b], ents[t])])
            trig = nk + 2
            arr = max(la, lb) + w * rng.choice([0, 1, 2, 3]) + rng.choice([0, 0, 1, w // 2])
            if rng.random() < 0.5:
                arr = (arr // w + 1) * w                       # exactly on a window boundary
            da = la + rng.choice([0, 0, w // 2, w])
            db = lb + rng.choice([0, 0, 1, w // 2])
            da, db = min(da, arr), min(db, arr)
            case["prog"] += [[a, trig, da, t, nk + 3], [b, trig, db, t, nk + 4]]
            case["init"] += [[arr - da, a, trig], [arr - db, b, trig]]
            if rng.random() < 0.5:
                case["prog"].append([t, trig, w // 2 + 1, t, nk + 5])
                if arr - (w // 2 + 1) >= 0:
                    case["init"].append([arr - (w // 2 + 1), t, trig])
            if case["end"] is not None and case["end"] < arr:
                case["end"] = arr + rng.choice([0, 1, w])
        case["sprog"] = sprog
        return case

    def gen_timers(self, rng, tier):
        """family timers: a partition whose next pending events are *cancelled* timers (armed and cancelled inside the
        current window by a stateful entity), whose next live event lies windows ahead, and which receives a
        cross-partition event due in between (just after / a fraction of a window after / on the next boundary after the
        window end).  The cancelled events must be skipped without the partition running past the barrier.  Controls:
        timers that expire before / exactly when / after their canceller runs, timers beyond the window end, several
        cancelled timers in a row, a live event between the cancelled timer and the window end."""
        nparts = rng.choice([2, 2, 3])
        ents = [0, 1] + ([rng.choice([0, 1, nparts - 1])] if rng.random() < 0.3 else [])
        L = rng.choice([1_000, 100_000, 1_000_000, 10_000_000, 3_000_000, 100_000_000])
        links = [[0, 1, L * rng.choice([1, 1, 2])], [1, 0, L * rng.choice([1, 1, 2])]]
        if len(ents) == 3 and ents[2] == 2:
            links += [[0, 2, L], [2, 1, L], [1, 2, L]]
        lat = {(a, b): l for a, b, l in links}
        window = rng.choice([None, L, L, L // 2, max(1, L - 1)])
        w = window if window is not None else L
        K_TRIG_A, K_START, K_MSG, K_TICK, K_T, K_C, K_REPLY = 0, 1, 2, 3, 4, 5, 6
        prog, sprog, init = [], [], []
        a, b = (0, 1) if rng.random() < 0.7 else (1, 0)
        dx = lat[(a, b)] + rng.choice([0, 0, 1, w // 2])
        prog.append([a, K_TRIG_A, dx, b, K_MSG])
        if rng.random() < 0.4:
            prog.append([b, K_MSG, lat[(b, a)] + rng.choice([0, 1]), a, K_REPLY])
        ntm = rng.choice([1, 1, 2, 3])
        tms = []
        for j in range(ntm):
            dc = rng.choice([1, 1, w // 10 + 1, w // 4, 0])
            dt = rng.choice([dc + 1, dc + w // 10 + 1, w // 3, w // 2, dc, max(0, dc - 1), w + w // 2])
            tms.append((dt, dc))
            sprog.append(["tmr", b, K_START, dt, K_T, dc, K_C])
        big = rng.choice([w + w // 2, 2 * w + 1, 3 * w, 7 * w, 20 * w])
        prog.append([b, K_START, big, b, K_TICK])
        if rng.random() < 0.25:
            prog.append([b, K_START, rng.choice([w // 2, w - 1, w // 3]), b, K_TICK])      # control: a live event in between
        k0 = 0
        for _burst in range(rng.choice([1, 1, 2])):
            m = k0 + rng.choice([1, 1, 2, 3, 5]) + dx // w + 1
            room = max(1, w - max(dt for dt, _ in tms if dt <= w) if any(dt <= w for dt, _ in tms) else w // 2)
            t0 = m * w + rng.choice([0, 1, room // 2, max(0, room - 1), rng.randrange(0, room)])
            x = rng.choice([1, 1, 2, w // 4, w // 2, w - 1, w, w + 1])
            arr = (m + 1) * w + x
            if arr >= t0 + big:
                arr = (m + 1) * w + 1
            init.append([t0, b, K_START])
            init.append([arr - dx, a, K_TRIG_A])
            if rng.random() < 0.3:
                init.append([arr + rng.choice([0, 1, -1]), b, K_TICK])       # a local delivery around the arrival
            k0 = (t0 + big) // w + 1
        if len(ents) == 3 and rng.random() < 0.5:
            init.append([rng.randrange(0, (k0 + 1) * w), 2, K_TICK])
        end = rng.choice([None, None, (k0 + 2) * w, (k0 + 2) * w + 1, arr, arr + 1])
        return dict(family="timers", nparts=nparts, ents=ents, links=links, window=window, end=end,
                    prog=prog, sprog=sprog, init=init, reps=1)

    def gen_tiex(self, rng, tier):
        """family tiex: two partitions with one stateful entity each, links both ways, everything on a grid of half the
        link latency, so that a cross-partition arrival and a local (self-sent) delivery often carry one timestamp.
        Rules include the order-sensitive `first` (answer kind A only while no kind B has been delivered).  Where the
        two runs deliver such a tie in different orders and the entity cares, the logs diverge:
        known finding fixes/C05-tie-order-sensitive-handlers.known.md; the judge names it par/tie-order/…."""
        nparts = rng.choice([2, 2, 3])
        ents = [0, 1]
        L = rng.choice([1_000, 100_000, 1_000_000, 10_000_000, 3_000_000])
        L01, L10 = L * rng.choice([1, 1, 2]), L * rng.choice([1, 1, 2])
        links = [[0, 1, L01], [1, 0, L10]]
        if nparts == 3 and rng.random() < 0.5:
            links.append([rng.choice([0, 1]), 2, L])
        lat = {(0, 1): L01, (1, 0): L10}
        window = rng.choice([None, L, L, L // 2, max(1, L - 1)])
        w = window if window is not None else L
        g = L // 2
        nk = rng.choice([3, 4, 5])
        prog = []
        for e in (0, 1):
            o = 1 - e
            for k in range(nk - 1):
                for _ in range(rng.choice([0, 1, 1, 2])):
                    k2 = rng.randint(k + 1, nk - 1)
                    if rng.random() < 0.5:
                        prog.append([e, k, lat[(e, o)] + g * rng.choice([0, 0, 0, 1, 2]), o, k2])
                    else:
                        prog.append([e, k, g * rng.choice([1, 1, 2, 2, 3, 4]), e, k2])
        sprog = []
        for _ in range(rng.randint(1, 3)):
            e = rng.choice([0, 1])
            o = 1 - e
            ka = rng.randint(0, nk - 1)
            kb = rng.choice([k for k in range(nk) if k != ka])
            k2 = rng.randint(ka + 1, nk) if ka + 1 <= nk else nk
            if rng.random() < 0.5:
                sprog.append(["first", e, ka, kb, g * rng.choice([0, 1, 2]), e, k2])
            else:
                sprog.append(["first", e, ka, kb, lat[(e, o)] + g * rng.choice([0, 1]), o, k2])
        if rng.random() < 0.4:
            e = rng.choice([0, 1])
            sprog.append(rng.choice([["nth", e, rng.randint(2, 4), g, e, rng.randrange(nk)],
                                     ["dedup", e, rng.randrange(nk), lat[(e, 1 - e)], 1 - e, rng.randrange(nk)]]))
        init = [[g * rng.choice([0, 0, 1, 2, 3, 4, 6]), rng.choice([0, 1]), rng.choice([0, 0, 0, 1])]
                for _ in range(rng.randint(2, 5))]
        if rng.random() < 0.5:
            # a planted tie: `a` sends kind kx across the link, `b` sends itself kind ky, both due at one instant; the
            # cross event is created first (sequentially it is delivered first); `b` answers one of the two kinds
            # only while it has not seen the other
            a = rng.choice([0, 1])
            b = 1 - a
            kx, ky, kz = nk, nk + 1, nk + 2
            t0 = g * rng.choice([0, 1, 2, 3, 5])
            dx = lat[(a, b)] + g * rng.choice([0, 0, 0, 1, 2])
            off = g * rng.randint(1, max(1, dx // g - 1)) if rng.random() < 0.8 else 0
            off = min(off, dx)
            trig = nk + 3
            prog.append([a, trig, dx, b, kx])
            prog.append([b, trig, dx - off, b, ky])
            init += [[t0, a, trig], [t0 + off, b, trig]]
            if rng.random() < 0.7:
                sprog.insert(0, ["first", b, kx, ky, g * rng.choice([0, 1, 1, 2]), b, kz])
            else:
                sprog.insert(0, ["first", b, ky, kx, lat[(b, a)] + g * rng.choice([0, 1]), a, kz])
        ke = rng.choice([3, 5, 8, 13])
        end = rng.choice([None, None, ke * w, ke * w + 1, ke * w + g])
        return dict(family="tiex", nparts=nparts, ents=ents, links=links, window=window, end=end,
                    prog=prog, sprog=sprog, init=init, reps=1)

    def gen(self, rng, tier, family):
        nparts = rng.choice([2, 2, 3, 3, 4]) if family != "indep" else rng.choice([1, 2, 3, 4])
        nent = rng.randint(1, 6)
        ents = [rng.randrange(nparts) for _ in range(nent)]
        if family != "indep" and nent >= 2 and len(set(ents)) == 1:
            ents[-1] = (ents[0] + 1) % nparts
        L = rng.choice([1_000_000, 10_000_000, 100_000_000, 7_000_000, 29_000_000, 1_000, 65_000, 3_000_000])
        decimal = rng.random() < 0.35
        if decimal:
            L = pick_decimal_lat(rng)
        links = []
        if family != "indep":
            pairs = [(a, b) for a in range(nparts) for b in range(nparts) if a != b]
            rng.shuffle(pairs)
            keep = pairs[: rng.randint(1, len(pairs))]
            # make sure partitions that host entities can talk
            used = sorted(set(ents))
            for a in used:
                for b in used:
                    if a != b and (a, b) not in keep and rng.random() < 0.7:
                        keep.append((a, b))
            for (a, b) in keep:
                links.append([a, b, fix_lat(rng.choice([L, L, L + 1, 2 * L, 3 * L]))])
            if decimal and rng.random() < 0.5:
                # several different decimal minima in one model
                for ln in links:
                    if rng.random() < 0.5:
                        ln[2] = max(L, pick_decimal_lat(rng))
        lmin = min((l[2] for l in links), default=L)
        lat = {(a, b): l for a, b, l in links}
        window = None
        if links:
            window = rng.choice([None, lmin, lmin, max(1000, lmin - 1), max(1000, lmin // 2), max(1000, lmin // 3)])
            if decimal and rng.random() < 0.4:
                # a window written as a decimal number of seconds (1-4 fractional digits), at most the minimum latency
                digits = rng.choice([1, 2, 3, 4])
                unit = 10 ** (9 - digits)
                while unit > lmin:
                    unit //= 10
                window = rng.randint(max(1, lmin // (4 * unit)), lmin // unit) * unit
        w = trunc_ns(window if window is not None else lmin) or 1
        # end time
        ke = rng.choice([1, 2, 3, 5, 8, 13])
        end = rng.choice([None, ke * w, ke * w + 1, max(1, ke * w - 1), ke * w + w // 2, 1_001_000_000 if w >= 10_000_000 else 65_000])
        if end is not None and end // max(w, 1) > 3000:
            end = 3000 * w
        horizon = (end if end is not None else 13 * w)

        def boundary_time():
            k = rng.choice([0, 1, 1, 2, 3, 5, 8])
            return max(0, k * w + rng.choice([0, 0, -1, 1, w // 2]))

        def local_delay():
            return rng.choice([0, 0, 1, 1, 1000 if w > 2000 else 2, w, w - 1, w + 1, lmin, 2 * w, 7 * w, rng.randrange(0, 2 * w + 1)])

        def remote_delay(l):
            """[delay] in ns, or [delay, "s"]: the script passes `delay / 1e9` float seconds to the engine"""
            if decimal and rng.random() < 0.6:
                # exactly the declared minimum, written the way a user writes it (the same float that was
                # given to the link), and the integer-nanosecond neighbours of what that float becomes
                return rng.choice([[l, "s"], [l, "s"], [l, "s"], [trunc_ns(l)], [trunc_ns(l) + 1], [2 * l, "s"], [l + w, "s"]])
            ch = [l, l, l, l + 1, l + rng.randrange(0, w + 1), 2 * l, l + w, l + 7 * w]
            if family == "idle":
                ch += [l + 20 * w, l + 40 * w]
            return [rng.choice(ch)]

        nk = rng.choice([2, 3, 4, 5])
        prog = []
        dens = rng.choice([0.3, 0.5, 0.8])
        for e in range(nent):
            for k in range(nk - 1):
                if rng.random() > dens:
                    continue
                for _ in range(rng.choice([1, 1, 2, 3])):
                    k2 = rng.randint(k + 1, nk - 1)
                    mode = rng.random()
                    remote = [t for t in range(nent) if ents[t] != ents[e] and (ents[e], ents[t]) in lat]
                    localp = [t for t in range(nent) if ents[t] == ents[e]]
                    if mode < 0.55 and remote:
                        t = rng.choice(remote)
                        d = remote_delay(lat[(ents[e], ents[t])])
                    else:
                        t = e if rng.random() < 0.5 else rng.choice(localp)
                        d = [local_delay()]
                    prog.append([e, k, d[0], t, k2] + d[1:])
        init = []
        for _ in range(rng.randint(1, 6)):
            t = boundary_time() if family in ("boundary", "idle") or rng.random() < 0.5 else rng.randrange(0, horizon + 1)
            if family == "idle" and rng.random() < 0.5:
                t += rng.choice([10, 20, 30]) * w
            init.append([t, rng.randrange(nent), rng.choice([0, 0, 0, 1])])
        if family == "boundary" and init:
            # ties: several events on one instant
            t0 = init[0][0]
            for _ in range(rng.randint(0, 3)):
                init.append([t0, rng.randrange(nent), 0])
        # end_time exactly on the arrival of a cross-partition event (last-barrier boundary)
        arrivals = [t + eff_delay(x) for (t, e, k) in init for x in prog
                    if x[0] == e and x[1] == k and ents[x[3]] != ents[e]]
        if arrivals and rng.random() < (0.4 if family == "boundary" else 0.15):
            end = rng.choice(arrivals) + rng.choice([0, 0, 0, -1, 1])
            if end // max(w, 1) > 3000:
                end = 3000 * w
        case = dict(family=family, nparts=nparts, ents=ents, links=links, window=window, end=end,
                    prog=prog, init=init, reps=2)
        if family == "invalid":
            self.break_case(case, rng, lat, lmin)
        return case

    # offsets of an instant relative to the window grid, as fractions of the window / ±ns
    @staticmethod
    def grid_offsets(rng, w):
        return [0, 0, 1, 2, max(0, w - 1), max(0, w - 2), w // 2, max(0, w // 2 - 1), w // 2 + 1, w // 4, (3 * w) // 4,
                w // 3, (2 * w) // 3, rng.randrange(0, max(1, w))]

    def gen_wake(self, rng, tier):
        """family wake: every partition is idle for several windows, then a burst starts at an instant
        that is not aligned with the window grid (gap = m·w + off, off anywhere in the window incl.
        just below / at / just above the half window and 1 ns around a boundary): a sender delivers an
        event and emits cross-partition messages that take exactly (or 1 ns / a fraction of a window
        more than) the link's minimum latency; the destination partition has local deliveries just
        before / at / just after each arrival and on the next window boundaries; optional replies.
        Any coordinator that skips, merges or re-aligns windows over the idle stretch has to get all of
        these right."""
        nparts = rng.choice([2, 2, 2, 3, 3, 4])
        nent = rng.randint(2, 5)
        ents = [rng.randrange(nparts) for _ in range(nent)]
        if len(set(ents)) == 1:
            ents[-1] = (ents[0] + 1) % nparts
        L = rng.choice([1_000_000, 10_000_000, 100_000_000, 100_000_000, 7_000_000, 29_000_000, 1_000, 65_000, 3_000_000])
        decimal = rng.random() < 0.35
        if decimal:
            L = pick_decimal_lat(rng)
        used = sorted(set(ents))
        links = []
        for a in used:
            for b in used:
                if a != b:
                    links.append([a, b, fix_lat(rng.choice([L, L, L, L + 1, 2 * L, 3 * L]))])
        if all(l[2] != L for l in links):
            links[0][2] = L
        # a few links that touch empty partitions
        for a in range(nparts):
            for b in range(nparts):
                if a != b and (a not in used or b not in used) and rng.random() < 0.3:
                    links.append([a, b, fix_lat(rng.choice([L, 2 * L]))])
        lmin = min(l[2] for l in links)
        lat = {(a, b): l for a, b, l in links}
        window = rng.choice([None, None, lmin, lmin, max(1000, lmin - 1), max(1000, (3 * lmin) // 4), max(1000, lmin // 2)])
        w = trunc_ns(window if window is not None else lmin) or 1
        as_s = ["s"] if decimal else []      # decimal latencies: senders use the float they declared
        nk = rng.choice([3, 4, 5])
        tick = nk - 1                       # a kind that never emits: purely local deliveries
        prog = []
        senders = rng.sample(range(nent), rng.randint(1, min(3, nent)))
        for e in senders:
            remote = [t for t in range(nent) if ents[t] != ents[e]]
            if not remote:
                continue
            for _ in range(rng.choice([1, 1, 2])):
                t = rng.choice(remote)
                l = lat[(ents[e], ents[t])]
                d = rng.choice([l, l, l, l, l + 1, l + w // 4, l + w // 2, l + w])
                prog.append([e, 0, d, t, rng.randint(1, tick)] + (as_s if d == l or rng.random() < 0.5 else []))
            if rng.random() < 0.3:
                prog.append([e, 0, rng.choice([0, 1, w // 2, w, w - 1]), e, tick])
        # replies / forwarding from the middle kinds (again with the exact minimum latency)
        for e in range(nent):
            for k in range(1, tick):
                if rng.random() < 0.25:
                    remote = [t for t in range(nent) if ents[t] != ents[e]]
                    if remote:
                        t = rng.choice(remote)
                        l = lat[(ents[e], ents[t])]
                        d = rng.choice([l, l, l + 1, l + w // 2])
                        prog.append([e, k, d, t, rng.randint(k + 1, tick)] + (as_s if d == l else []))
        init = []
        if rng.random() < 0.5:
            init.append([0, rng.randrange(nent), tick])          # something at the start (boot)
        k0 = 0
        for _b in range(rng.randint(1, 3)):
            m = rng.choice([2, 2, 3, 3, 4, 5, 6, 7, 10, 20])
            off = rng.choice(self.grid_offsets(rng, w))
            g = (k0 + m) * w + off
            burst_end = g
            for e in rng.sample(senders, rng.randint(1, len(senders))):
                ge = g + rng.choice([0, 0, 0, 1, w // 4])
                init.append([ge, e, 0])
                for x in prog:
                    e2, k2, t, d = x[0], x[1], x[3], eff_delay(x)
                    if e2 != e or k2 != 0 or ents[t] == ents[e]:
                        continue
                    arr = ge + d
                    burst_end = max(burst_end, arr)
                    # local deliveries at the destination around the arrival
                    for _ in range(rng.choice([0, 1, 1, 2])):
                        nxt = (arr // w + 1) * w          # next window boundary after the arrival
                        dt = rng.choice([1, 1, 1, 2, 0, -1, w // 10 + 1, w // 4, nxt - arr, nxt - arr - 1, nxt - arr + 1,
                                         rng.randrange(1, w + 1)])
                        who = t if rng.random() < 0.6 else rng.choice([x for x in range(nent) if ents[x] == ents[t]])
                        init.append([max(0, arr + dt), who, tick])
                        burst_end = max(burst_end, arr + dt)
            k0 = burst_end // w + 1
        horizon = (k0 + 2) * w
        end = rng.choice([None, None, horizon, horizon + 1, k0 * w, k0 * w + w // 2])
        return dict(family="wake", nparts=nparts, ents=ents, links=links, window=window, end=end,
                    prog=prog, init=init, reps=1)      # max_workers 1 and N, once each

    def break_case(self, case, rng, lat, lmin):
        nent = len(case["ents"])
        ents = case["ents"]
        k = rng.random()
        if k < 0.3 and case["links"]:
            case["window"] = lmin + rng.choice([1, 1000, lmin, 100_000])  # ValueError
        elif k < 0.5:
            # reference to an entity in a partition without a link (ValueError) if one exists
            for e in range(nent):
                for t in range(nent):
                    if ents[e] != ents[t] and (ents[e], ents[t]) not in lat:
                        case["prog"].append([e, 0, lmin, t, 1])
                        return
            case["links"].append([0, 1, 0])                               # min_latency 0: ValueError
        else:
            # a delay below the link's min latency: RuntimeError at the barrier (if the emit is reached)
            for e in range(nent):
                for t in range(nent):
                    if (ents[e], ents[t]) in lat:
                        l = lat[(ents[e], ents[t])]
                        case["prog"].insert(0, [e, 0, max(0, trunc_ns(l) - rng.choice([1, 1, l // 2, l])), t, 1])
                        case["init"].insert(0, [rng.choice([0, 1, lmin]), e, 0])
                        return
            case["window"] = lmin + 1

    # ------------------------------------------------------------------ implementation
    def build_nodes(self, case):
        Node = _node_class()
        nent = len(case["ents"])
        scripts = [dict() for _ in range(nent)]
        for x in case["prog"]:
            e, k, d, t, k2 = x[:5]
            scripts[e].setdefault(k, []).append((d, t, k2, len(x) > 5))
        if "sprog" in case:
            SNode = _snode_class()
            nodes = [SNode(e, case["ents"][e], scripts[e], [tuple(r) for r in case["sprog"] if r[1] == e], list(case["ents"]))
                     for e in range(nent)]
            for r in case["sprog"]:
                if r[0] != "tmr":
                    nodes[r[1]].peers[r[-2]] = nodes[r[-2]]
        else:
            nodes = [Node(e, case["ents"][e], scripts[e]) for e in range(nent)]
        for x in case["prog"]:
            nodes[x[0]].peers[x[3]] = nodes[x[3]]
        for h in case.get("cb", ()):
            nodes[h].is_cb = True
        return nodes

    @staticmethod
    def _fmt(case, log, end):
        return _raw(log, end) if "sprog" in case else _canon(log, end)

    def run_parallel(self, case, workers):
        from happysimulator.core.event import Event
        from happysimulator.core.temporal import Instant
        from happysimulator.parallel.link import PartitionLink
        from happysimulator.parallel.partition import SimulationPartition
        from happysimulator.parallel.simulation import ParallelSimulation

        nodes = self.build_nodes(case)
        end = case["end"]
        lg = logging.getLogger("happysimulator.core.simulation")
        h = _TTCounter()
        lg.addHandler(h)
        old_disabled, old_level = lg.disabled, lg.level
        lg.disabled = False
        if not lg.isEnabledFor(logging.WARNING):
            lg.setLevel(logging.WARNING)
        try:
            latf = case.get("latf", {})          # link index -> [x, y]: min_latency is the derived float x/1e9 - y/1e9
            links = [PartitionLink(f"p{a}", f"p{b}", (latf[str(j)][0] / 1e9 - latf[str(j)][1] / 1e9) if str(j) in latf else l / 1e9)
                     for j, (a, b, l) in enumerate(case["links"])]
            parts = [SimulationPartition(name=f"p{i}", entities=[n for n in nodes if n.pid == i and not n.is_cb])
                     for i in range(case["nparts"])]
            kw = dict(links=links or None, max_workers=workers)
            if case["window"] is not None:
                kw["window_size"] = case["window"] / 1e9
            if case.get("start"):
                kw["start_time"] = Instant(case["start"])
            if case.get("dur") is not None:
                kw["duration"] = case["dur"] / 1e9          # end = start_time + duration
            elif end is not None:
                kw["end_time"] = Instant(end)
            ps = ParallelSimulation(parts, **kw)
            for t, e, k in case["init"]:
                ps.schedule(Event(time=Instant(t), event_type=f"k{k}", target=nodes[e]), partition=f"p{nodes[e].pid}")
            summ = ps.run()
        finally:
            lg.removeHandler(h)
            lg.disabled = old_disabled
            lg.setLevel(old_level)
        out = [f"par {n.eid} {self._fmt(case, n.log, end)}".rstrip() for n in nodes]
        sent = sum(n.sent_remote for n in nodes)
        tail = [f"tt {h.n}", f"cross {sent} {summ.total_cross_partition_events}", f"windows {summ.total_windows}"]
        return out, tail

    def run_sequential(self, case):
        from happysimulator.core.event import Event
        from happysimulator.core.simulation import Simulation
        from happysimulator.core.temporal import Instant

        nodes = self.build_nodes(case)
        end = case["end"]
        skw = {}
        if case.get("start"):
            skw["start_time"] = Instant(case["start"])
        if case.get("dur") is not None:
            skw["duration"] = case["dur"] / 1e9
        elif end is not None:
            skw["end_time"] = Instant(end)
        sim = Simulation(entities=[n for n in nodes if not n.is_cb], **skw)
        for t, e, k in case["init"]:
            sim.schedule(Event(time=Instant(t), event_type=f"k{k}", target=nodes[e]))
        sim.run()
        xs = sorted({(a, b, d) for n in nodes for (t, a, b, d) in n.xsends if end is None or t <= end})
        return ([f"seq {n.eid} {self._fmt(case, n.log, end)}".rstrip() for n in nodes],
                [f"xs {a} {b} {d}" for a, b, d in xs])

    def run_impl(self, case):
        with warnings.catch_warnings():
            warnings.simplefilter("ignore")
            try:
                par, tail = self.run_parallel(case, 1)
            except Exception as e:  # noqa: BLE001 - any abort of the parallel run is an observation
                # the parallel run was aborted: report what the sequential run of the same model does
                # (its deliveries and its cross-partition emissions), for the `valid configuration` clause
                seq, xs = self.run_sequential(case)
                return [f"err {type(e).__name__}"] + seq + xs
            extra = []
            n = len(case["ents"])
            for rep in range(1, 2 * max(1, case.get("reps", 1))):
                workers = 1 if rep % 2 == 0 else None
                try:
                    p2, t2 = self.run_parallel(case, workers)
                except Exception as e:  # noqa: BLE001
                    p2, t2 = [f"err {type(e).__name__}"], []
                if p2 != par or t2 != tail:
                    extra += [f"rep {rep} " + x for x in p2 + t2]
            seq, _xs = self.run_sequential(case)
        return par + seq + tail + extra

    # ------------------------------------------------------------------ model / judge
    @staticmethod
    def _t(x):
        return "inf" if x is None else str(x)

    def model_block(self, case, variant):
        body = [f"ent {e} {p}" for e, p in enumerate(case["ents"])]
        body += [f"link {a} {b} {l}" for a, b, l in case["links"]]
        body += ["emit " + " ".join(map(str, x)) for x in case["prog"]]
        body += ["init " + " ".join(map(str, x)) for x in case["init"]]
        w = "none" if case["window"] is None else str(case["window"])
        st = f" {case['start']}" if case.get("start") else ""
        if "sprog" in case:
            body += ["s" + " ".join(map(str, r)) for r in case["sprog"]]
            return (f"runs {variant} {case['nparts']} {w} {self._t(case['end'])}{st}", body)
        return (f"run {variant} {case['nparts']} {w} {self._t(case['end'])}{st}", body)

    def judge_block(self, case, impl_out):
        if not impl_out or impl_out[0].startswith("IMPL-"):
            return None
        if impl_out[0].startswith("err "):
            # aborted parallel run: the Spec decides whether the configuration was inside the hypothesis
            body = [f"ent {e} {p}" for e, p in enumerate(case["ents"])]
            body += [f"link {a} {b} {l}" for a, b, l in case["links"]]
            body += ["emit " + " ".join(map(str, x)) for x in case["prog"]]
            w = "none" if case["window"] is None else str(case["window"])
            return (f"judge-err {case['nparts']} {w}", body + list(impl_out))
        w = "none" if case["window"] is None else str(case["window"])
        cfg = [f"link {a} {b} {l}" for a, b, l in case["links"]]
        if "sprog" in case:
            return (f"judges {self._t(case['end'])} cfg {w}", cfg + [f"ent {e} {p}" for e, p in enumerate(case["ents"])] + list(impl_out))
        return (f"judge {self._t(case['end'])} cfg {w}", cfg + list(impl_out))

    def nontrivial_key(self, case, impl_out):
        for line in impl_out:
            if line.startswith("cross "):
                if int(line.split()[1]) > 0:
                    return core.json.dumps(case, sort_keys=True)
        return None

    def shrink(self, case):
        for key in ("init", "sprog", "prog", "links"):
            if key not in case:
                continue
            xs = case[key]
            n = len(xs)
            step = max(1, n // 2)
            while step >= 1:
                for i in range(0, n, step):
                    cand = dict(case)
                    cand[key] = xs[:i] + xs[i + step:]
                    if len(cand[key]) < n and (key != "init" or cand[key]):
                        yield cand
                step //= 2
        if case.get("reps", 1) > 1:
            yield dict(case, reps=1)
        if case["end"] is not None:
            yield dict(case, end=None)

    def mutate(self, case, rng):
        """timing mutations around window multiples (±1 ns, ±w/2, whole windows, re-gridding one
        instant, shifting everything after an instant = inserting / stretching an idle gap), remote
        delays set to exactly the link latency, a local delivery put just after a cross arrival"""
        c = dict(case)
        c["init"] = [list(x) for x in case["init"]]
        c["prog"] = [list(x) for x in case["prog"]]
        lmin = min((l[2] for l in case["links"]), default=1_000_000)
        w = case["window"] or lmin
        ents = case["ents"]
        lat = {(a, b): l for a, b, l in case["links"]}
        kinds = [x[2] for x in c["init"]] + [x[4] for x in c["prog"]]
        tick = max(kinds, default=0)
        if rng.random() < 0.3:
            self.splice_burst(c, rng, w, lat, tick)
        for _ in range(rng.randint(1, 3)):
            k = rng.random()
            if k < 0.15 and c["init"]:
                x = rng.choice(c["init"])
                x[0] = max(0, x[0] + rng.choice([-1, 1, w, -w, w // 2]))
            elif k < 0.3 and c["init"]:
                # re-grid one instant: same window index, another offset inside the window
                x = rng.choice(c["init"])
                x[0] = (x[0] // w + rng.choice([0, 0, 1, 2, 5])) * w + rng.choice(self.grid_offsets(rng, w))
            elif k < 0.5 and c["init"]:
                # stretch / insert an idle gap: everything from some instant on moves later
                t0 = rng.choice(c["init"])[0]
                dlt = rng.choice([1, w // 2, w // 2 + 1, w // 4, (3 * w) // 4, w - 1, w,
                                  rng.choice([2, 3, 5, 10]) * w + rng.choice(self.grid_offsets(rng, w))])
                for x in c["init"]:
                    if x[0] >= t0:
                        x[0] += dlt
            elif k < 0.58 and c["init"]:
                c["init"].append(list(rng.choice(c["init"])))
            elif k < 0.7 and c["prog"]:
                x = rng.choice(c["prog"])
                x[2:] = [eff_delay(x) + rng.choice([0, 1, w, 2 * w]), x[3], x[4]]
            elif k < 0.8 and c["prog"]:
                # a cross-partition emit takes exactly the declared minimum
                rem = [x for x in c["prog"] if (ents[x[0]], ents[x[3]]) in lat]
                if rem:
                    x = rng.choice(rem)
                    l = lat[(ents[x[0]], ents[x[3]])]
                    if rng.random() < 0.5:
                        x[2:] = [l, x[3], x[4], "s"]          # the declared float itself
                    else:
                        x[2:] = [trunc_ns(l) + rng.choice([0, 0, 0, 1]), x[3], x[4]]
            elif k < 0.95 and c["prog"] and c["init"]:
                # a local delivery at the destination just before / at / after a cross arrival
                cand = [(t + eff_delay(x), x[3]) for (t, e, kk) in c["init"] for x in c["prog"]
                        if x[0] == e and x[1] == kk and ents[x[3]] != ents[e] and x[3] not in c.get("cb", ())]
                if cand:
                    arr, tgt = rng.choice(cand)
                    nxt = (arr // w + 1) * w
                    dt = rng.choice([1, 1, 2, 0, -1, w // 10 + 1, w // 4, nxt - arr, nxt - arr - 1, rng.randrange(1, w + 1)])
                    c["init"].append([max(0, arr + dt), tgt, tick])
            elif c["end"] is not None:
                c["end"] = max(1, c["end"] + rng.choice([-1, 1, w]))
        return c


    def splice_burst(self, c, rng, w, lat, tick):
        """append a wake-up burst to a case: after everything scheduled so far plus an idle stretch of
        m windows and an offset inside the window, one existing cross-partition emit is triggered again
        (its delay set to the link minimum) and its destination gets a local delivery near the arrival"""
        ents = c["ents"]
        rem = [x for x in c["prog"] if (ents[x[0]], ents[x[3]]) in lat and x[0] not in c.get("cb", ())]
        if not rem:
            return
        x = rng.choice(rem)
        if rng.random() < 0.7:
            x[2:] = [trunc_ns(lat[(ents[x[0]], ents[x[3]])]), x[3], x[4]]
        last = max([t for t, _e, _k in c["init"]], default=0)
        g = (last // w + rng.choice([2, 3, 4, 5, 7, 10])) * w + rng.choice(self.grid_offsets(rng, w))
        c["init"].append([g, x[0], x[1]])
        arr = g + eff_delay(x)
        nxt = (arr // w + 1) * w
        for _ in range(rng.choice([1, 1, 2])):
            dt = rng.choice([1, 1, 2, w // 10 + 1, w // 4, nxt - arr, nxt - arr - 1, rng.randrange(1, w + 1)])
            c["init"].append([arr + dt, x[3], tick])
        if c["end"] is not None and c["end"] < arr + 2 * w:
            c["end"] = rng.choice([None, arr + 2 * w])


THEOREMS: list[str] = [
    "HappyModel.C05.no_time_travel",
    "HappyModel.C05.no_time_travel_run",
    "HappyModel.C05.exchange_conserves",
    "HappyModel.C05.partition_order",
    "HappyModel.C05.seq_order",
    "HappyModel.C05.independent_eq_separate",
    "HappyModel.C05.par_eq_seq_partial",
    "HappyModel.C05.par_eq_seq_full_false_for_order_sensitive_handlers",
    "HappyModel.C05.tie_witness_logs",
    "HappyModel.C05.confluence",
    "HappyModel.C05.confluence_noties",
    "HappyModel.C05.par_eq_seq_tie_commutative",
    "HappyModel.C05.par_eq_seq_no_ties",
    "HappyModel.C05.par_eq_seq_no_ties_observed",
    "HappyModel.C05.seq_final_state",
    "HappyModel.C05.countHandler_tieCommutative",
    "HappyModel.C05.agree_before_first_tie",
    "HappyModel.C05.confluence_prefix",
    "HappyModel.C05.par_execR",
    "HappyModel.C05.par_eq_seq_tie_commutative_R",
    "HappyModel.C05.par_eq_seq_no_ties_R",
    "HappyModel.C05.agree_before_first_tie_R",
    "HappyModel.C05.ruleHandler_commAt",
    "HappyModel.C05.ghost_is_silent",
    "HappyModel.C05.parallelRunFrom_spec",
    "HappyModel.C05.judgeAccepted_none_iff",
    "HappyModel.C05.ruleHandlerL_eq",
    "HappyModel.C05.no_time_travel_current_false",
    "HappyModel.C05.idle_skip_safe",
    "HappyModel.C05.idle_window_noop",
    "HappyModel.C05.sched_no_time_travel",
    "HappyModel.C05.idle_skip_round_unsafe",
    "HappyModel.C05.valid_config_never_rejected",
    "HappyModel.C05.valid_conf_respects_minimum",
]
C05.theorems = THEOREMS
PROPERTY = C05()
