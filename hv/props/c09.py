"""C09 — capacity primitives never over-admit or leak, wake in order, and let time pass.

Modelled and compared (Lean: `HappyModel/C09/{Resource,Sync,Pool}.lean`, Spec predicates in
`Spec.lean`, `SyncSpec.lean`, `Pool.lean`): `Resource`, `Mutex`, `Semaphore`, `RWLock`, `Barrier`,
`Condition` (+ its mutex), `ConnectionPool.acquire/release`, the three non-blocking concurrency limiters
of `server/concurrency.py`; `Bulkhead`, `ThreadPool`, `PreemptibleResource` (module `c09_extra.py`,
Lean `HappyModel/C09/{Bulkhead,ThreadPool,Preempt,ExtraDriver}.lean`).

Correspondence: the real objects from /repo are driven (a) directly by generated operation
streams, including malformed ones (`*-direct` families), and (b) by generated worker processes
inside a real `Simulation` (`*-engine` families).  In (b) the *schedule* — which call / generator
segment ran at which delivery, with the clock value — is taken from the implementation run and fed
to the Lean model, which recomputes every result, wake list and public counter, and predicts that
each woken process resumes exactly once, at the clock value of its wake-up, without consuming
deliveries while blocked.  The Lean Spec predicates judge the implementation's own transcript.

`Resource.set_capacity` (and the `ReduceCapacity` fault that calls it) is an operation of the Resource model:
the capacity may drop below the held amount, `available` goes negative, nothing is granted until the
excess has been released, waiters are woken FIFO on an increase.

The models describe the tree with `fixes/C09-sync-spin-wait.diff` and
`fixes/C09-pool-reserve-slot.diff` applied; on the unchanged tree the check reports
`*/wait/clock-stuck` and `pool/total/exceeds-max` (witnesses in `corpus/C09/`).
"""
from __future__ import annotations

import atexit
import hashlib
import json
import os
import random
import shutil
import tempfile
import time
from pathlib import Path

from hv import core
from hv.props import c09_extra

# Import the implementation once in the checking process (hv.core has put HV_REPO first on sys.path):
# the forked implementation workers then inherit the loaded modules instead of importing the
# package 16 times under load, which made single cases hit the per-case alarm.
import happysimulator.components.client.connection_pool  # noqa: E402,F401
import happysimulator.components.resource  # noqa: E402,F401
import happysimulator.components.server.concurrency  # noqa: E402,F401
import happysimulator.components.sync  # noqa: E402,F401
import happysimulator.core.simulation  # noqa: E402,F401

# One C09 case costs well under a millisecond of implementation time; hv.core's fork pool (16 forks of
# a process that has the whole package imported, on a loaded machine) was measured 50x slower than the
# in-process loop for 300 cases (10 s vs 0.2 s) and let single cases hit the per-case alarm.  HV_SERIAL
# is hv.core's documented switch for the in-process loop; the per-case alarm still applies.
os.environ.setdefault("HV_SERIAL", "1")

TICK = 125_000_000  # ns; 1/8 s, so `yield ticks/8` is exact in float and in int(delay * 1e9)
# restrictions P1-P3 of the pool-engine family lifted (set when the tree carries fixes/C09-pool-abandoned-waiter.diff)
POOL_LIFT = os.environ.get("HV_C09_POOL_LIFT", "1") == "1"
SPIN_LIMIT = 300    # watchdog: resumptions of one blocked process before it gives up
END_NS = 10**15
CALL_OPS = {"acq", "try", "acqr", "acqw", "tryr", "tryw", "wait"}
RESULTS = {"granted", "queued", "refused", "released", "noop", "resized", "passed", "ok", "err:ValueError", "err:RuntimeError"}

# Engine-family transcripts travel from the forked implementation workers to the parent (which
# builds the model block from the schedule they contain) through a per-run scratch directory:
# `Property.model_block` does not receive the implementation output.  The directory name carries
# the pid and start time of the checking process, so nothing is ever reused across runs.
_ROOT_PID = os.getpid()
_CACHE_DIR = Path(tempfile.gettempdir()) / f"hv-c09-{os.getuid()}" / f"{_ROOT_PID}-{time.time_ns()}"
_MEM: dict = {}


def _cleanup():
    if os.getpid() == _ROOT_PID:
        shutil.rmtree(_CACHE_DIR, ignore_errors=True)


atexit.register(_cleanup)


def _key(case):
    return hashlib.sha256(json.dumps(case, sort_keys=True).encode()).hexdigest()


def ids(xs):
    xs = list(xs)
    return ",".join(str(x) for x in xs) if xs else "-"


class C09(core.Property):
    id = "C09"
    driver = "drv-c09"
    lake_targets = ["HappyProofs.C09.Props", "drv-c09"]
    audit_imports = ["HappyProofs.C09.Props"]
    lean_files = ["HappyModel/C09/*.lean", "HappyProofs/C09/*.lean", "HappyModel/Proto.lean", "Driver/C09.lean"]
    theorems = []
    quick_cases = 4000
    thorough_cases = 120000
    case_timeout_s = 20
    rule = ("families (round robin): res-direct = ≤60 acquire/try_acquire/release/set_capacity calls on one Resource, capacity 1–8, amounts incl. 0, "
            "negative, capacity+1, double/unknown releases, set_capacity below / equal to / above the held amount and with 0 or negative values "
            "(in 60% of the cases; the others keep a fixed capacity); res-engine = 2–16 worker processes in a real Simulation (arrival 0–4 ticks of "
            "1/8 s, many ties, hold 0–3 ticks, optional second nested acquire, double release; in 25% a controller entity calling set_capacity at "
            "1–3 ticks, in 15% the real ReduceCapacity fault with 1–2 possibly overlapping windows and integral effective capacities); sync-direct / sync-engine = the same for "
            "Mutex, Semaphore(1–4), RWLock(max_readers None/1/2/3), Barrier(1–4 parties) incl. malformed releases, reset/abort; "
            "cond-engine = consumers/producers on Condition+Mutex; pool-engine = 2–10 workers on ConnectionPool(max 1–3, set-up latency "
            "0–1 s, timeout 0.5–2 s) incl. arrivals during set-up, timeouts, double release, second cycle; in 55% of the pool cases the rest of the "
            "pool's life: idle-timeout closing (idle_timeout 1–64 ticks, the events release() returns are scheduled), min_connections 0–max with 1–2 warm-up "
            "processes racing the workers, and 1–3 acquirers abandoned mid-acquire — the generator inside acquire() closed by a harness entity, or its "
            "entity crashed by a real CrashNode fault so that the engine drops the continuation — aimed at the set-up window (both ends included), "
            "the queued phase, the instant of a hand-off, the holding phase (restrictions P1–P3, `_pool_restrict`, until fixes/C09-pool-abandoned-waiter.diff "
            "is in the tree: such cases get max >= workers + min so that nobody queues); conc-direct = ≤50 acquire/release/"
            "set_limit calls on Fixed/Dynamic/WeightedConcurrency; (one case in six, hv/props/c09_extra.py) bulkhead-engine = 2–8 (thorough 12) requests, "
            "max_concurrent 1–3, wait queue 0–3, wait time None/1–4 ticks, hold 0–3 ticks or immediate return; tpool-engine = 2–12 tasks, 1–3 workers, queue capacity "
            "None/0–3, processing 0–3 ticks; preempt-direct = 3–40 acquire/release calls, capacity 1–4, amounts 1–cap plus malformed, priorities 0–3 with ties, preempt "
            "flag, double release, release of a preempted / not-yet-given / unknown grant; in 70% of the preempt cases acquires carry a callback program run inside the grant's "
            "on_preempt callback on the same resource (release of its own grant, of dead / unknown grants; with HV_C09_PREEMPT_CB_LIFT=1 also release of another holder, "
            "of the co-victim of the same round, of a waiter, nested acquires with/without preemption carrying programs themselves, counter queries — "
            "restricted until fixes/C09-preempt-callback-reentrancy.diff is in the tree). A case is non-trivial when at "
            "least one caller was queued and at least one was woken/handed over (pool: at least one caller waited, an abandonment changed the pool, "
            "an idle connection was closed or a warm-up connection was parked); distinct = distinct case content")
    trusted_base = [
        "hv/props/c09_extra.py adapters: Bulkhead and ThreadPool are subclassed only to log public counters around the public handle_event / handle_queued_event; "
        "the handle_event of ThreadPool.queue and ThreadPool.driver (public properties) is wrapped per instance; which request a _bh_response / _bh_timeout delivery "
        "belongs to is read from the request_id in the events the public handle_event returned; whether a timeout removed a waiter is read from queue_depth; "
        "preempt-direct: woken waiters are read from the public SimFuture.is_resolved, eviction order from the on_preempt callbacks; the callbacks registered by the harness "
        "log a line when they fire and then perform the case's callback program through the public acquire()/release() of the same resource, logging the public counters "
        "from inside the callback; acquire calls are numbered in the order they return",
        "hv/props/c09.py adapters (drive the real objects, canonical transcript)",
        "engine families: the order and clock values of the calls are taken from the implementation run (schedule replay); "
        "the engine's own ordering rule is C01/C02's subject",
        "Resource direct family: which futures are resolved is read from the public SimFuture.is_resolved",
        "Resource engine family: set_capacity calls (controller entity, ReduceCapacity fault) are logged by wrapping the public method on the harness's Resource object",
        "sync/pool engine families: which callers a release woke is inferred from the public waiters counter (the first k of the harness's "
        "arrival-ordered pending list) and confirmed by which process is then seen resuming; sync direct family: by polling the blocked generators with next()",
        "granted-vs-queued of a blocking sync call is read from the public waiters counter right after the first segment",
        "pool-engine: the handle_event of the pool entity is wrapped per instance to log `_pool_idle_timeout` deliveries (connection id and expected_last_used "
        "are read from the event's context metadata; closed / kept / stale from total_connections and the returned events) and the segments of the warm-up "
        "generator; an abandonment is produced by closing the generator acquire() returned (harness killer entity) or by a CrashNode fault on the worker entity "
        "(the dropped process is finalised by CPython reference counting at the instant its continuation is discarded; the worker's GeneratorExit handler "
        "closes the acquire generator and logs the public counters before / after); what the abandonment did (rollback / dequeued / passed on / nothing) "
        "is inferred from those counters; whether a queued call helped itself (poll -> creating / idle) from pending_requests and total_connections",
    ]
    assumptions = [
        "PreemptibleResource grants at once when the amount fits, even past queued higher-priority waiters, like Resource; the Spec accepts this",
        "ThreadPool is judged at the last observation of each instant for loss and work conservation; priorities are integers 0–3 and times lie on the 1/8 s grid",
        "amounts, capacities and counts are integers in the models; a quarter of the Resource direct cases run the code on floats k/4 "
        "(exact dyadic doubles) and compare in units of 1/4; arbitrary floats are not covered",
        "ConnectionPool waits by polling every min(0.1 s, timeout/10): a queued acquirer notices a hand-off at its next poll, not at the "
        "release; the clock advances, so the Spec accepts it ('waiting consumes no simulated activity' is judged for Resource and the five sync primitives)",
        "Resource.acquire grants immediately when capacity is free even if earlier acquirers are queued; the property text "
        "orders *blocked* acquirers only, so the Spec accepts this",
    ]
    hypotheses = ["grant_at_most_once: call ids in the operation list are pairwise distinct (they name distinct calls)",
                  "held_le_limit and the second half of served_if_released: FixedCap ops (no set_capacity in the interleaving); with set_capacity the bound is "
                  "restated as no_grant_while_overcommitted + overcommit_only_by_set_capacity, conservation and release_never_exceeds hold unconditionally",
                  "0 < capacity, 0 < max_concurrent, 0 < parties (the constructors reject anything else)",
                  "<comp>_trace_satisfies_spec for resource, mutex, semaphore, rwlock, barrier, condition, preemptible resource: no hypothesis on the operation list "
                  "(every interleaving, malformed calls included)",
                  "barrier_trips_exactly_at_nth_arrival: the reachable state is not broken (a broken barrier rejects every wait)",
                  "<comp>_engine_trace_satisfies_spec (mutex, semaphore, resource): wfE (decidable) — a `got t id` line only when the driver's pending list answers ok "
                  "(the call became resumable — granted at once or woken —, has not resumed yet, and t is its wake-up clock value), a `fin` line only when nothing is "
                  "pending; `hang` lines excluded (the model never spins, the judge always rejects them); 0 < capacity for semaphore / resource",
                  "pool_trace_satisfies_spec (max timeoutNs min idleNs, min <= max): the operation list is a timed schedule of generator segments, release calls, "
                  "abandonments, idle-timeout deliveries and warm-up segments, and Pool.SchedOk timeoutNs idleNs holds (decidable): no step answers `bad` (`made id` only "
                  "while call id's set-up is in flight, `wmade` only while a warm-up set-up is, no `timeout` of a call that was already handed a connection), the id of a "
                  "new `acq` is not currently waiting or handed (implied by pairwise distinct call ids: pool_trace_satisfies_spec_distinct), a `timeout id` only for a call "
                  "that queued, not earlier than timeoutNs after its acq (the engine's timer) and not while it is the first queued call with capacity free (the code takes "
                  "the capacity at that very poll instead of raising; a decided example shows the judge rejecting the model otherwise), an `idleCheck c e` delivery not "
                  "earlier than e + idleNs (the event is scheduled for that instant); polls of calls that never queued, repeated timeouts, double releases, abandonments "
                  "of calls in any phase or in none are allowed",
                  "pool_head_not_grantable: the op list consists of the classic segments (acq / made / poll / timeout / rel); with abandonments or warm-up capacity can come "
                  "back while calls are queued (decided counterexample), then pool_head_helps_itself applies",
                  "limiter_trace_satisfies_spec: Conc.Start s0 (active = 0, 0 <= limit, dynamic: 0 <= min, 0 <= max — implied by what the constructors enforce, "
                  "limiter_trace_satisfies_spec_constructed) and set_limit is called on the dynamic limiter only (the others have no such method)",
                  "bulkhead_trace_satisfies_spec: stated over the driver's schedule lines (req/start/done/resp/tmo/fin with times; Bulkhead.finalSt_eq_run ties them to the "
                  "operation list); Bulkhead.accepted (decidable): every line is one the harness can produce in that state (a start/done/response/timeout delivery only for a "
                  "request in the corresponding stage, `fin` only when nothing is in flight and, with a wait limit, nothing queued) and request tags pairwise distinct",
                  "tpool_trace_satisfies_spec: stated over the driver's schedule lines with times; TPool.wf (decidable): an accepted task id is new, no internal delivery "
                  "answers `bad`, a `finish` comes at start + processing time for a running task, `fin` only with no task in service, and at the last line of every instant the "
                  "pool is quiet (no internal event in transit; queue empty or all workers busy) — what the judge's end-of-instant clauses demand "
                  "(tpool_trace_satisfies_spec_drained: no pending internal event at the end of an instant suffices)",
                  "wait_is_silent: ProcInv s (holds along every run from every plain program: one_pending_continuation, wait_is_silent_program); the dichotomy "
                  "'still blocked or woken by the resolution of its future' needs stepKeeps f (decidable): the code run by the step does not rebind slot f "
                  "(fresh/any_of/all_of into f) and no second process parks on f — the wake-up future of acquire() is a local, and SimFuture raises on double parking"]
    partial_theorems = {
        "wait_is_silent (DESIGN §8)": "proved on the engine + process layer (HappyModel/C01/Process.lean, lemmas of HappyProofs/C02) for every handler table and every "
                                      "reachable state: a process parked on a future has no event in the heap, every loop iteration delivers nothing to it and leaves it "
                                      "blocked or wakes it in that iteration with exactly one continuation stamped with that iteration's clock value, and along every run "
                                      "nothing is delivered to it up to and including the release step (HappyProofs/C09/WaitSilent.lean; non-vacuity: the two-workers-on-a-mutex "
                                      "scenario of DESIGN §9-7, contrast: the spinning variant). Gap: the composition with the operation-level models — that each call id in "
                                      "`Out.woke` of Mutex/Semaphore/RWLock/Barrier/Condition/Resource.step is a `resolve` of the future that call parked on — is how the primitives are "
                                      "written (the queued callback is `wake.resolve`) and is tied to the code by the differential check (`got` lines; */wait/not-silent, "
                                      "*/wait/resumed-late, */wait/clock-stuck), not by a Lean refinement theorem. For arbitrary handler tables a third outcome exists (the wake-up "
                                      "slot is overwritten and the wake-up lost); it is excluded by the decidable step hypothesis stepKeeps. wait_resumes_at_release_time assumes the "
                                      "woken process is started and has code left (true of a parked generator; not a field of ProcInv)",
        "trace theorems: judge mode": "<comp>_trace_satisfies_spec for Resource and the five sync primitives are for the judge's direct mode (engine = false): every clause on "
                                      "results, wake lists and public counters. The engine-mode bookkeeping of the same judges (`resolved` / `got` / `fin`: a woken process resumes "
                                      "exactly once, at the wake-up clock value, after zero deliveries) is now also proved for Mutex, Semaphore and Resource (incl. set_capacity): "
                                      "mutex_/semaphore_/resource_engine_trace_satisfies_spec — the engine-mode judge accepts the model's engine-mode transcript (ops + `got` + `fin` "
                                      "lines with the Pend layer as the driver keeps it) for every schedule satisfying the decidable wfE; mutex_engine_trace_accepts_iff shows wfE is "
                                      "exactly what the judge demands, mutex_engine_immediate_resume_satisfies_spec is unconditional for every timed op list. Remaining: RWLock, Barrier "
                                      "(the driver's pending list and the judge's resolved list differ by a permutation on a tripping wait), Condition (`reacq` engine branch); "
                                      "faithfulness of traceE to the string-level driver is checked on concrete schedules (#guard against Driver.handle), not proved",
        "condition": "the model's `reacq` segment is an ordinary mutex acquire; that the driver's Pend layer lets a `reacq` run only for a notified call is part of the engine-mode "
                     "bookkeeping above",
        "preemptible resource": "theorems (incl. preempt_trace_satisfies_spec) are for wakeAfterPreempt = true, the repaired code "
                                "(fixes/C09-extra-preempt-wake-after-preempt.diff, applied); for the unrepaired variant the violation is the decided witness "
                                "preempt_current_leaves_head_grantable, on which the judge answers preempt/head/grantable-but-blocked (example in PreemptSpec.lean). "
                                "The preempt_cb_* theorems and preempt_release_idempotent are about the re-entrant machine of HappyModel/C09/PreemptCb.lean (the model the driver "
                                "runs for preempt-direct), which has the repaired order of fixes/C09-preempt-callback-reentrancy.diff (capacity taken back before on_preempt fires, "
                                "released snapshot members skipped); they hold for every program table and every fuel (every tick boundary). At the pinned commit the property is "
                                "false on corpus/C09/pending/preempt-callback-*.json (ValueError out of acquire() with the victim's amount lost; held+available != capacity inside "
                                "callbacks), which is why those inputs are generated only with HV_C09_PREEMPT_CB_LIFT=1",
        "not modelled": "ThreadPool with a LIFO or priority queue_policy, user completion hooks on requests sent through a Bulkhead, a Bulkhead in front of a "
                        "QueuedResource target (fixes/C09-extra-bulkhead-queued-target.md: the permit is returned when the target enqueues, not when it finishes), "
                        "PreemptibleResource inside an engine",
        "pool close_all": "not modelled; idle-timeout closing, warm-up and abandoned acquirers are (Pool.lean ops abandon / idleCheck / warm / wmade); the judge does not "
                          "demand that a due idle check closes (`kept` / `stale` answers are accepted: keeping a connection is no violation of C09), only that a close "
                          "hits an idle connection in the idle session the timer was armed for, not early, not below min_connections, and never one in use",
        "pool, abandoned acquirers": "model and judge describe /repo with fixes/C09-pool-abandoned-waiter.diff (abandoned queued caller leaves the queue and passes a "
                                     "handed-over connection on; the first queued call helps itself to capacity that came back without a release); until the patch is "
                                     "applied the generator keeps those situations out (P1–P3) and the three witnesses wait in corpus/C09/pending/",
    }
    variants = ["repaired"]

    # ------------------------------------------------------------------ generation
    def generate(self, rng: random.Random, i: int, tier: str) -> dict:
        if i % 6 == 5:
            return c09_extra.generate(rng, i // 6, tier)
        if i % 11 == 10:
            return self.gen_conc_direct(rng, tier)
        k = i % 5
        if k == 4:
            return self.gen_pool_engine(rng, tier) if (i // 5) % 2 == 0 else self.gen_cond_engine(rng, tier)
        if k == 0:
            return self.gen_res_direct(rng, tier)
        if k == 1:
            return self.gen_res_engine(rng, tier)
        if k == 2:
            return self.gen_sync_direct(rng, tier)
        return self.gen_sync_engine(rng, tier)

    @staticmethod
    def _amount(rng, cap):
        r = rng.random()
        if r < 0.70:
            return rng.randint(1, cap)
        if r < 0.80:
            return cap
        if r < 0.86:
            return cap + 1
        if r < 0.91:
            return 0
        if r < 0.95:
            return -rng.randint(1, 3)
        return cap + rng.randint(2, 50)

    def gen_res_direct(self, rng, tier):
        cap = cap0 = rng.choice([1, 1, 2, 2, 3, 4, 5, 8])
        n = rng.choice([4, 8, 16, 30, 60])
        # set_capacity calls: none (fixed capacity, the common use), a few, or many
        p_cap = rng.choice([0.0, 0.0, 0.05, 0.12, 0.25])
        ops, nid = [], 0
        # generation bias only: a rough picture of which grants are live / queued
        avail, live, queue, dead = cap, [], [], []

        def wake():
            nonlocal avail
            while queue and queue[0][1] <= avail:
                w = queue.pop(0)
                avail -= w[1]
                live.append(w)

        for _ in range(n):
            r = rng.random()
            if r < p_cap:
                held = sum(g[1] for g in live)
                q = rng.random()
                if q < 0.45 and held > 0:
                    new = rng.choice([max(1, held - 1), max(1, held - 2), max(1, held // 2), 1])     # below what is held
                elif q < 0.6:
                    new = max(1, held)                                                              # exactly what is held
                elif q < 0.9:
                    new = rng.choice([cap + 1, cap + 2, held + 1, held + (queue[0][1] if queue else 1), 8, 9])   # room again
                else:
                    new = rng.choice([0, -1, -3])                                                   # rejected
                ops.append(["cap", new])
                if new > 0:
                    avail += new - cap
                    grew, cap = new > cap, new
                    if grew:
                        wake()
                continue
            if r < p_cap + 0.45 or not (live or queue or dead):
                a = self._amount(rng, cap)
                kind = "acq" if rng.random() < 0.8 else "try"
                ops.append([kind, nid, a])
                if 0 < a <= cap:
                    if a <= avail:
                        avail -= a
                        live.append((nid, a))
                    elif kind == "acq":
                        queue.append((nid, a))
                nid += 1
            else:
                q = rng.random()
                if live and q < 0.8:
                    g = live.pop(rng.randrange(len(live)))
                    ops.append(["rel", g[0]])
                    dead.append(g[0])
                    avail += g[1]
                    wake()
                elif dead and q < 0.9:
                    ops.append(["rel", rng.choice(dead)])       # double release
                elif queue and q < 0.96:
                    ops.append(["rel", rng.choice(queue)[0]])   # release of a grant not yet given
                else:
                    ops.append(["rel", nid + rng.randint(0, 3)])  # unknown id
        case = {"family": "res-direct", "cap": cap0, "ops": ops}
        if rng.random() < 0.25:
            case["scale"] = 4      # float run: capacity and amounts are k/4 (exact dyadic doubles), printed as k
        return case

    def gen_res_engine(self, rng, tier):
        cap = rng.choice([1, 1, 2, 2, 3, 4])
        n = rng.choice([2, 3, 4, 6, 8] if tier == "quick" else [2, 3, 4, 6, 8, 12, 16])
        spread = rng.choice([0, 0, 1, 2, 4])
        ws = []
        for _ in range(n):
            a = rng.randint(1, cap) if rng.random() < 0.93 else rng.choice([0, cap + 1, -1])
            w = {"at": rng.randint(0, spread), "amt": a, "hold": rng.choice([0, 0, 1, 1, 2, 3]),
                 "mode": "try" if rng.random() < 0.15 else "acq"}
            if rng.random() < 0.2:
                w["amt2"] = rng.randint(1, cap)
                w["hold2"] = rng.choice([0, 1, 2])
            if rng.random() < 0.1:
                w["twice"] = True   # releases its grant twice
            ws.append(w)
        case = {"family": "res-engine", "cap": cap, "workers": ws}
        r = rng.random()
        if r < 0.25:
            # a controller entity calls set_capacity at given ticks (before or after the workers of that tick)
            case["caps"] = [[rng.randint(0, spread + 4), rng.choice([1, 1, 2, max(1, cap - 1), cap, cap + 1, cap + 2])]
                            for _ in range(rng.choice([1, 2, 3]))]
            case["caps_first"] = rng.random() < 0.5
        elif r < 0.4:
            # the real ReduceCapacity fault (overlapping windows multiply); capacities stay integral
            cap = case["cap"] = rng.choice([2, 4, 4, 8])
            for w in ws:
                w["amt"] = max(1, min(w["amt"], cap)) if w["amt"] > 0 else w["amt"]
                if "amt2" in w:
                    w["amt2"] = min(w["amt2"], cap)
            nwin = rng.choice([1, 1, 2]) if cap >= 4 else 1
            fs = []
            for _ in range(nwin):
                a = rng.randint(0, spread + 2)
                f = 2 if (nwin == 2 or cap == 2) else rng.choice([1, 2, 2, 3] if cap == 4 else [2, 2, 4, 6] if cap == 8 else [2])
                fs.append([f, a, a + rng.randint(1, 6)])
            case["faults"] = fs        # [factor in quarters, start tick, end tick]
        return case


    # ---- sync primitives
    @staticmethod
    def _sync_param(rng, prim):
        if prim == "mutex":
            return 0
        if prim == "sem":
            return rng.choice([1, 1, 2, 3, 4])
        if prim == "rw":
            return rng.choice([0, 0, 1, 2, 3])       # max_readers, 0 = None
        return rng.choice([1, 2, 2, 3, 4])           # barrier parties

    def gen_sync_direct(self, rng, tier):
        prim = rng.choice(["mutex", "sem", "rw", "rw", "barrier"])
        param = self._sync_param(rng, prim)
        n = rng.choice([4, 8, 16, 30, 50])
        ops, nid = [], 0
        for _ in range(n):
            r = rng.random()
            if prim == "mutex":
                if r < 0.4:
                    ops.append(["acq", nid]); nid += 1
                elif r < 0.5:
                    ops.append(["try", nid]); nid += 1
                else:
                    ops.append(["rel"])
            elif prim == "sem":
                cnt = self._amount(rng, param)
                if r < 0.4:
                    ops.append(["acq", nid, cnt]); nid += 1
                elif r < 0.5:
                    ops.append(["try", nid, cnt]); nid += 1
                else:
                    ops.append(["rel", cnt if rng.random() < 0.3 else rng.randint(1, param)])
            elif prim == "rw":
                if r < 0.25:
                    ops.append(["acqr", nid]); nid += 1
                elif r < 0.4:
                    ops.append(["acqw", nid]); nid += 1
                elif r < 0.47:
                    ops.append(["tryr", nid]); nid += 1
                elif r < 0.52:
                    ops.append(["tryw", nid]); nid += 1
                elif r < 0.8:
                    ops.append(["relr"])
                else:
                    ops.append(["relw"])
            else:
                if r < 0.88:
                    ops.append(["wait", nid]); nid += 1
                elif r < 0.94:
                    ops.append(["reset"])
                else:
                    ops.append(["abort"])
        return {"family": "sync-direct", "prim": prim, "param": param, "ops": ops}

    def gen_sync_engine(self, rng, tier):
        prim = rng.choice(["mutex", "sem", "rw", "rw", "barrier"])
        param = self._sync_param(rng, prim)
        n = rng.choice([2, 3, 4, 6] if tier == "quick" else [2, 3, 4, 6, 8, 12])
        spread = rng.choice([0, 0, 1, 2, 4])
        ws = []
        for _ in range(n):
            steps = []
            hold = lambda: ["hold", rng.choice([0, 0, 1, 1, 2, 3])]
            for _rep in range(rng.choice([1, 1, 1, 2])):
                bad = rng.random() < 0.08
                if prim == "mutex":
                    if bad:
                        steps += [["rel"]]
                    elif rng.random() < 0.15:
                        steps += [["try"], hold(), ["rel"]]    # releases even if the try failed: misuse on purpose
                    else:
                        steps += [["acq"], hold(), ["rel"]]
                elif prim == "sem":
                    c = rng.randint(1, param)
                    if bad:
                        steps += [["acq", rng.choice([0, param + 1])], ["rel", rng.choice([0, 1, param + 1])]]
                    elif rng.random() < 0.15:
                        steps += [["try", c], hold()]
                    else:
                        steps += [["acq", c], hold(), ["rel", c]]
                elif prim == "rw":
                    wr = rng.random() < 0.35
                    if bad:
                        steps += [["relw" if wr else "relr"]]
                    elif rng.random() < 0.12:
                        steps += [["tryw" if wr else "tryr"], hold()]
                    else:
                        steps += [["acqw" if wr else "acqr"], hold(), ["relw" if wr else "relr"]]
                else:
                    r = rng.random()
                    if r < 0.9:
                        steps += [hold(), ["wait"]]
                    elif r < 0.95:
                        steps += [hold(), ["reset"]]
                    else:
                        steps += [hold(), ["abort"]]
            ws.append({"at": rng.randint(0, spread), "steps": steps})
        return {"family": "sync-engine", "prim": prim, "param": param, "workers": ws}


    # ---- connection pool
    def gen_pool_engine(self, rng, tier):
        mx = rng.choice([1, 1, 2, 2, 3])
        n = rng.choice([2, 3, 4, 6] if tier == "quick" else [2, 3, 4, 6, 8, 10])
        lat = rng.choice([0, 1, 1, 4, 4, 8])          # set-up latency, ticks
        tmo = rng.choice([4, 8, 8, 16])               # connection_timeout, ticks
        spread = rng.choice([0, 1, 2, 4, 8])
        ws = []
        for _ in range(n):
            w = {"at": rng.randint(0, spread), "hold": rng.choice([0, 1, 2, 4, 8, 12, 20])}
            if rng.random() < 0.1:
                w["twice"] = True
            if rng.random() < 0.15:
                w["again"] = rng.choice([0, 1, 4])    # a second acquire/release cycle after a pause
            ws.append(w)
        case = {"family": "pool-engine", "max": mx, "lat": lat, "tmo": tmo, "workers": ws}
        if rng.random() < 0.45:
            return case
        return self._pool_lifecycle(rng, case)

    def _pool_lifecycle(self, rng, case):
        """the rest of the pool's life: idle-timeout closing (`idle` ticks, events really scheduled), `min_connections`
        with warm-up processes, and acquirers that are abandoned mid-acquire (`kills`: the generator inside
        `acquire()` is closed by a harness entity, or its entity is crashed by a real CrashNode fault so that the
        engine drops the continuation) — during the set-up latency, while queued, after a hand-off, while holding"""
        ws, lat, tmo = case["workers"], case["lat"], case["tmo"]
        feats = rng.choice([["idle"], ["kill"], ["kill"], ["kill", "idle"], ["warm", "idle"], ["warm", "kill", "idle"], ["warm"]])
        if "kill" in feats and lat == 0 and rng.random() < 0.7:
            lat = case["lat"] = rng.choice([1, 2, 4, 8])
        if "idle" in feats:
            case["idle"] = rng.choice([1, 2, 4, 4, 8, 16, 64])
        if "warm" in feats:
            case["min"] = rng.randint(1, case["max"]) if rng.random() < 0.8 else 0
            case["warm"] = sorted(rng.choice([[0], [0], [0, 0], [0, rng.randint(1, 8)], [rng.randint(0, 4)]]))
            if rng.random() < 0.5:     # the workers arrive while the warm-up is still creating / just after it
                shift = rng.randint(0, case["min"] * lat + 1)
                for w in ws:
                    w["at"] += shift
        elif "idle" in feats and rng.random() < 0.3:
            case["min"] = rng.randint(0, case["max"])
        if "kill" in feats:
            kills = []
            for _ in range(rng.choice([1, 1, 2, 3])):
                k = rng.randrange(len(ws))
                r = rng.random()
                if r < 0.55:      # inside the set-up window of worker k's first call (boundaries included)
                    t = ws[k]["at"] + rng.choice([0, lat, rng.randint(0, lat), max(0, lat - 1)])
                elif r < 0.7:     # anywhere in its waiting / holding time
                    t = ws[k]["at"] + rng.randint(0, lat + tmo + ws[k]["hold"] + 1)
                elif r < 0.85:    # the instant another worker gives its connection back (a hand-off not yet noticed)
                    j = rng.randrange(len(ws))
                    t = ws[j]["at"] + lat + ws[j]["hold"]
                else:
                    t = rng.randint(0, 12)
                kills.append([t, k, rng.choice(["close", "close", "crash"])])
            case["kills"] = sorted(kills)
        return self._pool_restrict(case)

    @staticmethod
    def _pool_restrict(case):
        """P1-P3 (reproduced defects of /repo, fixes/C09-pool-abandoned-waiter.md; lifted by HV_C09_POOL_LIFT=1 once the
        patch is in the tree): a queued acquirer is never abandoned, and capacity never comes back without a
        release (abandoned set-up, warm-up connection) while a call is queued.  Kept out of the generated inputs
        by giving the pool room for every worker plus the warm-up (`max >= workers + min`), so that nobody queues."""
        if POOL_LIFT or not (case.get("kills") or case.get("warm")):
            return case
        need = len(case["workers"]) + case.get("min", 0)
        if case["max"] < need:
            case["max"] = need
        return case

    # ---- condition variable (with its mutex)
    def gen_cond_engine(self, rng, tier):
        n = rng.choice([2, 3, 4, 5, 6])
        spread = rng.choice([0, 1, 2, 4])
        ws = []
        for k in range(n):
            hold = lambda: ["hold", rng.choice([0, 0, 1, 2, 3])]
            r = rng.random()
            if r < 0.5 or k == 0:      # consumer
                steps = [["acq"], ["cwait"], hold(), ["rel"]]
            elif r < 0.85:             # producer
                steps = [hold(), ["acq"], ["notify", rng.choice([1, 1, 2, 1000000])], hold(), ["rel"]]
            elif r < 0.93:             # notifies without holding the mutex (the code allows it)
                steps = [hold(), ["notify", rng.choice([1, 1000000])]]
            else:                      # misuse: waits without the lock / plain mutex user
                steps = rng.choice([[["cwait"]], [["acq"], hold(), ["rel"]]])
            ws.append({"at": rng.randint(0, spread), "steps": steps})
        return {"family": "cond-engine", "workers": ws}


    # ---- non-blocking concurrency limiters
    def gen_conc_direct(self, rng, tier):
        kind = rng.choice([0, 1, 1, 2, 2])
        limit = rng.choice([1, 1, 2, 3, 5])
        mn = mx = 0
        if kind == 1:
            mn = rng.randint(1, limit)
            mx = rng.choice([0, limit, limit + 2])
        else:
            mn = 1
        ops = []
        for _ in range(rng.choice([4, 10, 25, 50])):
            r = rng.random()
            w = rng.choice([1, 1, 1, 2, limit, limit + 1, 0, -1])
            if r < 0.5:
                ops.append(["acq", w])
            elif r < 0.9 or kind != 1:
                ops.append(["rel", w])
            else:
                ops.append(["setlimit", rng.choice([0, 1, limit - 1, limit, limit + 1, limit + 5, -3])])
        return {"family": "conc-direct", "kind": kind, "limit": limit, "min": mn, "max": mx, "ops": ops}

    # ------------------------------------------------------------------ implementation
    def run_impl(self, case):
        fam = case["family"]
        if fam == "res-direct":
            out = self.impl_res_direct(case)
        elif fam == "res-engine":
            out = self.impl_res_engine(case)
        elif fam == "conc-direct":
            out = self.impl_conc_direct(case)
        elif fam == "pool-engine":
            out = self.impl_pool_engine(case)
        elif fam == "cond-engine":
            out = self.impl_cond_engine(case)
        elif fam == "sync-direct":
            out = self.impl_sync_direct(case)
        elif fam == "sync-engine":
            out = self.impl_sync_engine(case)
        elif fam in c09_extra.FAMILIES:
            out = c09_extra.run_impl(case)
        else:
            raise ValueError(f"unknown family {fam}")
        self._store(case, out)
        return out

    def _store(self, case, out):
        k = _key(case)
        _MEM[k] = out
        if case["family"].endswith("-engine"):
            try:
                _CACHE_DIR.mkdir(parents=True, exist_ok=True)
                tmp = _CACHE_DIR / f"{k}.{os.getpid()}.tmp"
                tmp.write_text("\n".join(out))
                tmp.replace(_CACHE_DIR / f"{k}.txt")
            except OSError:
                pass

    def _impl_out(self, case):
        """the implementation transcript of `case` (memo, file cache, or a fresh deterministic run)"""
        k = _key(case)
        if k in _MEM:
            return _MEM[k]
        p = _CACHE_DIR / f"{k}.txt"
        if p.exists():
            out = p.read_text().split("\n")
            _MEM[k] = out
            return out
        out = core.run_impl_safe(self, case)
        _MEM[k] = out
        return out

    # ---- Resource, direct
    def impl_res_direct(self, case):
        from happysimulator.components.resource import Resource

        sc = case.get("scale", 1)
        fl = (lambda k: k / sc) if sc != 1 else (lambda k: k)      # model units -> what the code is given
        un = lambda x: int(round(x * sc))                          # what the code reports -> model units
        r = Resource("r", fl(case["cap"]))
        futs, grants, pending, out = {}, {}, [], []

        def tail(res):
            woke = [i for i in pending if futs[i].is_resolved]
            for i in woke:
                pending.remove(i)
                grants[i] = futs[i].value
            return f"{res} woke={ids(woke)} a={un(r.available)} w={r.waiters} c={un(r.capacity)}"

        for op in case["ops"]:
            kind, i = op[0], op[1]
            if kind == "cap":
                try:
                    r.set_capacity(fl(i))
                    res = "resized"
                except ValueError:
                    res = "err:ValueError"
                out.append(f"cap 0 {i} " + tail(res))
            elif kind == "acq":
                try:
                    f = r.acquire(fl(op[2]))
                except ValueError:
                    out.append(f"acq 0 {i} {op[2]} " + tail("err:ValueError"))
                    continue
                futs[i] = f
                if f.is_resolved:
                    grants[i] = f.value
                    res = "granted"
                else:
                    res = "queued"
                line = f"acq 0 {i} {op[2]} " + tail(res)
                if res == "queued":
                    pending.append(i)
                out.append(line)
            elif kind == "try":
                try:
                    g = r.try_acquire(fl(op[2]))
                except ValueError:
                    out.append(f"try 0 {i} {op[2]} " + tail("err:ValueError"))
                    continue
                if g is not None:
                    grants[i] = g
                out.append(f"try 0 {i} {op[2]} " + tail("granted" if g is not None else "refused"))
            else:
                g = grants.get(i)
                if g is None:
                    out.append(f"rel 0 {i} " + tail("noop"))   # there is no Grant object to call
                    continue
                was = g.released
                try:
                    g.release()
                    res = "noop" if was else "released"
                except ValueError:
                    res = "err:ValueError"
                out.append(f"rel 0 {i} " + tail(res))
        return out

    # ---- Resource, inside the engine
    def impl_res_engine(self, case):
        from happysimulator.components.resource import Resource
        from happysimulator.core.entity import Entity
        from happysimulator.core.event import Event
        from happysimulator.core.simulation import Simulation
        from happysimulator.core.temporal import Instant

        r = Resource("r", case["cap"])
        out, pending, futs, got = [], [], {}, set()
        iv = lambda x: int(x) if float(x).is_integer() else x     # ReduceCapacity hands over float capacities

        def tail(res):
            woke = [i for i in pending if futs[i].is_resolved]
            for i in woke:
                pending.remove(i)
            return f"{res} woke={ids(woke)} a={iv(r.available)} w={r.waiters} c={iv(r.capacity)}"

        # every set_capacity call — by the controller entity below or by the ReduceCapacity fault — is logged
        # by wrapping the public method on this one object
        real_set_capacity = r.set_capacity
        # since /repo ee30e3a the effective capacity is written by Resource._apply_capacity: the public
        # set_capacity goes through it (inside a ReduceCapacity window with base x factors) and the fault
        # calls it directly; trees without it write in set_capacity itself
        real_apply = getattr(r, "_apply_capacity", None)

        def logged_set_capacity(capacity):
            try:
                real_set_capacity(capacity)
                res = "resized"
            except ValueError:
                res = "err:ValueError"
                raise
            finally:
                if real_apply is None or res != "resized":
                    out.append(f"cap {r.now.nanoseconds} {iv(capacity)} " + tail(res))

        r.set_capacity = logged_set_capacity
        if real_apply is not None:
            def logged_apply(capacity):
                real_apply(capacity)
                out.append(f"cap {r.now.nanoseconds} {iv(capacity)} " + tail("resized"))

            r._apply_capacity = logged_apply

        class Controller(Entity):
            def handle_event(self, event):
                try:
                    r.set_capacity(event.context["metadata"]["cap"])
                except ValueError:
                    pass

        class Worker(Entity):
            def __init__(self, k, w):
                super().__init__(f"w{k}")
                self.k, self.w = k, w

            def t(self):
                return self.now.nanoseconds

            def acquire(self, cid, amt):
                try:
                    f = r.acquire(amt)
                except ValueError:
                    out.append(f"acq {self.t()} {cid} {amt} " + tail("err:ValueError"))
                    return None
                futs[cid] = f
                res = "granted" if f.is_resolved else "queued"
                line = f"acq {self.t()} {cid} {amt} " + tail(res)
                if res == "queued":
                    pending.append(cid)
                out.append(line)
                return f

            def release(self, cid, g):
                was = g.released
                try:
                    g.release()
                    res = "noop" if was else "released"
                except ValueError:
                    res = "err:ValueError"
                out.append(f"rel {self.t()} {cid} " + tail(res))

            def handle_event(self, event):
                w, c1, c2 = self.w, 2 * self.k, 2 * self.k + 1
                if w["mode"] == "try":
                    try:
                        g = r.try_acquire(w["amt"])
                    except ValueError:
                        out.append(f"try {self.t()} {c1} {w['amt']} " + tail("err:ValueError"))
                        return
                    out.append(f"try {self.t()} {c1} {w['amt']} " + tail("granted" if g is not None else "refused"))
                    if g is None:
                        return
                else:
                    f = self.acquire(c1, w["amt"])
                    if f is None:
                        return
                    g = yield f
                    got.add(c1)
                    out.append(f"got {self.t()} {c1} s=0 amt={g.amount}")
                yield w["hold"] / 8
                g2 = None
                if "amt2" in w:
                    f2 = self.acquire(c2, w["amt2"])
                    if f2 is not None:
                        g2 = yield f2
                        got.add(c2)
                        out.append(f"got {self.t()} {c2} s=0 amt={g2.amount}")
                        yield w["hold2"] / 8
                self.release(c1, g)
                if w.get("twice"):
                    self.release(c1, g)
                if g2 is not None:
                    self.release(c2, g2)

        workers = [Worker(k, w) for k, w in enumerate(case["workers"])]
        ctl = Controller("ctl")
        faults = None
        if case.get("faults"):
            from happysimulator.faults.resource_faults import ReduceCapacity
            from happysimulator.faults.schedule import FaultSchedule

            faults = FaultSchedule()
            for f, a, b in case["faults"]:
                faults.add(ReduceCapacity("r", f / 4, a * TICK / 1e9, b * TICK / 1e9))
        sim = Simulation(end_time=Instant(END_NS), entities=[r, ctl, *workers], fault_schedule=faults)

        def caps():
            for t, c in case.get("caps", []):
                ev = Event(time=Instant(t * TICK), event_type="cap", target=ctl)
                ev.add_context("cap", c)
                sim.schedule(ev)

        if case.get("caps_first"):
            caps()
        for wk in workers:
            sim.schedule(Event(time=Instant(wk.w["at"] * TICK), event_type="go", target=wk))
        if not case.get("caps_first"):
            caps()
        sim.run()
        parked = [i for i in futs if futs[i].is_resolved and i not in got]
        out.append(f"fin 0 blocked={ids(pending)} parked={ids(parked)} a={iv(r.available)} w={r.waiters} c={iv(r.capacity)}")
        return out


    # ---- sync primitives: shared adapters
    @staticmethod
    def _make_prim(prim, param):
        from happysimulator.components.sync import Barrier, Mutex, RWLock, Semaphore

        if prim == "mutex":
            return Mutex("m")
        if prim == "sem":
            return Semaphore("s", param)
        if prim == "rw":
            return RWLock("rw", max_readers=(param or None))
        return Barrier("b", param)

    @staticmethod
    def _counters(prim, p):
        if prim == "mutex":
            return f"l={int(p.is_locked)} w={p.waiters}"
        if prim == "sem":
            return f"a={p.available} w={p.waiters}"
        if prim == "rw":
            return f"r={p.active_readers} w={p.waiters} x={int(p.is_write_locked)}"
        return f"n={p.waiting} g={p.generation} b={int(p.broken)}"

    @staticmethod
    def _nwait(prim, p):
        return p.waiting if prim == "barrier" else p.waiters

    @staticmethod
    def _blocking_gen(prim, p, op):
        k = op[0]
        if k == "acq":
            return p.acquire(op[-1]) if prim == "sem" else p.acquire()
        if k == "acqr":
            return p.acquire_read()
        if k == "acqw":
            return p.acquire_write()
        if k == "wait":
            return p.wait()
        raise ValueError(k)

    @staticmethod
    def _nonblocking(prim, p, op):
        """-> result name"""
        k = op[0]
        try:
            if k == "try":
                ok = p.try_acquire(op[-1]) if prim == "sem" else p.try_acquire()
                return "granted" if ok else "refused"
            if k == "tryr":
                return "granted" if p.try_acquire_read() else "refused"
            if k == "tryw":
                return "granted" if p.try_acquire_write() else "refused"
            if k == "rel":
                p.release(op[-1]) if prim == "sem" else p.release()
                return "released"
            if k == "relr":
                p.release_read()
                return "released"
            if k == "relw":
                p.release_write()
                return "released"
            if k == "reset":
                p.reset()
                return "ok"
            if k == "abort":
                p.abort()
                return "ok"
        except ValueError:
            return "err:ValueError"
        except RuntimeError:
            return "err:RuntimeError"
        raise ValueError(k)

    BLOCKING = ("acq", "acqr", "acqw", "wait")

    def impl_sync_direct(self, case):
        prim, param = case["prim"], case["param"]
        p = self._make_prim(prim, param)
        out, pending = [], []      # pending: [(id, generator)] in arrival order

        def poll():
            woke = []
            for cid, g in list(pending):
                try:
                    next(g)
                except StopIteration:
                    woke.append(cid)
                    pending.remove((cid, g))
                except RuntimeError:
                    woke.append(cid)
                    pending.remove((cid, g))
            return woke

        for op in case["ops"]:
            k = op[0]
            if k in self.BLOCKING:
                cid = op[1]
                pre = f"{k} 0 {cid}" + (f" {op[2]}" if prim == "sem" else "")
                before = self._nwait(prim, p)
                try:
                    g = self._blocking_gen(prim, p, op)
                    next(g)
                except StopIteration:
                    res = "passed"
                except ValueError:
                    res = "err:ValueError"
                except RuntimeError:
                    res = "err:RuntimeError"
                else:
                    if self._nwait(prim, p) == before + 1:
                        res = "queued"
                    else:
                        res = "granted"
                        try:
                            next(g)
                        except StopIteration:
                            pass
                woke = poll()
                if res == "queued":
                    pending.append((cid, g))
                out.append(f"{pre} {res} woke={ids(woke)} {self._counters(prim, p)}")
            else:
                if k in ("try", "tryr", "tryw"):
                    pre = f"{k} 0 {op[1]}" + (f" {op[2]}" if prim == "sem" else "")
                elif k == "rel" and prim == "sem":
                    pre = f"rel 0 {op[1]}"
                else:
                    pre = f"{k} 0"
                res = self._nonblocking(prim, p, op)
                woke = poll()
                out.append(f"{pre} {res} woke={ids(woke)} {self._counters(prim, p)}")
        return out

    def impl_sync_engine(self, case):
        from happysimulator.core.entity import Entity
        from happysimulator.core.event import Event
        from happysimulator.core.simulation import Simulation
        from happysimulator.core.temporal import Instant

        prim, param = case["prim"], case["param"]
        p = self._make_prim(prim, param)
        out, pending, woken, got = [], [], [], set()
        H = self

        def take(n):
            w = pending[:max(0, n)]
            del pending[:max(0, n)]
            woken.extend(w)
            return w

        class Worker(Entity):
            def __init__(self, k, w):
                super().__init__(f"w{k}")
                self.k, self.w = k, w

            def handle_event(self, event):
                calls = 0
                for st in self.w["steps"]:
                    k = st[0]
                    t = self.now.nanoseconds
                    if k == "hold":
                        yield st[1] / 8
                        continue
                    if k in H.BLOCKING:
                        cid = self.k * 8 + calls
                        calls += 1
                        op = [k, cid] + st[1:]
                        pre = f"{k} {t} {cid}" + (f" {st[1]}" if prim == "sem" else "")
                        before = H._nwait(prim, p)
                        val = None
                        try:
                            g = H._blocking_gen(prim, p, op)
                            y = next(g)
                        except StopIteration as e:
                            w = take(before)
                            out.append(f"{pre} passed woke={ids(w)} {H._counters(prim, p)}")
                            got.add(cid)
                            out.append(f"got {t} {cid} s=0 idx={e.value}")
                            continue
                        except ValueError:
                            out.append(f"{pre} err:ValueError woke=- {H._counters(prim, p)}")
                            continue
                        except RuntimeError:
                            out.append(f"{pre} err:RuntimeError woke=- {H._counters(prim, p)}")
                            continue
                        res = "queued" if H._nwait(prim, p) == before + 1 else "granted"
                        out.append(f"{pre} {res} woke=- {H._counters(prim, p)}")
                        if res == "queued":
                            pending.append(cid)
                        n = 0
                        while True:
                            n += 1
                            if n > SPIN_LIMIT:
                                out.append(f"hang {self.now.nanoseconds} {cid}")
                                return
                            yield y
                            try:
                                y = next(g)
                            except StopIteration as e:
                                val = e.value
                                break
                        got.add(cid)
                        out.append(f"got {self.now.nanoseconds} {cid} s={n - 1}" + (f" idx={val}" if prim == "barrier" else ""))
                    else:
                        if k in ("try", "tryr", "tryw"):
                            cid = self.k * 8 + calls
                            calls += 1
                            pre = f"{k} {t} {cid}" + (f" {st[1]}" if prim == "sem" else "")
                        elif k == "rel" and prim == "sem":
                            pre = f"rel {t} {st[1]}"
                        else:
                            pre = f"{k} {t}"
                        before = H._nwait(prim, p)
                        res = H._nonblocking(prim, p, [k, 0] + st[1:])
                        w = take(before - H._nwait(prim, p))
                        out.append(f"{pre} {res} woke={ids(w)} {H._counters(prim, p)}")

        workers = [Worker(k, w) for k, w in enumerate(case["workers"])]
        sim = Simulation(end_time=Instant(END_NS), entities=[p, *workers])
        for wk in workers:
            sim.schedule(Event(time=Instant(wk.w["at"] * TICK), event_type="go", target=wk))
        sim.run()
        parked = [i for i in woken if i not in got]
        out.append(f"fin 0 blocked={ids(pending)} parked={ids(parked)} {self._counters(prim, p)}")
        return out


    # ---- connection pool, inside the engine
    def impl_pool_engine(self, case):
        from happysimulator.components.client.connection_pool import ConnectionPool
        from happysimulator.core.entity import Entity
        from happysimulator.core.event import Event
        from happysimulator.core.simulation import Simulation
        from happysimulator.core.temporal import Instant
        from happysimulator.distributions.constant import ConstantLatency

        class Target(Entity):
            def handle_event(self, event):
                return None

        tgt = Target("t")
        idle_ticks = case.get("idle")
        pool = ConnectionPool("p", tgt, min_connections=case.get("min", 0), max_connections=case["max"],
                              connection_timeout=case["tmo"] / 8, idle_timeout=1e7 if idle_ticks is None else idle_ticks / 8,
                              connection_latency=ConstantLatency(case["lat"] / 8))
        out, pending = [], []

        def cnt():
            return f"a={pool.active_connections} i={pool.idle_connections} n={pool.total_connections} p={pool.pending_requests}"

        def snap():
            return (pool.active_connections, pool.idle_connections, pool.total_connections, pool.pending_requests)

        def now():
            return pool.now.nanoseconds

        # deliveries to the pool entity itself: idle-timeout checks and the warm-up process
        pool_handle = pool.handle_event

        def traced_warm(gen):
            def line(word, res):
                out.append(f"{word} {now()} 0 res={res} {cnt()}")
            try:
                v = next(gen)
            except StopIteration as e:
                line("warm", "done")
                return e.value
            line("warm", "creating")
            while True:
                sent = yield v
                try:
                    v = gen.send(sent)
                except StopIteration as e:
                    line("warm", "done")
                    return e.value
                if isinstance(v, tuple):          # `yield 0.0, [idle-timeout event]`: the connection was just parked
                    c = v[1][0].context["metadata"]["connection_id"]
                    line("wmade", f"conn c={c}")
                else:
                    line("warm", "creating")

        def on_pool_event(ev):
            if ev.event_type == "_pool_idle_timeout":
                md = ev.context["metadata"]
                n0 = pool.total_connections
                r = pool_handle(ev)
                res = "closed" if pool.total_connections == n0 - 1 else ("kept" if r else "stale")
                out.append(f"idle {now()} {md['connection_id']} {md['expected_last_used'].nanoseconds} res={res} {cnt()}")
                return r
            if ev.event_type == "_pool_warmup":
                return traced_warm(pool_handle(ev))
            return pool_handle(ev)

        pool.handle_event = on_pool_event

        class Worker(Entity):
            def __init__(self, k, w):
                super().__init__(f"w{k}")
                self.k, self.w = k, w
                self.call = None        # [cid, generator, phase] while inside acquire()
                self.dead = False

            def abandon(self):
                """the process inside acquire() is dropped: close the generator (GeneratorExit at its yield) and
                report what the pool's public counters did"""
                cid, g, phase = self.call
                self.call = None
                if phase == "waiting" and cid not in pending:
                    phase = "handed"
                a0, i0, n0, p0 = snap()
                g.close()
                a1, i1, n1, p1 = snap()
                res = "none"
                if phase == "creating":
                    if n1 == n0 - 1:
                        res = "rollback"
                elif phase == "waiting":
                    if p1 == p0 - 1:
                        res = "dequeued"
                        pending.remove(cid)
                elif i1 == i0 + 1:
                    res = "idle-return"
                elif p1 == p0 - 1 and pending:
                    res = f"handoff c={pending.pop(0)}"
                out.append(f"abandon {now()} {cid} res={res} {cnt()}")

            def cycle(self, cid, hold):
                t = lambda: self.now.nanoseconds
                g = pool.acquire()
                before = pool.pending_requests
                try:
                    y = next(g)
                except StopIteration as e:
                    conn = e.value
                    out.append(f"acq {t()} {cid} res=idle c={conn.id} {cnt()}")
                else:
                    waiting = pool.pending_requests == before + 1
                    out.append(f"acq {t()} {cid} res={'waiting' if waiting else 'creating'} {cnt()}")
                    if waiting:
                        pending.append(cid)
                    self.call = [cid, g, "waiting" if waiting else "creating"]
                    n = 0
                    while True:
                        n += 1
                        if n > SPIN_LIMIT:
                            out.append(f"hang {t()} {cid}")
                            return None
                        try:
                            yield y
                        except GeneratorExit:
                            # this process was dropped by the engine (its entity is down): so is the acquire() in it
                            if self.call is not None:
                                self.abandon()
                            raise
                        if self.call is None:      # abandoned by the killer while this process slept
                            return None
                        p0, n0 = pool.pending_requests, pool.total_connections
                        try:
                            y = next(g)
                        except StopIteration as e:
                            conn = e.value
                            self.call = None
                            if waiting and cid in pending:
                                # nobody handed it over: the first queued call helped itself to an idle connection
                                pending.remove(cid)
                                out.append(f"poll {t()} {cid} res=idle c={conn.id} {cnt()}")
                            elif waiting:
                                out.append(f"poll {t()} {cid} res=got c={conn.id} {cnt()}")
                            else:
                                out.append(f"made {t()} {cid} res=conn c={conn.id} {cnt()}")
                            break
                        except TimeoutError:
                            self.call = None
                            if cid in pending:
                                pending.remove(cid)
                            out.append(f"timeout {t()} {cid} res=timeout {cnt()}")
                            return []
                        else:
                            if waiting and cid in pending and pool.pending_requests == p0 - 1 and pool.total_connections == n0 + 1:
                                # the first queued call took a slot that came back and opens the connection itself
                                pending.remove(cid)
                                waiting = False
                                self.call[2] = "creating"
                                out.append(f"poll {t()} {cid} res=creating {cnt()}")
                            elif waiting:
                                out.append(f"poll {t()} {cid} res=wait {cnt()}")
                            else:
                                out.append(f"hang {t()} {cid}")     # a set-up never yields twice
                                return None
                yield hold / 8
                evs = []
                for _ in range(2 if self.w.get("twice") else 1):
                    pb, ib = pool.pending_requests, pool.idle_connections
                    got = pool.release(conn)
                    if idle_ticks is not None:
                        evs += got           # (legacy cases: the idle-timeout event is dropped, idle closing not exercised)
                    if pool.pending_requests == pb - 1 and pending:
                        res = f"res=handoff c={pending.pop(0)}"
                    elif pool.idle_connections == ib + 1:
                        res = "res=idle-return"
                    else:
                        res = "res=unknown"
                    out.append(f"rel {t()} {conn.id} {res} {cnt()}")
                return evs

            def handle_event(self, event):
                evs = yield from self.cycle(2 * self.k, self.w["hold"])
                if evs is not None and "again" in self.w:
                    yield (self.w["again"] / 8, evs)
                    evs = yield from self.cycle(2 * self.k + 1, self.w["hold"])
                return evs or []

        workers = [Worker(k, w) for k, w in enumerate(case["workers"])]

        class Killer(Entity):
            def handle_event(self, event):
                wk = workers[event.context["metadata"]["k"]]
                if wk.call is not None:
                    wk.abandon()
                return []

        class Starter(Entity):
            def handle_event(self, event):
                return [pool.warmup()]

        killer, starter = Killer("killer"), Starter("starter")
        faults = None
        crashes = [(t, k) for t, k, mode in case.get("kills", []) if mode == "crash" and 0 <= k < len(workers)]
        if crashes:
            from happysimulator.faults import CrashNode, FaultSchedule
            faults = FaultSchedule()
            for t, k in crashes:
                faults.add(CrashNode(f"w{k}", at=t / 8))
        end_ns = END_NS
        if idle_ticks is not None:
            # a pool at `min_connections` re-arms its idle checks for ever: stop a few idle periods after the last
            # moment a worker can still be busy
            ws_ = case["workers"]
            busy = max([w["at"] for w in ws_] + [0]) + 2 * (case["lat"] + case["tmo"] + max([w["hold"] for w in ws_] + [0]) + 4)
            end_ns = (busy + max(case.get("warm", [0]) + [0]) + case.get("min", 0) * case["lat"] + 3 * idle_ticks + 8) * TICK
        sim = Simulation(end_time=Instant(end_ns), entities=[pool, tgt, killer, starter, *workers],
                         **({"fault_schedule": faults} if faults is not None else {}))
        for t in case.get("warm", []):
            sim.schedule(Event(time=Instant(t * TICK), event_type="warm", target=starter))
        for wk in workers:
            sim.schedule(Event(time=Instant(wk.w["at"] * TICK), event_type="go", target=wk))
        for t, k, mode in case.get("kills", []):
            if mode == "close" and 0 <= k < len(workers):
                ev = Event(time=Instant(t * TICK), event_type="kill", target=killer)
                ev.add_context("k", k)
                sim.schedule(ev)
        sim.run()
        out.append(f"fin 0 blocked={ids(pending)} {cnt()}")
        return out


    # ---- condition + mutex, inside the engine
    def impl_cond_engine(self, case):
        from happysimulator.components.sync import Condition, Mutex
        from happysimulator.core.entity import Entity
        from happysimulator.core.event import Event
        from happysimulator.core.simulation import Simulation
        from happysimulator.core.temporal import Instant

        m = Mutex("m")
        cv = Condition("cv", m)
        out, mpending, cpending, woken, got = [], [], [], [], set()

        def cnt():
            return f"l={int(m.is_locked)} w={m.waiters} c={cv.waiters}"

        def mtake(n):
            w = mpending[:max(0, n)]
            del mpending[:max(0, n)]
            woken.extend(w)
            return w

        class Worker(Entity):
            def __init__(self, k, w):
                super().__init__(f"w{k}")
                self.k, self.w = k, w

            def handle_event(self, event):
                calls = 0
                now = lambda: self.now.nanoseconds
                for st in self.w["steps"]:
                    k = st[0]
                    if k == "hold":
                        yield st[1] / 8
                    elif k == "acq":
                        cid = self.k * 8 + calls
                        calls += 1
                        before = m.waiters
                        g = m.acquire()
                        y = next(g)
                        res = "queued" if m.waiters == before + 1 else "granted"
                        out.append(f"acq {now()} {cid} {res} woke=- {cnt()}")
                        if res == "queued":
                            mpending.append(cid)
                        n = 0
                        while True:
                            n += 1
                            if n > SPIN_LIMIT:
                                out.append(f"hang {now()} {cid}")
                                return
                            yield y
                            try:
                                y = next(g)
                            except StopIteration:
                                break
                        got.add(cid)
                        out.append(f"got {now()} {cid} s={n - 1}")
                    elif k == "rel":
                        before = m.waiters
                        try:
                            m.release()
                            res = "released"
                        except RuntimeError:
                            res = "err:RuntimeError"
                        out.append(f"rel {now()} {res} woke={ids(mtake(before - m.waiters))} {cnt()}")
                    elif k == "notify":
                        before = cv.waiters
                        cv.notify_all() if st[1] >= 1000000 else cv.notify(st[1])
                        nw = before - cv.waiters
                        w = cpending[:nw]
                        del cpending[:nw]
                        woken.extend(w)
                        out.append(f"notify {now()} {st[1]} ok woke={ids(w)} {cnt()}")
                    elif k == "cwait":
                        cid = self.k * 8 + calls
                        calls += 1
                        mb = m.waiters
                        g = cv.wait()
                        try:
                            y = next(g)
                        except RuntimeError:
                            out.append(f"cwait {now()} {cid} err:RuntimeError woke=- {cnt()}")
                            continue
                        out.append(f"cwait {now()} {cid} queued woke={ids(mtake(mb - m.waiters))} {cnt()}")
                        cpending.append(cid)
                        phase, n, done = "cond", 0, False
                        while not done:
                            n += 1
                            if n > SPIN_LIMIT:
                                out.append(f"hang {now()} {cid}")
                                return
                            yield y
                            mw, ml = m.waiters, m.is_locked
                            try:
                                y = next(g)
                            except StopIteration:
                                done = True
                            if phase == "cond":
                                if m.waiters == mw + 1:
                                    phase = "mutex"
                                    mpending.append(cid)
                                    if cid in woken:
                                        woken.remove(cid)   # blocked again, now on the mutex
                                    out.append(f"reacq {now()} {cid} queued woke=- {cnt()} s={n - 1}")
                                    n = 0
                                elif not ml and m.is_locked:
                                    phase = "mutex"
                                    out.append(f"reacq {now()} {cid} granted woke=- {cnt()} s={n - 1}")
                                    n = 0
                        got.add(cid)
                        out.append(f"got {now()} {cid} s={max(0, n - 1)}")

        workers = [Worker(k, w) for k, w in enumerate(case["workers"])]
        sim = Simulation(end_time=Instant(END_NS), entities=[cv, *workers])
        for wk in workers:
            sim.schedule(Event(time=Instant(wk.w["at"] * TICK), event_type="go", target=wk))
        sim.run()
        parked = [i for i in woken if i not in got]
        out.append(f"fin 0 blocked={ids(mpending)} cblocked={ids(cpending)} parked={ids(parked)} {cnt()}")
        return out


    # ---- concurrency limiters, direct
    def impl_conc_direct(self, case):
        from happysimulator.components.server.concurrency import DynamicConcurrency, FixedConcurrency, WeightedConcurrency

        k = case["kind"]
        if k == 0:
            c = FixedConcurrency(case["limit"])
        elif k == 1:
            c = DynamicConcurrency(case["limit"], min_limit=case["min"], max_limit=(case["max"] or None))
        else:
            c = WeightedConcurrency(case["limit"])
        out = []
        for op in case["ops"]:
            try:
                if op[0] == "acq":
                    res = "granted" if c.acquire(op[1]) else "refused"
                elif op[0] == "rel":
                    c.release(op[1])
                    res = "released"
                else:
                    c.set_limit(op[1])
                    res = "ok"
            except ValueError:
                res = "err:ValueError"
            out.append(f"{op[0]} 0 {op[1]} {res} act={c.active} av={c.available} lim={c.limit}")
        return out

    # ------------------------------------------------------------------ model / judge
    @staticmethod
    def _schedule_line(line):
        """the call part of a transcript line: everything before the result / key=value tokens"""
        keep = []
        for tok in line.split():
            if tok in RESULTS or "=" in tok or tok.startswith("!"):
                break
            keep.append(tok)
        return " ".join(keep)

    def model_block(self, case, variant):
        fam = case["family"]
        if fam in c09_extra.FAMILIES:
            return c09_extra.model_block(case, variant, self._impl_out(case) if fam.endswith("-engine") else None)
        if fam == "res-direct":
            body = []
            for op in case["ops"]:
                body.append(f"{op[0]} 0 {op[1]} {op[2]}" if op[0] in ("acq", "try") else f"{op[0]} 0 {op[1]}")
            return (f"res {case['cap']}", body)
        if fam == "res-engine":
            impl = self._impl_out(case)
            if impl and impl[0].startswith("IMPL-"):
                return (f"res {case['cap']}", [])
            return (f"res {case['cap']}", [self._schedule_line(l) for l in impl])
        if fam == "conc-direct":
            return (f"conc {case['kind']} {case['limit']} {case['min']} {case['max']}",
                    [f"{op[0]} 0 {op[1]}" for op in case["ops"]])
        if fam == "cond-engine":
            impl = self._impl_out(case)
            if impl and impl[0].startswith("IMPL-"):
                return ("cond", [])
            return ("cond", [self._schedule_line(l) for l in impl])
        if fam == "pool-engine":
            impl = self._impl_out(case)
            if impl and impl[0].startswith("IMPL-"):
                return (f"pool {case['max']} 1 {case.get('min', 0)}", [])
            return (f"pool {case['max']} 1 {case.get('min', 0)}", [self._schedule_line(l) for l in impl])
        if fam in ("sync-direct", "sync-engine"):
            prim = case["prim"]
            hdr = {"mutex": "mutex", "sem": f"sem {case['param']}", "rw": f"rw {case['param']}",
                   "barrier": f"barrier {case['param']}"}[prim]
            if fam == "sync-direct":
                body = []
                for op in case["ops"]:
                    body.append(" ".join([op[0], "0"] + [str(x) for x in op[1:]]))
                return (hdr, body)
            impl = self._impl_out(case)
            if impl and impl[0].startswith("IMPL-"):
                return (hdr, [])
            return (hdr, [self._schedule_line(l) for l in impl])
        raise ValueError(fam)

    def judge_block(self, case, impl_out):
        if impl_out and impl_out[0].startswith("IMPL-"):
            return None
        fam = case["family"]
        if fam in c09_extra.FAMILIES:
            return c09_extra.judge_block(case, impl_out)
        if fam == "res-direct":
            return (f"judge-res {case['cap']} direct", list(impl_out))
        if fam == "res-engine":
            return (f"judge-res {case['cap']} engine", list(impl_out))
        if fam == "conc-direct":
            return (f"judge-conc {case['kind']} {case['limit']} {case['min']} {case['max']}", list(impl_out))
        if fam == "cond-engine":
            return ("judge-cond engine", list(impl_out))
        if fam == "pool-engine":
            return (f"judge-pool {case['max']} {case['tmo'] * TICK} {case.get('min', 0)} {case.get('idle', 80_000_000) * TICK}", list(impl_out))
        if fam in ("sync-direct", "sync-engine"):
            mode = "engine" if fam == "sync-engine" else "direct"
            prim = case["prim"]
            hdr = {"mutex": f"judge-mutex {mode}", "sem": f"judge-sem {case['param']} {mode}",
                   "rw": f"judge-rw {case['param']} {mode}", "barrier": f"judge-barrier {case['param']} {mode}"}[prim]
            return (hdr, list(impl_out))
        return None

    def nontrivial_key(self, case, impl_out):
        if case["family"] in c09_extra.FAMILIES:
            return c09_extra.nontrivial_key(case, impl_out)
        if any(" queued " in l for l in impl_out) and any("woke=" in l and "woke=-" not in l for l in impl_out):
            return json.dumps(case, sort_keys=True)
        if any("res=waiting" in l for l in impl_out):
            return json.dumps(case, sort_keys=True)
        if case["family"] == "pool-engine" and any(l.startswith("abandon ") and "res=none" not in l or "res=closed" in l or l.startswith("wmade ")
                                                   for l in impl_out):
            return json.dumps(case, sort_keys=True)
        if case["family"] == "conc-direct" and any(" refused " in l for l in impl_out):
            return json.dumps(case, sort_keys=True)
        return None

    def shrink(self, case):
        if case["family"] in c09_extra.FAMILIES:
            yield from c09_extra.shrink(case)
            return
        if case["family"] == "pool-engine":
            yield from self._pool_shrink(case)
            return
        key = "ops" if "ops" in case else "workers"
        xs = case[key]
        n = len(xs)
        step = max(1, n // 2)
        while step >= 1:
            for i in range(0, n, step):
                cand = dict(case)
                cand[key] = xs[:i] + xs[i + step:]
                if len(cand[key]) < n:
                    yield cand
            step //= 2

    def _pool_shrink(self, case):
        """drop a worker (kills keep pointing at the same workers), a kill, a warm-up, the idle timeout, min_connections"""
        ws = case["workers"]
        for i in range(len(ws)):
            if len(ws) > 1:
                c = json.loads(json.dumps(case))
                del c["workers"][i]
                if "kills" in c:
                    c["kills"] = [[t, k - (k > i), m] for t, k, m in c["kills"] if k != i]
                yield self._pool_restrict(c)
        for key in ("kills", "warm"):
            for i in range(len(case.get(key, []))):
                c = json.loads(json.dumps(case))
                del c[key][i]
                yield self._pool_restrict(c)
        for key in ("idle", "min"):
            if key in case:
                c = json.loads(json.dumps(case))
                del c[key]
                yield self._pool_restrict(c)
        for i, w in enumerate(ws):
            for key in ("twice", "again"):
                if key in w:
                    c = json.loads(json.dumps(case))
                    del c["workers"][i][key]
                    yield c

    def mutate(self, case, rng):
        if case["family"] in c09_extra.FAMILIES:
            return c09_extra.mutate(case, rng)
        if case["family"] == "pool-engine" and (case.get("kills") or case.get("warm") or "idle" in case):
            c = json.loads(json.dumps(case))
            r = rng.random()
            if r < 0.4 and c.get("kills"):
                kl = rng.choice(c["kills"])
                kl[0] = max(0, kl[0] + rng.choice([-2, -1, 1, 2]))
                if rng.random() < 0.3:
                    kl[2] = "crash" if kl[2] == "close" else "close"
            elif r < 0.6:
                w = rng.choice(c["workers"])
                w["at"] = max(0, w["at"] + rng.choice([-1, 1, 2]))
            elif r < 0.8:
                rng.choice(c["workers"])["hold"] = rng.choice([0, 1, 2, 4, 8])
            else:
                c.setdefault("kills", []).append([rng.randint(0, 12), rng.randrange(len(c["workers"])), rng.choice(["close", "crash"])])
                c["kills"].sort()
            return self._pool_restrict(c)
        key = "ops" if "ops" in case else "workers"
        xs = [json.loads(json.dumps(x)) for x in case[key]]
        if not xs:
            return case
        for _ in range(rng.randint(1, 3)):
            i = rng.randrange(len(xs))
            k = rng.random()
            if k < 0.3 and len(xs) > 1:
                del xs[i]
            elif k < 0.6:
                xs.insert(i, json.loads(json.dumps(rng.choice(xs))))
            else:
                j = rng.randrange(len(xs))
                xs[i], xs[j] = xs[j], xs[i]
        if key == "ops":
            # call ids name distinct calls: renumber duplicated acquire-type operations
            seen = set()
            fresh = 1 + max([op[1] for op in xs if len(op) > 1 and op[0] in CALL_OPS] + [0])
            for op in xs:
                if op[0] in CALL_OPS:
                    if op[1] in seen:
                        op[1] = fresh
                        fresh += 1
                    seen.add(op[1])
        c = dict(case)
        c[key] = xs
        return c


THEOREMS: list[str] = [
    "HappyModel.C09.resource_trace_satisfies_spec",
    "HappyModel.C09.held_le_limit",
    "HappyModel.C09.no_grant_while_overcommitted",
    "HappyModel.C09.overcommit_only_by_set_capacity",
    "HappyModel.C09.held_plus_available_eq_capacity",
    "HappyModel.C09.release_never_exceeds",
    "HappyModel.C09.grant_fifo",
    "HappyModel.C09.grant_at_most_once",
    "HappyModel.C09.head_not_grantable",
    "HappyModel.C09.served_if_released",
    "HappyModel.C09.mutex_trace_satisfies_spec",
    "HappyModel.C09.mutex_waiters_imply_locked",
    "HappyModel.C09.writer_excludes_all",
    "HappyModel.C09.readers_exclude_writers",
    "HappyModel.C09.rw_readers_le_max",
    "HappyModel.C09.rw_head_not_grantable",
    "HappyModel.C09.sem_count_bounds",
    "HappyModel.C09.sem_head_not_grantable",
    "HappyModel.C09.pool_total_le_max",
    "HappyModel.C09.pool_conservation",
    "HappyModel.C09.pool_head_not_grantable",
    "HappyModel.C09.pool_overshoots_max_current",
    "HappyModel.C09.limiter_active_le_limit",
    "HappyModel.C09.limiter_grant_respects_limit",
    # trace level: the executable judge accepts the model's own transcript, for every operation list
    "HappyModel.C09.semaphore_trace_satisfies_spec",
    "HappyModel.C09.rwlock_trace_satisfies_spec",
    "HappyModel.C09.barrier_trace_satisfies_spec",
    "HappyModel.C09.condition_trace_satisfies_spec",
    "HappyModel.C09.pool_trace_satisfies_spec",
    "HappyModel.C09.pool_trace_satisfies_spec_distinct",
    "HappyModel.C09.pool_no_leak_all_ops",               # active + idle + set-ups in flight = total <= max for every interleaving incl. abandonments, idle closes, warm-up
    "HappyModel.C09.pool_abandon_returns_slot",          # an abandoned set-up gives exactly its reserved slot back
    "HappyModel.C09.pool_head_helps_itself",             # capacity that came back without a release is taken by the first queued call at its next poll
    "HappyModel.C09.pool_abandoned_waiter_leaves",       # an abandoned queued call is no longer in the queue
    "HappyModel.C09.pool_abandoned_handoff_passed_on",   # a connection handed to an abandoned call goes to the next waiter / the idle list
    "HappyModel.C09.pool_idle_close_sound",              # only an idle connection, in the idle session its timer was armed for, never below min, no holder loses one
    "HappyModel.C09.pool_warmup_stops_at_min",
    "HappyModel.C09.mutex_engine_trace_satisfies_spec",            # engine-mode judge accepts the model's engine transcript (ops / got / fin) for every wfE schedule
    "HappyModel.C09.mutex_engine_trace_accepts_iff",               # … and accepts exactly the wfE schedules
    "HappyModel.C09.mutex_engine_immediate_resume_satisfies_spec", # unconditional: every timed op list with each resumable call resuming at once, then fin
    "HappyModel.C09.semaphore_engine_trace_satisfies_spec",
    "HappyModel.C09.resource_engine_trace_satisfies_spec",         # incl. set_capacity; judge's resolved list = model's pend
    "HappyModel.C09.limiter_trace_satisfies_spec",
    "HappyModel.C09.limiter_trace_satisfies_spec_constructed",
    # barrier / condition clauses
    "HappyModel.C09.barrier_trips_exactly_at_nth_arrival",
    "HappyModel.C09.barrier_cohorts",
    "HappyModel.C09.condition_notify_fifo",
    "HappyModel.C09.condition_notify_wakes_first_n",
    "HappyModel.C09.condition_woken_reacquires_mutex",
    # engine + process layer (HappyModel/C01/Process.lean, lemmas of HappyProofs/C02)
    "HappyModel.C09.wait_is_silent",
    "HappyModel.C09.wait_is_silent_program",
    "HappyModel.C09.wait_resumes_at_release_time",
]
C09.theorems = THEOREMS + c09_extra.THEOREMS
PROPERTY = C09()
