"""C16 extension family `pagecache` — infrastructure/page_cache.py (PageCache).

The real PageCache runs inside a real Simulation; a client entity issues read_page / write_page /
flush calls (sequentially, at small gaps, or overlapping).  Every generator segment of every call is
one schedule line (`#s seg i t`); after every segment the public observables are recorded:
pages_cached, dirty_pages and the stats counters, plus (for the model comparison only) the cached
page ids in LRU order with their dirty flags, read from the private `_pages`.

Lean side: HappyModel/C16/Page.lean (model, variants current / repaired), PageSpec.lean (judge over
public observables only), PageDriver.lean; theorems in HappyProofs/C16/Page*.lean.
"""
from __future__ import annotations

import json

FAMILY = "pagecache"
SLOTS = 1
MS = 1_000_000
NPAGES = 6


# ---------------------------------------------------------------------------- implementation
def run_sim(case):
    """-> (transcript lines, schedule lines).  Transcript:
    `seg i | P <id[*]>… | c d | h m e w r` after every segment (`*` = dirty, LRU order, oldest first)
    and `ret i ok | n=<k> | err <Kind>` when operation i finished."""
    from happysimulator.components.infrastructure.page_cache import PageCache
    from happysimulator.core.entity import Entity
    from happysimulator.core.event import Event
    from happysimulator.core.simulation import Simulation
    from happysimulator.core.temporal import Duration, Instant

    ops = case["ops"]
    rl, wl = case["rl"], case["wl"]
    # latencies are whole milliseconds handed over as float seconds: the conversion must be exact
    assert Duration.from_seconds(rl / 1e3).nanoseconds == rl * MS
    assert Duration.from_seconds(wl / 1e3).nanoseconds == wl * MS
    pc = PageCache("pc", capacity_pages=case["cap"], readahead_pages=case["ra"],
                   disk_read_latency_s=rl / 1e3, disk_write_latency_s=wl / 1e3)
    out, sched = [], []

    def snap(i):
        st = pc.stats
        ps = " ".join(f"{pid}{'*' if pg.dirty else ''}" for pid, pg in pc._pages.items())
        line = (f"seg {i} | P {ps} | {pc.pages_cached} {pc.dirty_pages} | "
                f"{st.hits} {st.misses} {st.evictions} {st.dirty_writebacks} {st.readaheads}")
        out.append(" ".join(line.split()))

    class Client(Entity):
        def handle_event(self, ev):
            i = ev.context["metadata"]["i"]
            op = ops[i]
            if len(sched) > 600:
                raise RuntimeError("watchdog: too many deliveries")
            if op[1] == "read":
                gen = pc.read_page(op[2])
            elif op[1] == "write":
                gen = pc.write_page(op[2])
            elif op[1] == "flush":
                gen = pc.flush()
            else:
                raise ValueError(op[1])
            res = "ok"
            try:
                sched.append(f"seg {i} {self.now.nanoseconds}")
                y = next(gen)
                while True:
                    snap(i)
                    sent = yield y
                    sched.append(f"seg {i} {self.now.nanoseconds}")
                    y = gen.send(sent)
            except StopIteration as e:
                snap(i)
                if op[1] == "flush":
                    res = f"n={e.value}"
            except (KeyError, RuntimeError, IndexError, ValueError, AssertionError, AttributeError, TypeError) as e:
                # an internal error of the component escaping to its caller is an observable
                snap(i)
                res = f"err {type(e).__name__}"
            out.append(f"ret {i} {res}")

    cl = Client("client")
    end = max([op[0] for op in ops] + [0]) + 5000 * MS
    sim = Simulation(entities=[pc, cl], end_time=Instant(end))
    for i, op in enumerate(ops):
        sim.schedule(Event(time=Instant(op[0]), event_type="op", target=cl, context={"metadata": {"i": i}}))
    sim.run()
    return out, sched


def run_impl(case):
    out, sched = run_sim(case)
    return out + ["#s " + l for l in sched]


# ---------------------------------------------------------------------------- model / judge blocks
def _op_lines(case):
    return [f"op {i} " + " ".join(map(str, op[1:])) for i, op in enumerate(case["ops"])]


def model_block(case, variant, impl_out):
    sched = [" ".join(l[3:].split()[:2]) for l in impl_out if l.startswith("#s ")]
    return (f"page {variant} {case['cap']} {case['ra']}", _op_lines(case) + sched)


def judge_block(case, impl_out):
    """public observables only: the `P …` field (private `_pages`) is dropped"""
    if impl_out and impl_out[0].startswith("IMPL-"):
        return None
    body = _op_lines(case)
    view = [l for l in impl_out if not l.startswith("#")]
    k = 0
    while k < len(view):
        l = view[k]
        if not l.startswith("seg "):
            return None
        parts = [p.strip() for p in l.split("|")]
        res = "-"
        if k + 1 < len(view) and view[k + 1].startswith("ret "):
            res = "_".join(view[k + 1].split()[2:])
            k += 1
        body.append(f"obs {parts[0].split()[1]} {parts[2]} {parts[3]} {res}")
        k += 1
    return (f"judge-page {case['cap']} {case['ra']}", body)


def nontrivial_key(case, impl_out):
    # non-trivial: at least one eviction or write-back happened, or at least two operations overlapped
    segs = [l for l in impl_out if l.startswith("seg ")]
    if not segs:
        return None
    last = segs[-1].split("|")[-1].split()
    if int(last[2]) + int(last[3]) >= 1 or len(segs) > len(case["ops"]) + 2:
        return json.dumps(case, sort_keys=True)
    return None


# ---------------------------------------------------------------------------- generation
def generate(rng, tier):
    cap = rng.choice([1, 1, 2, 2, 3])
    ra = rng.choice([0, 0, 0, 1, 2])
    rl = rng.choice([1, 1, 2, 5])
    wl = rng.choice([1, 2, 2, 5])
    n = rng.choice([3, 4, 6, 9, 12, 16])
    style = rng.random()
    if style < 0.25 and rng.random() < 0.6:
        ra = 0                  # sequential and no read-ahead: the LRU clause is judged through hits/misses
    hot = rng.randrange(NPAGES)
    npg = rng.choice([2, 3, 4, NPAGES])
    wr = rng.choice([0.2, 0.4, 0.4, 0.6])
    # read-ahead next to dirty pages: a page that is cached and dirty lies in the read-ahead window of
    # a page that is read while the cache still has room (the prefetch must leave it alone)
    neigh = rng.random() < 0.25
    if neigh:
        ra = rng.choice([1, 1, 2, 3])
        cap = rng.choice([2, 3, 3, 4, 5])
    t = 0
    ops = []
    lastw = None
    if neigh and rng.random() < 0.4:
        # prelude on the empty cache: dirty a page, then read one of the pages whose window covers it
        q = rng.randrange(1, NPAGES)
        back = min(q, rng.randrange(1, ra + 1))
        ops.append([t, "write", q])
        t += rng.choice([wl, rl + wl, 10, 20]) * MS
        if rng.random() < 0.3:
            ops.append([t, "read", q])
            t += rng.choice([1, rl, 10]) * MS
        ops.append([t, "read", q - back])
        lastw = q
    elif neigh:
        # a page is written while the read-ahead that targets it is waiting for the disk: read p
        # misses at t (disk read until t + rl), prefetch i waits from t + i*rl to t + (i+1)*rl
        p0 = rng.randrange(0, NPAGES - 1)
        i = rng.randrange(1, ra + 1)
        if rng.random() < 0.3:
            ops.append([t, "write", rng.randrange(NPAGES)])
            t += rng.choice([wl, 10, 20]) * MS
        ops.append([t, "read", p0])
        off = i * rl * MS + rng.choice([0, 100_000, rl * MS // 2, rl * MS - 100_000, rl * MS])
        ops.append([t + off, "write", min(NPAGES - 1, p0 + i)])
        if rng.random() < 0.3:
            ops.append([t + off + rng.choice([0, 100_000]), "write", min(NPAGES - 1, p0 + rng.randrange(1, ra + 1))])
        t += off
        lastw = min(NPAGES - 1, p0 + i)
    if not neigh and rng.random() < 0.3:
        # the eviction stall: the cache is full and its LRU victim dirty, so a call that misses waits
        # for the victim's write-back (wl) before it inserts its page; meanwhile other calls on the SAME
        # page run — a read that loads it clean inside the stall (needs rl < wl), a second write, a read
        # that is still on the disk when the stalled call resumes.  A write_page that returns must
        # leave its page dirty whatever happened to the page during the stall.
        if rng.random() < 0.7:
            wl = rl + rng.choice([1, 2, 3])
        for _ in range(rng.choice([1, 1, 2])):
            base = rng.randrange(NPAGES)
            for j in range(cap):                                  # fill with dirty pages, oldest first
                ops.append([t, "write", (base + 1 + j) % NPAGES])
                t += rng.choice([wl, 2 * wl, 10]) * MS
            if rng.random() < 0.3:
                ops.append([t, "read", (base + 1) % NPAGES])      # … or make the victim another page
                t += rng.choice([1, 10]) * MS
            first = "write" if rng.random() < 0.75 else "read"
            ops.append([t, first, base])
            for _ in range(rng.choice([1, 1, 2])):
                e = rng.choice([0, 100_000, 100_000, MS // 2, (wl - rl) * MS - 100_000, (wl - rl) * MS, wl * MS - 100_000, wl * MS])
                ops.append([t + max(0, e), "read" if (first == "write" and rng.random() < 0.75) else "write", base])
            t += (wl + rl) * MS + rng.choice([0, MS, 10 * MS])
            if rng.random() < 0.5:
                ops.append([t, "flush"])
                t += (cap + 1) * wl * MS
        ops.sort(key=lambda o: o[0])
        n = rng.choice([0, 2, 4, 6])
    for _ in range(n):
        if style < 0.25:
            t += rng.choice([20, 25, 40]) * MS                      # sequential: nothing overlaps
        elif style < 0.55:
            t += rng.choice([0, 0, 100_000, 500_000, MS, MS, 2 * MS, 3 * MS, 6 * MS])
        else:                                                       # ties / exactly one latency apart
            t += rng.choice([0, 0, 100_000, rl * MS, wl * MS, abs(wl - rl) * MS, (rl + wl) * MS, 2 * rl * MS, 12 * MS])
        p = hot if rng.random() < 0.35 else rng.randrange(npg)
        r = rng.random()
        if neigh and lastw is not None and rng.random() < 0.4:
            back = rng.randrange(1, ra + 1)
            if lastw >= back:
                ops.append([t, "read" if rng.random() < 0.8 else "write", lastw - back])
                continue
        if r < wr:
            ops.append([t, "write", p])
            lastw = p
        elif r < 0.88:
            ops.append([t, "read", p])
        else:
            ops.append([t, "flush"])
    # quiesce, then a final flush on its own
    if rng.random() < 0.8:
        t += 200 * MS
        ops.append([t, "flush"])
    return {"family": FAMILY, "cap": cap, "ra": ra, "rl": rl, "wl": wl, "ops": ops}


def mutate(case, rng):
    xs = [list(x) for x in case["ops"]]
    if not xs:
        return case
    for _ in range(rng.randint(1, 3)):
        i = rng.randrange(len(xs))
        k = rng.random()
        if k < 0.25 and len(xs) > 1:
            del xs[i]
        elif k < 0.5:
            o = list(rng.choice(xs))
            o[0] = xs[i][0]
            xs.insert(i, o)
        elif k < 0.75:
            xs[i][0] = max(0, xs[i][0] + rng.choice([-1, 1]) * rng.choice([100_000, MS, case["rl"] * MS, case["wl"] * MS]))
        elif xs[i][1] != "flush":
            xs[i][2] = rng.randrange(NPAGES)
    xs.sort(key=lambda o: o[0])
    c = dict(case)
    c["ops"] = xs
    return c


# ---------------------------------------------------------------------------- metadata
THEOREMS = [
    "HappyModel.C16.Page.pagecache_size_le_capacity",
    "HappyModel.C16.Page.pagecache_dirty_subset_cached",
    "HappyModel.C16.Page.pagecache_dirty_never_dropped",
    "HappyModel.C16.Page.pagecache_dirty_never_dropped_quiescent",
    "HappyModel.C16.Page.pagecache_dirtied_eq_writtenback_plus_dirty",
    "HappyModel.C16.Page.pagecache_evictions_account",
    "HappyModel.C16.Page.pagecache_write_leaves_page_dirty",
    "HappyModel.C16.Page.pagecache_trace_write_leaves_page_dirty",
    "HappyModel.C16.Page.pagecache_dirty_subset_mayDirty",
    "HappyModel.C16.Page.pagecache_write_not_mayDirty_dirties",
    "HappyModel.C16.Page.pagecache_capacity_exceeded_current",
    "HappyModel.C16.Page.pagecache_size_le_capacity_fails_current",
    "HappyModel.C16.Page.pagecache_dirty_dropped_current",
    "HappyModel.C16.Page.pagecache_evict_keyerror_current",
]
RULE = ("family pagecache: real Simulation, PageCache(capacity_pages 1–3, readahead_pages 0–2, disk read/write latency 1–5 ms), "
        "3–17 read_page/write_page/flush calls on page ids 0–5 (hot-page bias) issued by a client entity sequentially, at 0–6 ms gaps, "
        "or at ties / exactly one latency apart (several calls in flight), usually followed by a flush at quiescence; 30 % of the cases open with "
        "eviction-stall rounds (the cache filled with dirty pages, a write_page / read_page that misses and waits for the dirty victim's write-back "
        "while reads and writes of the SAME page start 0 – wl later, write latency > read latency so that a read loads the page inside the stall); "
        "non-trivial: ≥1 eviction or write-back, or calls that overlapped")
TRUSTED = [
    "pagecache: hv/props/c16_page.py client entity wraps every PageCache generator (read_page / write_page / flush) and records one schedule line per segment; the schedule of the real run is an input of the model",
    "pagecache: the transcript compared with the model also shows the cached page ids in LRU order with their dirty flags, read from the private `PageCache._pages`; the Lean Spec judge gets only pages_cached, dirty_pages, the stats counters and return values / escaped exceptions",
]
ASSUMPTIONS = [
    "pagecache: PageCache carries no page contents, so 'write-back data is never discarded' is judged through the public counters: dirty_writebacks + dirty_pages may only grow in the segment in which a write_page returns (by one) and may only fall by the one victim a read/write call holds while its write-back latency is served (HappyModel/C16/PageSpec.lean); a disk write is taken to store the page as it is when the write latency has elapsed",
    "pagecache: per page, the write-back law is judged as: a returning write_page(p) may leave dirty_writebacks + dirty_pages unchanged only if another write_page(p) has returned since dirty_pages was last observed to be 0 (only then can p be dirty already); otherwise the page the call wrote was not left dirty and will never be written back (signature pagecache/writeback/dirty-page-dropped); the model-level statement is pagecache_write_leaves_page_dirty",
    "pagecache: the LRU clause ('eviction removes the entry the policy designates') is judged through hits and misses only while calls have not overlapped and read-ahead is off (a call is a hit iff its page is among the capacity most recently accessed distinct pages); with overlaps or read-ahead the LRU order is compared with the model only",
    "pagecache: a flush is judged in full (returns the number of pages dirty at its start, leaves none dirty) only when no other segment ran between its first and last segment",
    "pagecache: latencies are whole milliseconds passed as float seconds (conversion to nanoseconds checked exact in run_impl); nothing in PageCache depends on the clock, segments carry no time",
]
HYPOTHESES = [
    "pagecache theorems: capacity_pages ≥ 1 (the constructor rejects less); repaired variant (fixes/C16-pagecache-capacity.diff); schedules are arbitrary lists of start/resume actions (a resume of a call that is not suspended is a no-op); pagecache_write_leaves_page_dirty holds for both variants, any capacity and any state; pagecache_dirty_subset_mayDirty / pagecache_write_not_mayDirty_dirties: repaired variant, every capacity and read-ahead width, every schedule",
]
PARTIAL = {
    "HappyModel.C16.Page.pagecache_dirtied_eq_writtenback_plus_dirty": "proves the Spec's write-back law in its global form (W = dirty_writebacks + dirty_pages + victims in write-back, at most one per suspended call) and pagecache_evictions_account proves the evictions clause per segment; the per-page clause the judge applies (mayDirty) is proved along every schedule of the repaired model: pagecache_dirty_subset_mayDirty (the judge's list over-approximates the dirty pages), pagecache_write_not_mayDirty_dirties (a returning write_page(p) with p outside the list makes W grow by one and leaves p dirty), pagecache_trace_write_leaves_page_dirty (every returning write_page leaves its page dirty). NOT proved as 'the executable judge accepts every model transcript': the translation of these statements into jstep's per-call debt arithmetic (phi, b, gainMin/gainMax), its flush clause (an undisturbed flush returns the number of pages dirty at its start and leaves none dirty) and its LRU hit/miss clause (stack distance, non-overlapping calls, read-ahead off) are checked on implementation transcripts only",
}
