"""C19 extension family `win` — StreamProcessor windows (streaming/stream_processor.py).

A real `StreamProcessor` (Tumbling / Sliding / Session windows, every LateEventPolicy, allowed lateness,
self-scheduled and externally injected Watermark events) runs inside a real `Simulation`.  A harness source
entity forwards the records as `Process` events, a harness sink records every `WindowResult` it receives
(key, window start / end as integer ns, record_count and the aggregate = (sum of the integer values, the ids
of the records)), a second sink records the `LateEvent` side output.  A tracing wrapper around
`handle_event` records which generator segment ran at which instant (`p` = a Process, `wa`/`wx` = first
segment of a self-scheduled / injected Watermark, `wb` = its second segment, where windows are emitted).
That schedule is replayed through the Lean transition system `HappyModel.C19.Win`; the transcripts are
diffed; the Lean Spec (`judge-win`) judges the implementation's transcript on its own:

  * every accepted record is owed to exactly the windows that contain its event time (tumbling: one,
    sliding: all multiples of the slide), every WindowResult carries exactly the records assigned to that
    window so far, is justified by a record it has not shown before (never twice), and at every emission
    point no closed window with an unshown record is left out (never silently dropped);
  * sessions: an emitted session consists of records not emitted before, spans [min, max + gap] of them,
    is gap-connected, leaves no pending record within the gap outside, and no closed session is left;
  * a record is late exactly when event time + allowed lateness < watermark, late records go where the
    policy says (side output received exactly once), the public counters add up.

RESTRICT_UNTIL_FIXED: two defects of the pinned tree (fixes/C19-win-*.diff) make the clause false:
  (1) a record within the allowed lateness whose tumbling/sliding window was already emitted opens a second
      WindowState under DROP / SIDE_OUTPUT: the window is emitted twice, the second result without the
      records of the first;
  (2) a session record earlier than the session's first record (but within the gap) does not move
      window_start: the emitted bounds do not cover it, and a still earlier record within the gap of it
      lands in a different session.
The model describes the repaired code.  While the flag is True the generator does not produce the two
triggers (allowed lateness 0 for tumbling/sliding unless the policy is UPDATE; no session record within
`gap` below an earlier record of its key), so the check is quiet on the unpatched tree; the witnesses are in
corpus/C19/parked/.  Set it to False (or HV_C19_WIN_UNRESTRICTED=1) once the patches are applied.
"""
from __future__ import annotations

import json
import os

FAMILY = "win"
SLOTS = 2
RESTRICT_UNTIL_FIXED = True

Q = 125_000_000          # 0.125 s: arrival grid
H = 250_000_000          # 0.25 s: event-time / size / gap / lateness grid
END_PAD = 62_500_000     # the run ends off the grid so that no event sits exactly on end_time

THEOREMS = [
    "HappyModel.C19.Win.tumbling_assigns_exactly_one",
    "HappyModel.C19.Win.sliding_assigns_size_div_slide",
    "HappyModel.C19.Win.assign_eq_specWindows",
    "HappyModel.C19.Win.mem_specWindows_iff",
    "HappyModel.C19.Win.stats_conservation",
    "HappyModel.C19.Win.window_records_accounted_once",
    "HappyModel.C19.Win.window_records_accounted_once_full",
    "HappyModel.C19.Win.window_core_clauses_all_kinds",
    "HappyModel.C19.Win.session_judge_needs_distinct_ids",
    "HappyModel.C19.Win.session_records_conserved",
    "HappyModel.C19.Win.session_records_within_gap_together",
    "HappyModel.C19.Win.judge_rejects_double_emission",
    "HappyModel.C19.Win.judge_rejects_dropped_window",
]
RULE = ("family win (2/20): StreamProcessor with tumbling (size 0.5–4 s) / sliding (slide dividing, not dividing or exceeding the size) / "
        "session (gap 0.25–2 s) windows, allowed lateness 0–2.5 s, DROP / SIDE_OUTPUT (with and without a side entity) / UPDATE, watermark interval "
        "0.25–2 s, 1–40 records over 1–3 keys with out-of-order, boundary and late event times, 0–3 injected Watermark events; "
        "non-trivial when a WindowResult was received")
TRUSTED = [
    "hv/props/c19_win.py harness (source forwarding Process events, WindowResult sink, LateEvent sink, tracing wrapper around "
    "StreamProcessor.handle_event that records which segment ran when and which Event objects a segment returned)",
    "aggregate_fn supplied by the harness returns (sum of values, sorted record ids); ids are compared sorted",
]
ASSUMPTIONS = [
    "win: event times, sizes, slides, gaps, lateness are multiples of 0.25 s, arrivals of 0.125 s, all ≥ 0, so that the code's float floor-division "
    "and additions are exact; slides such as 0.3 s and negative event times are not generated",
    "win: a sliding window that would start before 0 does not exist (assign_windows stops at start < 0), so early records belong to fewer windows",
    "win: a window is re-emitted with all its records when a record arrives after its emission (UPDATE policy or allowed lateness); "
    "a session already emitted is never re-opened (a later record starts a new session)",
    "win: emission order inside one Watermark firing is not promised by the code and not judged (results are compared sorted)",
    "win: SIDE_OUTPUT without a side_output entity counts the record in late_events_side_output and discards it (accepted as the API's behaviour)",
    "win: the first watermark is the event time of the first accepted record, later ones the simulation time of the previous firing (the code's rule; "
    "the judge takes the published watermark_s as given and requires only max(incoming, current))",
]
HYPOTHESES = [
    "win: window_records_accounted_once_full, session windows: the record ids of the schedule are distinct (procIds sched Nodup) — the judge identifies the members of "
    "an emitted session by id; `session_judge_needs_distinct_ids` shows the hypothesis cannot be dropped; the harness numbers the records 0, 1, 2, …; tumbling / sliding "
    "windows and the core clauses of all kinds need no such hypothesis (window_core_clauses_all_kinds)",
    "win: the engine resumes `yield 0.0` at the same instant and delivers returned events (C01/C02); the end-of-run clause "
    "'the watermark daemon fired within one interval of the end' is judged on the real run, not proved (the schedule is an input of the model)",
]
PARTIAL = {}   # `window_records_accounted_once_full` is proved: every window kind against core + extra clauses

KINDS = ["tumbling", "sliding", "session"]
POLS = ["drop", "side", "update"]


def _restricted():
    return RESTRICT_UNTIL_FIXED and not os.environ.get("HV_C19_WIN_UNRESTRICTED")


# ---------------------------------------------------------------------------------------------- harness

def _ns(x):
    return int(round(float(x) * 1e9))


class _Harness:
    def __init__(self, case):
        from happysimulator.components.streaming.stream_processor import (
            LateEventPolicy, SessionWindow, SlidingWindow, StreamProcessor, TumblingWindow)
        from happysimulator.core.entity import Entity
        from happysimulator.core.event import Event
        from happysimulator.core.simulation import Simulation
        from happysimulator.core.temporal import Instant

        HH = self
        self.case = case
        self.lines = []        # [text, wb index or None]
        self.ev2wb, self.got = {}, {}
        self.nwb = 0
        self.keep = []
        self.late_ids = {}
        self.late_open = 0
        self.stray = []

        class Sink(Entity):
            def handle_event(self, ev):
                if ev.event_type == "WindowResult":
                    c = ev.context
                    agg = c.get("result")
                    try:
                        ssum, ids = agg
                    except Exception:
                        ssum, ids = -1, []
                    text = (f"{self.now.nanoseconds} em {int(str(c.get('key'))[1:])} {_ns(c.get('window_start'))} {_ns(c.get('window_end'))} "
                            f"{c.get('record_count')} {ssum} " + " ".join(map(str, ids))).rstrip()
                    j = HH.ev2wb.get(id(ev))
                    if j is None or id(ev) in HH.got:
                        HH.stray.append(text.replace(" em ", " stray-em ", 1))
                    else:
                        HH.got[id(ev)] = True
                        HH.ems.setdefault(j, []).append(text)
                return []

        class LateSink(Entity):
            def handle_event(self, ev):
                if ev.event_type == "LateEvent":
                    c = ev.context
                    rid = HH.late_ids.get(id(ev), 999999)
                    v = c.get("value")
                    HH.late_open -= 1
                    HH.log(f"lv {rid}", f"late {int(str(c.get('key'))[1:])} {_ns(c.get('event_time_s'))} {v[1] if isinstance(v, tuple) else -1}")
                return []

        class Src(Entity):
            def handle_event(self, ev):
                r = ev.context["rec"]
                return [Event(time=self.now, event_type="Process", target=HH.proc,
                              context={"key": f"k{r[1]}", "value": (ev.context["rid"], r[3]), "event_time_s": r[2] / 1e9,
                                       "rid": ev.context["rid"]})]

        class TProc(StreamProcessor):
            def handle_event(self, event):
                g = super().handle_event(event)
                return HH.traced(g, event)

        self.ems = {}
        self.sink, self.late, self.src = Sink("sink"), LateSink("late"), Src("src")
        if case["kind"] == "tumbling":
            wt = TumblingWindow(case["size"] / 1e9)
        elif case["kind"] == "sliding":
            wt = SlidingWindow(case["size"] / 1e9, case["slide"] / 1e9)
        else:
            wt = SessionWindow(case["gap"] / 1e9)
        pol = {"drop": LateEventPolicy.DROP, "side": LateEventPolicy.SIDE_OUTPUT, "update": LateEventPolicy.UPDATE}[case["policy"]]
        self.proc = TProc("proc", wt, lambda recs: (sum(v for _, v in recs), sorted(i for i, _ in recs)), self.sink,
                          allowed_lateness_s=case["late"] / 1e9, late_event_policy=pol,
                          side_output=self.late if case["side"] else None, watermark_interval_s=case["interval"] / 1e9)
        self.sim = Simulation(end_time=Instant(case["end"]), entities=[self.proc, self.sink, self.late, self.src])
        self.ext = set()
        for rid, r in enumerate(case["recs"]):
            self.sim.schedule(Event(time=Instant(r[0]), event_type="emit", target=self.src, context={"rec": r, "rid": rid}))
        for t, w in case["wms"]:
            ev = Event(time=Instant(t), event_type="Watermark", target=self.proc, context={"watermark_s": w / 1e9})
            self.ext.add(id(ev))
            self.keep.append(ev)
            self.sim.schedule(ev)

    def now(self):
        return self.proc.now.nanoseconds

    def stats(self):
        s = self.proc.stats
        return (f"| {s.events_processed} {s.windows_emitted} {s.late_events} {s.late_events_dropped} {s.late_events_updated} "
                f"{s.late_events_side_output} {self.proc.active_windows} {_ns(self.proc.watermark_s)}")

    def log(self, act, out, wb=None):
        self.lines.append([" ".join(f"{self.now()} {act} => {out}".split()), wb])

    def traced(self, g, event):
        et = event.event_type
        if et == "Process":
            c = event.context
            b = self.proc.stats
            y = g.send(None)
            a = self.proc.stats
            if a.late_events == b.late_events:
                status = "ok"
            elif a.late_events_dropped > b.late_events_dropped:
                status = "lateD"
            elif a.late_events_side_output > b.late_events_side_output:
                status = "lateS"
            elif a.late_events_updated > b.late_events_updated:
                status = "lateU"
            else:
                status = "late?"
            self.log(f"p {c['rid']} {int(c['key'][1:])} {_ns(c['event_time_s'])} {c['value'][1]}", f"{status} {self.stats()}")
            try:
                while True:
                    sent = yield y
                    y = g.send(sent)
            except StopIteration as e:
                for ev in e.value or []:
                    if ev.event_type == "LateEvent":
                        self.keep.append(ev)
                        self.late_ids[id(ev)] = c["rid"]
                        self.late_open += 1
                return e.value
        elif et == "Watermark":
            w = _ns(event.context.get("watermark_s", 0.0))
            y = g.send(None)
            self.log(("wx" if id(event) in self.ext else "wa") + f" {w}", f"wm {self.stats()}")
            try:
                sent = yield y
                y = g.send(sent)
                while True:       # (the real code has exactly two segments)
                    sent = yield y
                    y = g.send(sent)
            except StopIteration as e:
                j = self.nwb
                self.nwb += 1
                n = 0
                for ev in e.value or []:
                    if ev.event_type == "WindowResult":
                        self.keep.append(ev)
                        self.ev2wb[id(ev)] = j
                        n += 1
                self.log("wb", f"n {n} {self.stats()}", wb=j)
                return e.value
        else:
            return (yield from g)

    def run(self):
        self.sim.run()
        out = []
        for text, j in self.lines:
            out.append(text)
            if j is not None:
                out += sorted(self.ems.get(j, []), key=lambda l: [int(x) for x in l.split()[2:5]])
        out += self.stray
        out.append(" ".join(f"{self.case['end']} fin => {self.stats()} | fly {self.late_open}".split()))
        return out


def run_impl(case):
    return _Harness(case).run()


# ---------------------------------------------------------------------------------------------- generation

def generate(rng, tier):
    restricted = _restricted()
    kind = rng.choice(["tumbling", "tumbling", "sliding", "sliding", "session", "session"])
    size = rng.choice([2, 4, 4, 6, 8, 16]) * H
    r = rng.random()
    if r < 0.6:
        slide = rng.choice([d for d in (1, 2, 3, 4, 8) if (size // H) % d == 0]) * H
    elif r < 0.85:
        slide = rng.choice([3, 5, 6]) * H          # does not divide the size (or exceeds it)
    else:
        slide = size + rng.choice([1, 2, 4]) * H    # gaps between windows: some records are in no window
    gap = rng.choice([1, 2, 2, 4, 8]) * H
    late = rng.choice([0, 0, 0, 1, 2, 4, 10]) * H
    policy = rng.choice(POLS)
    if restricted and kind != "session" and policy != "update":
        late = 0
    interval = rng.choice([1, 2, 2, 4, 4, 8]) * H
    nk = rng.choice([1, 1, 2, 3])
    n = rng.choice([1, 2, 3, 5, 8, 12, 20, 30, 40])
    t = rng.choice([0, 0, Q, 4 * Q, 8 * Q])
    recs, wms = [], []
    span = size if kind != "session" else gap
    seen = {}
    for i in range(n):
        x = rng.random()
        if x < 0.35:
            pass
        elif x < 0.8:
            t += rng.choice([1, 1, 2, 4]) * Q
        else:
            t += rng.choice([4, 8, 8, 16, 24]) * Q
        key = rng.randrange(nk)
        y = rng.random()
        base = (t // H) * H
        if y < 0.35:
            et = base
        elif y < 0.6:
            et = max(0, base - rng.choice([1, 1, 2, 3, 4, 6, 8, 12, 16]) * H)
        elif y < 0.75:
            et = base + rng.choice([1, 2, 4, 8]) * H
        elif y < 0.9:   # on / next to a window boundary or the lateness edge
            et = max(0, (base // span) * span + rng.choice([-1, 0, 0, 1]) * H)
        else:
            et = max(0, base - interval - late + rng.choice([-1, 0, 1]) * H)
        if i == 0 and rng.random() < 0.7:
            et = min(et, base)          # a first record far ahead makes everything after it late
        if kind == "session" and restricted:
            # no record strictly below an earlier record of its key but within the gap of it (defect 2)
            for _ in range(50):
                bad = [e for e in seen.get(key, []) if et < e <= et + gap]
                if not bad:
                    break
                et = max(bad)
        seen.setdefault(key, []).append(et)
        recs.append([t, key, et, rng.choice([0, 1, 1, 2, 3, 5, 9])])
        if rng.random() < 0.06 and len(wms) < 3:
            wms.append([t + rng.choice([0, 1, 2, 3]) * Q, max(0, (t // H) * H + rng.choice([-8, -2, 0, 0, 2, 4, 8]) * H)])
    end = t + max(size if kind != "session" else gap, 8 * H) + late + 3 * interval + 16 * H + END_PAD
    return {"family": FAMILY, "kind": kind, "size": size, "slide": slide, "gap": gap, "late": late, "policy": policy,
            "side": rng.random() < 0.8, "interval": interval, "recs": recs, "wms": wms, "end": end}


def _hdr(case):
    return (f"{KINDS.index(case['kind'])} {case['size']} {case['slide']} {case['gap']} {case['late']} "
            f"{POLS.index(case['policy'])} {1 if case['side'] else 0} {case['interval']}")


def model_block(case, variant, impl_out):
    sched = [l.split(" => ")[0] for l in impl_out if " => " in l]
    return ("win " + _hdr(case), sched)


def judge_block(case, impl_out):
    if not impl_out or impl_out[0].startswith("IMPL-"):
        return None
    return ("judge-win " + _hdr(case), list(impl_out))


def nontrivial_key(case, impl_out):
    if any(" em " in l for l in impl_out):
        return json.dumps(case, sort_keys=True)
    return None


def shrink(case):
    for key in ("recs", "wms"):
        xs = case[key]
        n = len(xs)
        step = max(1, n // 2)
        while step >= 1:
            for i in range(0, n, step):
                cand = dict(case)
                cand[key] = xs[:i] + xs[i + step:]
                if len(cand[key]) < n:
                    yield cand
            step //= 2
    if case["late"]:
        yield dict(case, late=0)
    if not case["side"]:
        yield dict(case, side=True)
    # earlier end (keeps the off-grid padding)
    last = max([r[0] for r in case["recs"]] + [w[0] for w in case["wms"]] + [0])
    for extra in (4 * H, 8 * H, 16 * H):
        e = last + extra + END_PAD
        if e < case["end"]:
            yield dict(case, end=e)


def mutate(case, rng):
    recs = [list(r) for r in case["recs"]]
    wms = [list(w) for w in case["wms"]]
    for _ in range(rng.randint(1, 3)):
        x = rng.random()
        if x < 0.25 and len(recs) > 1:
            del recs[rng.randrange(len(recs))]
        elif x < 0.6 and recs:
            r = recs[rng.randrange(len(recs))]
            r[2] = max(0, r[2] + rng.choice([-4, -2, -1, 1, 2, 4]) * H)
        elif x < 0.8 and recs:
            r = list(recs[rng.randrange(len(recs))])
            r[2] = max(0, r[2] + rng.choice([-2, -1, 0, 1]) * H)
            recs.append(r)
        else:
            t = (recs[rng.randrange(len(recs))][0] if recs else 0) + rng.choice([0, 1, 2]) * Q
            wms.append([t, max(0, (t // H) * H + rng.choice([-4, 0, 2, 6]) * H)])
    recs.sort(key=lambda r: r[0])
    out = dict(case, recs=recs, wms=wms[:4])
    if _restricted():
        if case["kind"] == "session":
            return case
    return out
