"""C18 — logical clocks respect causality; CRDT replicas converge to the specified value.

Correspondence: real `LamportClock` / `VectorClock` / `HybridLogicalClock` and `PNCounter` /
`LWWRegister` / `ORSet` objects from /repo are driven through generated histories; the same
histories go to the Lean model (`HappyModel/C18`), transcripts are diffed; the Lean Spec predicates
(`HappyModel/C18/Spec.lean`) judge the implementation's own outputs.
"""
from __future__ import annotations

import json
import random

from hv import core


class C18(core.Property):
    id = "C18"
    driver = "drv-c18"
    lake_targets = ["HappyProofs.C18.Props", "drv-c18"]
    audit_imports = ["HappyProofs.C18.Props"]
    lean_files = ["HappyModel/C18/*.lean", "HappyProofs/C18/*.lean", "HappyModel/Proto.lean", "Driver/C18.lean"]
    theorems = []  # filled from THEOREMS below
    partial_theorems = {}
    variants = ["repaired", "current"]   # store family: adoption of a peer's key (fixes/C18-store-adopts-remote-node-id)
    quick_cases = 4500
    thorough_cases = 100000
    pool_workers = 1     # a case takes a few ms; the fork pool costs more than it saves (93 s vs 20 s under load)
    rule = ("family clocks: history of ≤40 loc/send/recv events among 2–5 nodes with per-node physical readings "
            "(skewed, drifting, jumping backwards), every node's VectorClock constructed with the full, a partial, an empty or "
            "a self-only membership list; family store: 2–4 CRDTStore replicas of one CRDT type (G/PN counter, OR-set, LWW "
            "register), 1–3 keys, full / partial / ring peer lists, ≤40 client writes, gossip ticks and deliveries of pushed and "
            "answered states in any order with duplication and loss, optionally a final phase of lossless gossip rounds (the network "
            "has healed: tick, push delivered, answer delivered; nobody writes), optionally the same writes mirrored on several stores "
            "(equal values, different state); non-trivial when a message is delivered after a write; family crdt: ≤40 inc/dec/lset/oadd/orem/merge/roundtrip operations over 2–4 replicas, "
            "≤3 elements; a case is non-trivial when it contains at least one receive (clocks) or one merge after an update (crdt); "
            "distinct = distinct case content")
    trusted_base = [
        "hv/props/c18.py adapters (drive the real clock/CRDT objects, canonical transcript)",
        "node ids '0'..'9' (string order = numeric order)",
        "CPython dict/set semantics",
        "store family: the real CRDTStore entities run inside a real Simulation; the Network subclass HNet keeps the real "
        "Network.send (message construction) and replaces routing by the case's delivery schedule (a delivery re-injects "
        "the recorded message's metadata at the destination store); the gossip peer of a tick is steered by seeding the "
        "global `random` right before the tick so that random.choice picks the peer the case names",
        "store family: register writes are made with get_or_create(key).set(value, timestamp) (a Write event cannot carry a timestamp)",
    ]
    assumptions = [
        "LWW: the Spec accepts any seen write with a maximal timestamp (writes with identical timestamps and different values are ambiguous by the property text)",
        "OR-set elements are strings in the harness (to_dict stringifies keys)",
    ]
    hypotheses = [
        "lww_merge_comm and the register clause of same_updates_equal_values: equal timestamps carry equal values "
        "(LWW.Coherent / OpsCoherent); lww_merge_not_comm_incoherent and a decided example show that both fail without it; "
        "lww_merge_assoc, lww_merge_idem and lww_spec need no hypothesis",
        "orset_merge_idem: no live entry carries a tombstoned tag (ORSet.WF); holds in every reachable replica state "
        "(orset_reachable_wf), fails for arbitrary values (decided example)",
        "OR-set merge laws are extensional (ORSet.Equiv: same members of ents and of tomb, hence the same has); "
        "the lists are used as sets and seq is the replica-local tag counter",
        "same_updates_equal_values: 'same updates' = the knowledge sets of the two replicas have the same members (SameSet)",
        "store_* theorems are about the repaired adoption (variant `repaired`, /repo commit 9d1309d); "
        "store_adoption_current_loses_increment is the decided counterexample for the code before the fix",
        "store level: 'received' = contained in a serialised state that was delivered (a message carries what its sender had "
        "received when it was built); rep_merge_comm needs LWW.Coherent, rep_merge_idem and rep_adopt need ORSet.WF (reachable states have it)",
        "exchange_all_converges / store_exchange_converges: the group merges only from its own members and every member's state "
        "reaches every member during the exchange (`reach`), no updates during the exchange",
        "store_deliver_is_keywise_merge: the message lists each key once and its destination is a store (true of every message "
        "the protocol layer builds; stated as hypotheses, with a decided example)",
        "store_gossip_phase_converges: the script ends in a phase without client writes (ticks, deliveries, lossless rounds); the "
        "judge's liveness clause store/gossip/no-convergence-after-heal-and-rounds uses the flows a lossless round owes by the "
        "script and the peer lists (push to the chosen peer, answer when the peer lists the sender), the theorem the merges the "
        "model performs through its messages (`gossipPairs`); the judge's clause itself is discharged on the model's transcript "
        "at knowledge level by union_after_rounds / store_trace_satisfies_spec (per key the two reaches differ for unheld keys)",
        "clocks_trace_satisfies_spec: the observation of an event is (L, V, H of the model's record, the dict clocks' verdicts against "
        "all events oldest first); the transcript prints the first n components of V (all components when every event's node is < n)",
        "store_trace_satisfies_spec (the store judge returns no violation on the model's own transcript: all per-step clauses "
        "and the final liveness clause) is proved for every well-formed script — WFPeers / WFStep: the stores named by the "
        "script and the peer lists are < n, which the generator guarantees; no bound on keys is needed. traceObs / storeObs are "
        "the judge-visible projection of Driver.runStore's lines by construction (not proved at string level). The older "
        "`def store_trace_satisfies_spec_full` in Props.lean states the same with the well-formedness written as a match and an "
        "extra key < nkeys premise; it is implied by store_trace_satisfies_spec but left as a def (Props.lean is frozen)",
    ]

    # ------------------------------------------------------------------ generation
    def generate(self, rng: random.Random, i: int, tier: str) -> dict:
        if i % 3 == 0:
            return self.gen_clocks(rng, tier)
        if i % 3 == 1:
            return self.gen_crdt(rng, tier)
        return self.gen_store(rng, tier)

    def gen_clocks(self, rng, tier):
        n = rng.randint(2, 5)
        ln = rng.choice([3, 6, 12, 25, 40])
        phys = [rng.choice([0, 5, 100, 10**9]) for _ in range(n)]
        evs, sent = [], []
        for _ in range(ln):
            node = rng.randrange(n)
            mode = rng.random()
            if mode < 0.35:
                pass  # frozen clock
            elif mode < 0.75:
                phys[node] += rng.choice([1, 1, 2, 1000, 10**6])
            elif mode < 0.9:
                phys[node] = max(0, phys[node] - rng.choice([1, 3, 1000]))  # jump backwards
            else:
                phys[node] = rng.choice([0, 7, 10**9 + 5, max(phys)])
            r = rng.random()
            if r < 0.3:
                evs.append(["loc", node, phys[node]])
            elif r < 0.6 or not sent:
                m = len(sent)
                sent.append(m)
                evs.append(["send", node, m, phys[node]])
            else:
                m = rng.choice(sent) if rng.random() < 0.7 else sent[-1]
                evs.append(["recv", node, m, phys[node]])
        case = {"family": "clocks", "n": n, "events": evs}
        # membership each node's VectorClock is constructed with: full and identical on every node, or partial
        # (a node that has not heard of a peer yet has no entry for it; entries appear on receive), so that the
        # key sets of two compared clocks differ; ids ≥ n are members that never take part
        mk = rng.random()
        if mk < 0.3:
            pass                                                    # full membership (the key is absent)
        elif mk < 0.6:
            case["members"] = [[i] for i in range(n)]               # every node knows only itself
        elif mk < 0.7:
            case["members"] = [[] for _ in range(n)]                # empty list: own entry is added by the constructor
        else:
            pool = list(range(n)) + [n, n + 1]
            case["members"] = [sorted(rng.sample(pool, rng.randint(0, len(pool)))) for _ in range(n)]
        return case

    def gen_crdt(self, rng, tier):
        n = rng.randint(2, 4)
        ln = rng.choice([3, 8, 16, 30, 40])
        ops = []
        ts_pool = [(rng.choice([0, 1, 5, 5, 9]), rng.choice([0, 0, 1, 2])) for _ in range(6)]
        used = set()
        clones = []
        for _ in range(ln):
            r = rng.randrange(n)
            k = rng.random()
            if k < 0.15:
                ops.append(["inc", r, rng.choice([1, 1, 2, 7])])
            elif k < 0.25:
                ops.append(["dec", r, rng.choice([1, 1, 3])])
            elif k < 0.4:
                p, l = rng.choice(ts_pool)
                nd = r if rng.random() < 0.8 else rng.randrange(n)
                v = rng.choice([0, 0, rng.randrange(50)])   # 0 stands for writing the value None ("clear")
                if (p, l, nd) in used and rng.random() < 0.9:
                    l += 1 + len(used)
                used.add((p, l, nd))
                ops.append(["lset", r, v, p, l, nd])
            elif k < 0.55:
                ops.append(["oadd", r, rng.randrange(3)])
            elif k < 0.68:
                ops.append(["orem", r, rng.randrange(3)])
            elif k < 0.92:
                s = rng.randrange(n if not clones else n + len(clones)) if rng.random() < 0.8 else rng.randrange(n)
                d = r if not clones or rng.random() < 0.6 else rng.choice(clones)
                ops.append(["merge", d, s])
            elif k < 0.96:
                ops.append(["roundtrip", r])
            elif len(clones) < 3:
                # a copy of replica r restored from its serialised state: same node id, separate object
                # (crash recovery from a snapshot / a store key materialised from a peer's state); it only merges
                c = n + len(clones)
                clones.append(c)
                ops.append(["clone", c, r])
        return {"family": "crdt", "n": n, "ops": ops}

    def gen_store(self, rng, tier):
        """CRDTStore replicas: client writes, gossip ticks, deliveries of pushed / answered states in any order, with
        duplication (a message id delivered again) and loss (never delivered). The generator tracks which messages
        exist (a tick creates a push when the store has peers, a delivered push creates a response when the receiver
        lists the sender as a peer) so that deliveries mostly name real messages."""
        n = rng.randint(2, 4)
        kind = rng.choice(["g", "pn", "pn", "or", "or", "lww"])
        nkeys = rng.choice([1, 1, 2, 3])
        pk = rng.random()
        if pk < 0.6:
            peers = [[j for j in range(n) if j != i] for i in range(n)]
        elif pk < 0.8:
            peers = [sorted(rng.sample([j for j in range(n) if j != i], rng.randint(0, n - 1))) for i in range(n)]
        else:
            peers = [[(i + 1) % n] for i in range(n)]            # a ring: the pushed-to store does not answer
        ln = rng.choice([4, 8, 16, 30, 40])
        mirror = rng.random() < 0.4          # the same client writes at several stores: equal values, different state
        small = rng.random() < 0.6
        steps, msgs = [], []                  # msgs: (src, dst, is_push)
        ts_pool = [(rng.choice([0, 1, 5, 5, 9]), rng.choice([0, 0, 1, 2])) for _ in range(6)]
        used = set()

        def write(sid):
            key = rng.randrange(nkeys)
            if kind in ("g", "pn"):
                r = rng.random()
                amt = 1 if small else rng.choice([1, 1, 2, 7])
                if r < 0.06:
                    return ["w", sid, key, "inc", None]            # Write without a value: increment() by the default 1
                if kind == "pn" and r < 0.4:
                    return ["w", sid, key, "dec", amt]
                if kind == "g" and r < 0.12:
                    return ["w", sid, key, "dec", amt]             # GCounter has no decrement: the key is created, nothing else
                return ["w", sid, key, "inc", amt]
            if kind == "or":
                return ["w", sid, key, "add" if rng.random() < 0.6 else "rem", rng.randrange(2 if small else 3)]
            p, l = rng.choice(ts_pool)
            nd = sid if rng.random() < 0.8 else rng.randrange(n)
            v = rng.choice([0, 0, rng.randrange(50)])
            if (p, l, nd) in used and rng.random() < 0.9:
                l += 1 + len(used)
            used.add((p, l, nd))
            return ["lset", sid, key, v, p, l, nd]

        while len(steps) < ln:
            r = rng.random()
            sid = rng.randrange(n)
            if r < 0.32:
                w = write(sid)
                if mirror and w[0] == "w":
                    for t in rng.sample(range(n), rng.randint(2, n)):
                        steps.append([w[0], t] + w[2:])
                else:
                    steps.append(w)
            elif r < 0.57:
                j = rng.randrange(max(1, len(peers[sid])))
                steps.append(["tick", sid, j])
                if peers[sid]:
                    msgs.append((sid, peers[sid][j], True))
            elif r < 0.6:
                steps.append(["dl", len(msgs) + rng.randrange(2)])   # a message that does not exist (yet): nothing happens
            elif msgs:
                m = len(msgs) - 1 - min(len(msgs) - 1, int(rng.expovariate(0.7))) if rng.random() < 0.7 else rng.randrange(len(msgs))
                steps.append(["dl", m])
                src, dst, push = msgs[m]
                if push and src in peers[dst]:
                    msgs.append((dst, src, False))
        # the network heals: lossless gossip rounds (tick, the push is delivered, so is the answer), nobody writes;
        # whatever was lost before stays lost
        if rng.random() < 0.5:
            for _ in range(rng.choice([1, 2, 2, 3, n])):
                order = list(range(n))
                if rng.random() < 0.5:
                    rng.shuffle(order)
                for sid in order:
                    steps.append(["round", sid, rng.randrange(max(1, len(peers[sid])))])
        return {"family": "store", "kind": kind, "n": n, "nkeys": nkeys, "peers": peers, "steps": steps}

    # ------------------------------------------------------------------ implementation
    def run_impl(self, case):
        if case["family"] == "clocks":
            return self.impl_clocks(case)
        if case["family"] == "store":
            return self.impl_store(case)
        return self.impl_crdt(case)

    def impl_clocks(self, case):
        from happysimulator.core.logical_clocks import HybridLogicalClock, LamportClock, VectorClock
        from happysimulator.core.temporal import Instant

        n = case["n"]
        ids = [str(i) for i in range(n)]
        phys = [0] * n
        lam = [LamportClock() for _ in ids]
        members = case.get("members") or [list(range(n))] * n
        vc = [VectorClock(ids[k], [str(j) for j in members[k]]) for k in range(n)]
        hlc = [HybridLogicalClock(ids[k], wall_time=(lambda k=k: Instant(phys[k]))) for k in range(n)]
        msgs = {}
        out, snaps = [], []
        for ev in case["events"]:
            kind, node = ev[0], ev[1]
            phys[node] = ev[-1]
            if kind == "loc":
                lam[node].tick()
                vc[node].tick()
                h = hlc[node].now()
            elif kind == "send":
                m = ev[2]
                if m in msgs:
                    continue
                lt = lam[node].send()
                vs = vc[node].send()
                h = hlc[node].send()
                msgs[m] = (lt, vs, h)
            else:
                m = ev[2]
                if m not in msgs:
                    continue
                lt, vs, hr = msgs[m]
                lam[node].receive(lt)
                vc[node].receive(dict(vs))
                hlc[node].receive(hr)
            snap = vc[node].snapshot()
            eid = len(out)
            hl = hlc[node]._last
            out.append(f"e {eid} {node} {lam[node].time} {' '.join(str(snap.get(i, 0)) for i in ids)} {hl.physical_ns} {hl.logical}")
            snaps.append(vc[node].merge(vc[node]))  # public-API copy of the clock at this event
        hb = []
        for b in range(len(snaps)):
            hb.append(f"hb {b} " + "".join("1" if snaps[a].happened_before(snaps[b]) else "0" for a in range(len(snaps))))
        cc = []
        for b in range(len(snaps)):
            cc.append(f"cc {b} " + "".join("1" if snaps[a].is_concurrent(snaps[b]) else "0" for a in range(len(snaps))))
        return out + hb + cc

    def impl_crdt(self, case):
        from happysimulator.components.crdt.lww_register import LWWRegister
        from happysimulator.components.crdt.or_set import ORSet
        from happysimulator.components.crdt.pn_counter import PNCounter
        from happysimulator.core.logical_clocks import HLCTimestamp

        n = case["n"]
        ids = [str(i) for i in range(n)]
        pn = {i: PNCounter(ids[i]) for i in range(n)}
        lw = {i: LWWRegister(ids[i]) for i in range(n)}
        os_ = {i: ORSet(ids[i]) for i in range(n)}
        out = []
        for op in case["ops"]:
            kind, r = op[0], op[1]
            if kind == "inc":
                pn[r].increment(op[2])
            elif kind == "dec":
                pn[r].decrement(op[2])
            elif kind == "lset":
                _, _, v, p, l, nd = op
                lw[r].set(None if v == 0 else v, HLCTimestamp(p, l, str(nd)))
            elif kind == "oadd":
                os_[r].add(f"{op[2]}")
            elif kind == "orem":
                os_[r].remove(f"{op[2]}")
            elif kind == "merge":
                s = op[2]
                pn[r].merge(pn[s])
                lw[r].merge(lw[s])
                os_[r].merge(os_[s])
            elif kind == "clone":
                src = op[2]
                pn[r] = PNCounter.from_dict(pn[src].to_dict())
                lw[r] = LWWRegister.from_dict(lw[src].to_dict())
                os_[r] = ORSet.from_dict(os_[src].to_dict())
            elif kind == "roundtrip":
                pn[r] = PNCounter.from_dict(pn[r].to_dict())
                lw[r] = LWWRegister.from_dict(lw[r].to_dict())
                os_[r] = ORSet.from_dict(os_[r].to_dict())
            out.append(self.rep_line(r, pn[r], lw[r], os_[r], ids))
        return out

    # ---- CRDTStore replicas under a harness-scheduled network
    _CHOICE_SEED = {}

    @classmethod
    def choice_seed(cls, length, idx):
        """a seed for the global `random` under which `random.choice` over `length` items picks item `idx`
        (CRDTStore picks the gossip peer with random.choice; the case names the peer)"""
        key = (length, idx)
        if key not in cls._CHOICE_SEED:
            probe = list(range(length))
            r = random.Random()
            k = 0
            while True:
                r.seed(k)
                if r.choice(probe) == idx:
                    break
                k += 1
            cls._CHOICE_SEED[key] = k
        return cls._CHOICE_SEED[key]

    def impl_store(self, case):
        import random as _random

        from happysimulator import Event, Instant, Network, Simulation
        from happysimulator.components.crdt.crdt_store import CRDTStore
        from happysimulator.components.crdt.g_counter import GCounter
        from happysimulator.components.crdt.lww_register import LWWRegister
        from happysimulator.components.crdt.or_set import ORSet
        from happysimulator.components.crdt.pn_counter import PNCounter
        from happysimulator.core.entity import Entity
        from happysimulator.core.logical_clocks import HLCTimestamp

        kind, n, peers, steps = case["kind"], case["n"], case["peers"], case["steps"]
        cls = {"g": GCounter, "pn": PNCounter, "or": ORSet, "lww": LWWRegister}[kind]
        ids = [str(i) for i in range(n)]
        pool = []          # every message handed to the network, in creation order

        class HNet(Network):
            """the real Network.send builds the messages; routing is replaced by the case's delivery schedule"""
            def handle_event(self, event):
                pool.append(event)
                return None

        net = HNet(name="net")
        stores = [CRDTStore(ids[i], network=net, crdt_factory=lambda nid: cls(nid), gossip_interval=0.0) for i in range(n)]
        for i in range(n):
            stores[i].add_peers([stores[j] for j in peers[i]])
        out = []
        opname = {"inc": "increment", "dec": "decrement", "add": "add", "rem": "remove"}
        prop = self

        class Drv(Entity):
            def handle_event(self, event):
                i, phase = event.context["metadata"]["i"], event.context["metadata"]["phase"]
                st = steps[i]
                if phase == 3:
                    return prop.store_observe(out, i, st, stores, pool, seen, ids, kind, peers)
                if phase in (1, 2):
                    # a lossless round: what the previous phase handed to the network is delivered now
                    if st[0] != "round":
                        return None
                    evs = []
                    for m in range(dseen[0], len(pool)):
                        md = dict(pool[m].context["metadata"])
                        evs.append(Event(time=self.now, event_type=pool[m].event_type,
                                         target=stores[int(md["destination"])], context={"metadata": md}))
                    dseen[0] = len(pool)
                    return evs
                seen[0] = dseen[0] = len(pool)
                if st[0] == "w":
                    _, sid, key, op, val = st
                    v = val if op in ("inc", "dec") else str(val)
                    return Event(time=self.now, event_type="Write", target=stores[sid],
                                 context={"metadata": {"key": f"k{key}", "operation": opname[op], "value": v}})
                if st[0] == "lset":
                    _, sid, key, v, p, l, nd = st
                    stores[sid].get_or_create(f"k{key}").set(None if v == 0 else v, HLCTimestamp(p, l, str(nd)))
                    return None
                if st[0] in ("tick", "round"):
                    _, sid, j = st
                    if peers[sid]:
                        _random.seed(prop.choice_seed(len(peers[sid]), j % len(peers[sid])))
                    return Event(time=self.now, event_type="GossipTick", target=stores[sid])
                if st[0] == "dl":
                    m = st[1]
                    if m >= len(pool):
                        return None
                    orig = pool[m]
                    md = dict(orig.context["metadata"])      # same payload object: a duplicate is the same message
                    dst = stores[int(md["destination"])]
                    return Event(time=self.now, event_type=orig.event_type, target=dst, context={"metadata": md})
                return None

        seen, dseen = [0], [0]
        drv = Drv("drv")
        sim = Simulation(start_time=Instant.Epoch, end_time=Instant.from_seconds(len(steps) + 5.0), sources=[],
                         entities=[*stores, net, drv])
        for i in range(len(steps)):
            for phase in (0, 1, 2, 3):
                sim.schedule(Event(time=Instant.from_seconds(1.0 + i + 0.2 * phase), event_type="Step", target=drv,
                                   context={"metadata": {"i": i, "phase": phase}}))
        _random.seed(0)
        sim.run()
        for a in range(n):
            prop.store_lines(out, "f", a, stores, ids, kind)      # the public state of every store at the end
        return out

    @staticmethod
    def store_observe(out, i, st, stores, pool, seen, ids, kind, peers):
        """transcript after step i: messages created by the step, then the public state of the store(s) that acted"""
        if st[0] == "dl":
            acting = int(pool[st[1]].context["metadata"]["destination"]) if st[1] < seen[0] else None
        else:
            acting = st[1]
        out.append(f"t {i} {'-' if acting is None else acting}")
        for m in range(seen[0], len(pool)):
            md = pool[m].context["metadata"]
            keys = " ".join(str(k) for k in sorted(int(k[1:]) for k in md["state"]))
            out.append(f"m {m} {'push' if pool[m].event_type == 'GossipPush' else 'resp'} {md['source']} {md['destination']} {keys}".rstrip())
        if acting is None:
            return None
        actors = [acting]
        if st[0] == "round" and peers[acting]:
            d = peers[acting][st[2] % len(peers[acting])]
            if d != acting:
                actors.append(d)
        for a in actors:
            C18.store_lines(out, "s", a, stores, ids, kind)
        return None

    @staticmethod
    def store_lines(out, tag, acting, stores, ids, kind):
        crdts = stores[acting].crdts
        j = lambda xs: " ".join(str(x) for x in xs)
        for key in sorted(crdts, key=lambda k: int(k[1:])):
            c = crdts[key]
            d = c.to_dict()
            head = f"{tag} {acting} {key[1:]} nid {d['node_id']}"
            if kind == "g":
                out.append(f"{head} v {c.value} P {j(d['counts'].get(x, 0) for x in ids)} X {j(sorted(set(d['counts']) - set(ids)))}".rstrip())
            elif kind == "pn":
                extra = sorted((set(d['p']['counts']) | set(d['n']['counts'])) - set(ids))
                out.append(f"{head} v {c.value} P {j(d['p']['counts'].get(x, 0) for x in ids)} N {j(d['n']['counts'].get(x, 0) for x in ids)} X {j(extra)}".rstrip())
            elif kind == "lww":
                ts = c.timestamp
                out.append(f"{head} lww " + ("none" if ts is None else f"{ts.physical_ns} {ts.logical} {ts.node_id} {0 if c.value is None else c.value}"))
            else:
                elems = sorted(int(e) for e in c.elements)
                live = sorted(int(e) * 10**9 + int(t[0]) * 10**6 + t[1] for e, tags in d["entries"].items() for t in tags)
                dead = sorted(int(t[0]) * 10**6 + t[1] for t in d.get("tombstones", []))
                out.append(f"{head} q {d['seq']} E {j(elems)} T {j(live)} D {j(dead)}")

    @staticmethod
    def rep_line(r, pn, lw, os_, ids):
        d = pn.to_dict()
        P = " ".join(str(d["p"]["counts"].get(i, 0)) for i in ids)
        N = " ".join(str(d["n"]["counts"].get(i, 0)) for i in ids)
        ts = lw.timestamp
        lww = "none" if ts is None else f"{ts.physical_ns} {ts.logical} {ts.node_id} {0 if lw.value is None else lw.value}"
        od = os_.to_dict()
        elems = sorted(int(e) for e in os_.elements)
        live = sorted(int(e) * 10**9 + int(t[0]) * 10**6 + t[1] for e, tags in od["entries"].items() for t in tags)
        dead = sorted(int(t[0]) * 10**6 + t[1] for t in od.get("tombstones", []))
        j = lambda xs: " ".join(str(x) for x in xs)
        return f"r {r} pn {pn.value} P {P} N {N} | lww {lww} | os E {j(elems)} T {j(live)} D {j(dead)}"

    # ------------------------------------------------------------------ model / judge
    @staticmethod
    def store_body(case):
        body = [f"peers {i} " + " ".join(map(str, ps)) for i, ps in enumerate(case["peers"])]
        return body, [" ".join(map(str, st)) for st in case["steps"]]

    def model_block(self, case, variant):
        if case["family"] == "clocks":
            mem = [f"mem {i} " + " ".join(map(str, ms)) for i, ms in enumerate(case.get("members") or [])]
            return (f"clocks {case['n']}", mem + [" ".join(map(str, e)) for e in case["events"]])
        if case["family"] == "store":
            peers, steps = self.store_body(case)
            return (f"store {variant} {case['kind']} {case['n']}", peers + steps)
        body = []
        for op in case["ops"]:
            if op[0] == "clone":
                body.append(f"merge {op[1]} {op[2]}")  # model: a fresh replica that merges r is a copy of r
            elif op[0] == "roundtrip":
                body.append(f"merge {op[1]} {op[1]}")  # model: serialisation round trip is the identity
            else:
                body.append(" ".join(map(str, op)))
        return (f"crdt {case['n']}", body)

    def judge_block(self, case, impl_out):
        if impl_out and impl_out[0].startswith("IMPL-"):
            return None
        if case["family"] == "clocks":
            body = [" ".join(map(str, e)) for e in case["events"]]
            for line in impl_out:
                if line.startswith("e "):
                    t = line.split()
                    body.append("obs " + t[1] + " " + " ".join(t[3:]))
                elif line.startswith("hb ") or line.startswith("cc "):
                    # the implementation's own happened_before / is_concurrent verdicts (row b: bit a = V(a) ? V(b))
                    body.append(line[:2] + "o" + line[2:])
            return (f"judge-clocks {case['n']}", body)
        if case["family"] == "store":
            return self.judge_store_block(case, impl_out)
        body = []
        ops = [op for op in case["ops"]]
        if len(ops) != len(impl_out):
            return None
        for op, line in zip(ops, impl_out):
            o = (f"merge {op[1]} {op[1]}" if op[0] == "roundtrip" else
                 f"merge {op[1]} {op[2]}" if op[0] == "clone" else " ".join(map(str, op)))
            # skip ops the model treats as no-ops with k = 0 (never generated)
            pn_part, lww_part, os_part = line.split(" | ")
            value = pn_part.split()[3]
            lww = lww_part[len("lww "):]
            elems = os_part.split(" E ")[1].split(" T")[0].strip()
            body.append(o)
            body.append(f"obs {value} lww {lww} E {elems}".rstrip())
        return ("judge-crdt", body)

    def judge_store_block(self, case, impl_out):
        """script + what the implementation was seen to do: the messages it handed to the network and the values the
        acting store reports after each step (counter value / register timestamp+value / set elements only)"""
        peers, steps = self.store_body(case)
        per = {}
        fin = []
        cur = None

        def obs(tag, t):
            if t[5] == "v":
                return f"{tag} {t[1]} {t[2]} v {t[6]}"
            if t[5] == "lww":
                return f"{tag} {t[1]} {t[2]} lww " + " ".join(t[6:])
            e = t.index("E")
            return (f"{tag} {t[1]} {t[2]} E " + " ".join(t[e + 1:t.index("T", e)])).rstrip()

        for line in impl_out:
            t = line.split()
            if t[0] == "t":
                cur = int(t[1])
                per[cur] = []
            elif t[0] == "f":
                fin.append(obs("fin", t))
            elif cur is None:
                return None
            elif t[0] == "m":
                per[cur].append(line)
            elif t[0] == "s":
                per[cur].append(obs("obs", t))
        if sorted(per) != list(range(len(steps))):
            return None
        body = list(peers)
        for i, st in enumerate(steps):
            body.append(st)
            body.extend(x.rstrip() for x in per[i])
        return (f"judge-store {case['kind']} {case['n']} {case['nkeys']}", body + fin)

    def nontrivial_key(self, case, impl_out):
        if case["family"] == "store":
            wrote = False
            created = 0
            for st in case["steps"]:
                if st[0] in ("w", "lset"):
                    wrote = True
                elif st[0] in ("dl", "round") and wrote and any(l.startswith("m ") for l in impl_out):
                    return ("store", json.dumps(case, sort_keys=True))
            return None
        if case["family"] == "clocks":
            if any(e[0] == "recv" for e in case["events"]):
                return ("clocks", case["n"], tuple(map(tuple, case["events"])))
            return None
        seen_update = False
        for op in case["ops"]:
            if op[0] in ("inc", "dec", "lset", "oadd", "orem"):
                seen_update = True
            elif op[0] == "merge" and seen_update and op[1] != op[2]:
                return ("crdt", case["n"], tuple(map(tuple, case["ops"])))
        return None

    def shrink(self, case):
        key = {"clocks": "events", "store": "steps"}.get(case["family"], "ops")
        xs = case[key]
        n = len(xs)
        step = max(1, n // 2)
        while step >= 1:
            for i in range(0, n, step):
                cand = dict(case)
                cand[key] = xs[:i] + xs[i + step:]
                if len(cand[key]) < n:
                    yield cand
            step //= 2

    def mutate(self, case, rng):
        key = {"clocks": "events", "store": "steps"}.get(case["family"], "ops")
        xs = [list(x) for x in case[key]]
        if not xs:
            return case
        for _ in range(rng.randint(1, 3)):
            i = rng.randrange(len(xs))
            k = rng.random()
            if k < 0.3 and len(xs) > 1:
                del xs[i]
            elif k < 0.6:
                xs.insert(i, list(rng.choice(xs)))
            else:
                j = rng.randrange(len(xs))
                xs[i], xs[j] = xs[j], xs[i]
        if case["family"] == "clocks":
            # keep message ids consistent: a send of an already-sent id is skipped on both sides
            pass
        c = dict(case)
        c[key] = xs
        return c


THEOREMS = [
    "HappyModel.C18.lamport_hb",
    "HappyModel.C18.hlc_hb",
    "HappyModel.C18.vector_iff_hb",
    "HappyModel.C18.vector_strict_iff_hb",
    "HappyModel.C18.past_transitive",
    "HappyModel.C18.pn_merge_comm",
    "HappyModel.C18.pn_merge_assoc",
    "HappyModel.C18.pn_merge_idem",
    "HappyModel.C18.orset_merge_comm",
    "HappyModel.C18.orset_merge_assoc",
    "HappyModel.C18.orset_merge_idem",
    "HappyModel.C18.orset_reachable_wf",
    "HappyModel.C18.orset_merge_has",
    "HappyModel.C18.lww_merge_comm",
    "HappyModel.C18.lww_merge_assoc",
    "HappyModel.C18.lww_merge_idem",
    "HappyModel.C18.lww_merge_not_comm_incoherent",
    "HappyModel.C18.counter_value_spec",
    "HappyModel.C18.orset_spec",
    "HappyModel.C18.lww_spec",
    "HappyModel.C18.same_updates_equal_values",
    # vector clocks as dicts with partial / growing key sets
    "HappyModel.C18.kvec_happened_before_spec",
    "HappyModel.C18.keyed_clock_refines_vector",
    "HappyModel.C18.keyed_vector_strict_iff_hb",
    "HappyModel.C18.clocks_trace_satisfies_spec",
    # CRDTStore replicas under gossip
    "HappyModel.C18.store_refines_replicas",
    "HappyModel.C18.store_counter_value_spec",
    "HappyModel.C18.store_orset_spec",
    "HappyModel.C18.store_lww_spec",
    "HappyModel.C18.store_same_updates_equal_values",
    "HappyModel.C18.store_adoption_current_loses_increment",
    "HappyModel.C18.sys_merge_is_rep_merge",
    "HappyModel.C18.rep_merge_comm",
    "HappyModel.C18.rep_merge_assoc",
    "HappyModel.C18.rep_merge_idem",
    "HappyModel.C18.rep_adopt",
    "HappyModel.C18.store_deliver_is_keywise_merge",
    "HappyModel.C18.exchange_same_knowledge",
    "HappyModel.C18.exchange_all_converges",
    "HappyModel.C18.store_exchange_converges",
    "HappyModel.C18.store_gossip_phase_converges",
    "HappyModel.C18.store_judge_knows_model",
    "HappyModel.C18.judgeValue_replica",
    "HappyModel.C18.store_trace_values_accepted",
    "HappyModel.C18.store_trace_satisfies_spec_partial",
    "HappyModel.C18.store_received_only_if_held",
    "HappyModel.C18.store_trace_steps_accepted",
    "HappyModel.C18.store_trace_satisfies_spec_steps",
    "HappyModel.C18.judgeValue_congr",
    "HappyModel.C18.judgeFinal_model",
    "HappyModel.C18.store_trace_satisfies_spec_given_union",
    "HappyModel.C18.unionAll_know",
    "HappyModel.C18.unionAfter_of_roundFacts",
    "HappyModel.C18.store_trace_satisfies_spec_given_round_facts",
    "HappyModel.C18.store_fresh_entities",
    "HappyModel.C18.round_learns_only_known",
    "HappyModel.C18.round_flows",
    "HappyModel.C18.union_after_rounds",
    "HappyModel.C18.store_trace_satisfies_spec",
]
C18.theorems = THEOREMS
PROPERTY = C18()
