"""C18 — logical clocks respect causality; CRDT replicas converge to the specified value.

Correspondence: real `LamportClock` / `VectorClock` / `HybridLogicalClock` and `PNCounter` /
`LWWRegister` / `ORSet` objects from /repo are driven through generated histories; the same
histories go to the Lean model (`HappyModel/C18`), transcripts are diffed; the Lean Spec predicates
(`HappyModel/C18/Spec.lean`) judge the implementation's own outputs.
"""
from __future__ import annotations

import random

from hv import core


class C18(core.Property):
    id = "C18"
    driver = "drv-c18"
    lake_targets = ["HappyProofs.C18.Props", "drv-c18"]
    audit_imports = ["HappyProofs.C18.Props"]
    lean_files = ["HappyModel/C18/*.lean", "HappyProofs/C18/*.lean", "HappyModel/Proto.lean", "Driver/C18.lean"]
    theorems = []  # filled from THEOREMS below
    quick_cases = 1500
    thorough_cases = 60000
    rule = ("family clocks: history of ≤40 loc/send/recv events among 2–5 nodes with per-node physical readings "
            "(skewed, drifting, jumping backwards); family crdt: ≤40 inc/dec/lset/oadd/orem/merge/roundtrip operations over 2–4 replicas, "
            "≤3 elements; a case is non-trivial when it contains at least one receive (clocks) or one merge after an update (crdt); "
            "distinct = distinct case content")
    trusted_base = [
        "hv/props/c18.py adapters (drive the real clock/CRDT objects, canonical transcript)",
        "node ids '0'..'9' (string order = numeric order)",
        "CPython dict/set semantics",
    ]
    assumptions = [
        "LWW: the Spec accepts any seen write with a maximal timestamp (writes with identical timestamps and different values are ambiguous by the property text)",
        "OR-set elements are strings in the harness (to_dict stringifies keys)",
    ]
    hypotheses = [
        "lww_merge_comm and the register clause of same_updates_equal_values: equal timestamps carry equal values "
        "(LWW.Coherent / OpsCoherent); lww_merge_not_comm_incoherent and a decided example show that both fail without it; "
        "lww_merge_assoc, lww_merge_idem and lww_spec need no hypothesis",
        "orset_merge_idem: no live entry carries a tombstoned tag (ORSet.WF); holds in every reachable replica state "
        "(orset_reachable_wf), fails for arbitrary values (decided example)",
        "OR-set merge laws are extensional (ORSet.Equiv: same members of ents and of tomb, hence the same has); "
        "the lists are used as sets and seq is the replica-local tag counter",
        "same_updates_equal_values: 'same updates' = the knowledge sets of the two replicas have the same members (SameSet)",
    ]

    # ------------------------------------------------------------------ generation
    def generate(self, rng: random.Random, i: int, tier: str) -> dict:
        if i % 2 == 0:
            return self.gen_clocks(rng, tier)
        return self.gen_crdt(rng, tier)

    def gen_clocks(self, rng, tier):
        n = rng.randint(2, 5)
        ln = rng.choice([3, 6, 12, 25, 40])
        phys = [rng.choice([0, 5, 100, 10**9]) for _ in range(n)]
        evs, sent = [], []
        for _ in range(ln):
            node = rng.randrange(n)
            mode = rng.random()
            if mode < 0.35:
                pass  # frozen clock
            elif mode < 0.75:
                phys[node] += rng.choice([1, 1, 2, 1000, 10**6])
            elif mode < 0.9:
                phys[node] = max(0, phys[node] - rng.choice([1, 3, 1000]))  # jump backwards
            else:
                phys[node] = rng.choice([0, 7, 10**9 + 5, max(phys)])
            r = rng.random()
            if r < 0.3:
                evs.append(["loc", node, phys[node]])
            elif r < 0.6 or not sent:
                m = len(sent)
                sent.append(m)
                evs.append(["send", node, m, phys[node]])
            else:
                m = rng.choice(sent) if rng.random() < 0.7 else sent[-1]
                evs.append(["recv", node, m, phys[node]])
        return {"family": "clocks", "n": n, "events": evs}

    def gen_crdt(self, rng, tier):
        n = rng.randint(2, 4)
        ln = rng.choice([3, 8, 16, 30, 40])
        ops = []
        ts_pool = [(rng.choice([0, 1, 5, 5, 9]), rng.choice([0, 0, 1, 2])) for _ in range(6)]
        used = set()
        clones = []
        for _ in range(ln):
            r = rng.randrange(n)
            k = rng.random()
            if k < 0.15:
                ops.append(["inc", r, rng.choice([1, 1, 2, 7])])
            elif k < 0.25:
                ops.append(["dec", r, rng.choice([1, 1, 3])])
            elif k < 0.4:
                p, l = rng.choice(ts_pool)
                nd = r if rng.random() < 0.8 else rng.randrange(n)
                v = rng.choice([0, 0, rng.randrange(50)])   # 0 stands for writing the value None ("clear")
                if (p, l, nd) in used and rng.random() < 0.9:
                    l += 1 + len(used)
                used.add((p, l, nd))
                ops.append(["lset", r, v, p, l, nd])
            elif k < 0.55:
                ops.append(["oadd", r, rng.randrange(3)])
            elif k < 0.68:
                ops.append(["orem", r, rng.randrange(3)])
            elif k < 0.92:
                s = rng.randrange(n if not clones else n + len(clones)) if rng.random() < 0.8 else rng.randrange(n)
                d = r if not clones or rng.random() < 0.6 else rng.choice(clones)
                ops.append(["merge", d, s])
            elif k < 0.96:
                ops.append(["roundtrip", r])
            elif len(clones) < 3:
                # a copy of replica r restored from its serialised state: same node id, separate object
                # (crash recovery from a snapshot / a store key materialised from a peer's state); it only merges
                c = n + len(clones)
                clones.append(c)
                ops.append(["clone", c, r])
        return {"family": "crdt", "n": n, "ops": ops}

    # ------------------------------------------------------------------ implementation
    def run_impl(self, case):
        if case["family"] == "clocks":
            return self.impl_clocks(case)
        return self.impl_crdt(case)

    def impl_clocks(self, case):
        from happysimulator.core.logical_clocks import HybridLogicalClock, LamportClock, VectorClock
        from happysimulator.core.temporal import Instant

        n = case["n"]
        ids = [str(i) for i in range(n)]
        phys = [0] * n
        lam = [LamportClock() for _ in ids]
        vc = [VectorClock(i, ids) for i in ids]
        hlc = [HybridLogicalClock(ids[k], wall_time=(lambda k=k: Instant(phys[k]))) for k in range(n)]
        msgs = {}
        out, snaps = [], []
        for ev in case["events"]:
            kind, node = ev[0], ev[1]
            phys[node] = ev[-1]
            if kind == "loc":
                lam[node].tick()
                vc[node].tick()
                h = hlc[node].now()
            elif kind == "send":
                m = ev[2]
                if m in msgs:
                    continue
                lt = lam[node].send()
                vs = vc[node].send()
                h = hlc[node].send()
                msgs[m] = (lt, vs, h)
            else:
                m = ev[2]
                if m not in msgs:
                    continue
                lt, vs, hr = msgs[m]
                lam[node].receive(lt)
                vc[node].receive(dict(vs))
                hlc[node].receive(hr)
            snap = vc[node].snapshot()
            eid = len(out)
            hl = hlc[node]._last
            out.append(f"e {eid} {node} {lam[node].time} {' '.join(str(snap.get(i, 0)) for i in ids)} {hl.physical_ns} {hl.logical}")
            snaps.append(vc[node].merge(vc[node]))  # public-API copy of the clock at this event
        hb = []
        for b in range(len(snaps)):
            hb.append(f"hb {b} " + "".join("1" if snaps[a].happened_before(snaps[b]) else "0" for a in range(len(snaps))))
        return out + hb

    def impl_crdt(self, case):
        from happysimulator.components.crdt.lww_register import LWWRegister
        from happysimulator.components.crdt.or_set import ORSet
        from happysimulator.components.crdt.pn_counter import PNCounter
        from happysimulator.core.logical_clocks import HLCTimestamp

        n = case["n"]
        ids = [str(i) for i in range(n)]
        pn = {i: PNCounter(ids[i]) for i in range(n)}
        lw = {i: LWWRegister(ids[i]) for i in range(n)}
        os_ = {i: ORSet(ids[i]) for i in range(n)}
        out = []
        for op in case["ops"]:
            kind, r = op[0], op[1]
            if kind == "inc":
                pn[r].increment(op[2])
            elif kind == "dec":
                pn[r].decrement(op[2])
            elif kind == "lset":
                _, _, v, p, l, nd = op
                lw[r].set(None if v == 0 else v, HLCTimestamp(p, l, str(nd)))
            elif kind == "oadd":
                os_[r].add(f"{op[2]}")
            elif kind == "orem":
                os_[r].remove(f"{op[2]}")
            elif kind == "merge":
                s = op[2]
                pn[r].merge(pn[s])
                lw[r].merge(lw[s])
                os_[r].merge(os_[s])
            elif kind == "clone":
                src = op[2]
                pn[r] = PNCounter.from_dict(pn[src].to_dict())
                lw[r] = LWWRegister.from_dict(lw[src].to_dict())
                os_[r] = ORSet.from_dict(os_[src].to_dict())
            elif kind == "roundtrip":
                pn[r] = PNCounter.from_dict(pn[r].to_dict())
                lw[r] = LWWRegister.from_dict(lw[r].to_dict())
                os_[r] = ORSet.from_dict(os_[r].to_dict())
            out.append(self.rep_line(r, pn[r], lw[r], os_[r], ids))
        return out

    @staticmethod
    def rep_line(r, pn, lw, os_, ids):
        d = pn.to_dict()
        P = " ".join(str(d["p"]["counts"].get(i, 0)) for i in ids)
        N = " ".join(str(d["n"]["counts"].get(i, 0)) for i in ids)
        ts = lw.timestamp
        lww = "none" if ts is None else f"{ts.physical_ns} {ts.logical} {ts.node_id} {0 if lw.value is None else lw.value}"
        od = os_.to_dict()
        elems = sorted(int(e) for e in os_.elements)
        live = sorted(int(e) * 10**9 + int(t[0]) * 10**6 + t[1] for e, tags in od["entries"].items() for t in tags)
        dead = sorted(int(t[0]) * 10**6 + t[1] for t in od.get("tombstones", []))
        j = lambda xs: " ".join(str(x) for x in xs)
        return f"r {r} pn {pn.value} P {P} N {N} | lww {lww} | os E {j(elems)} T {j(live)} D {j(dead)}"

    # ------------------------------------------------------------------ model / judge
    def model_block(self, case, variant):
        if case["family"] == "clocks":
            return (f"clocks {case['n']}", [" ".join(map(str, e)) for e in case["events"]])
        body = []
        for op in case["ops"]:
            if op[0] == "clone":
                body.append(f"merge {op[1]} {op[2]}")  # model: a fresh replica that merges r is a copy of r
            elif op[0] == "roundtrip":
                body.append(f"merge {op[1]} {op[1]}")  # model: serialisation round trip is the identity
            else:
                body.append(" ".join(map(str, op)))
        return (f"crdt {case['n']}", body)

    def judge_block(self, case, impl_out):
        if impl_out and impl_out[0].startswith("IMPL-"):
            return None
        if case["family"] == "clocks":
            body = [" ".join(map(str, e)) for e in case["events"]]
            for line in impl_out:
                if line.startswith("e "):
                    t = line.split()
                    body.append("obs " + t[1] + " " + " ".join(t[3:]))
            return (f"judge-clocks {case['n']}", body)
        body = []
        ops = [op for op in case["ops"]]
        if len(ops) != len(impl_out):
            return None
        for op, line in zip(ops, impl_out):
            o = (f"merge {op[1]} {op[1]}" if op[0] == "roundtrip" else
                 f"merge {op[1]} {op[2]}" if op[0] == "clone" else " ".join(map(str, op)))
            # skip ops the model treats as no-ops with k = 0 (never generated)
            pn_part, lww_part, os_part = line.split(" | ")
            value = pn_part.split()[3]
            lww = lww_part[len("lww "):]
            elems = os_part.split(" E ")[1].split(" T")[0].strip()
            body.append(o)
            body.append(f"obs {value} lww {lww} E {elems}".rstrip())
        return ("judge-crdt", body)

    def nontrivial_key(self, case, impl_out):
        if case["family"] == "clocks":
            if any(e[0] == "recv" for e in case["events"]):
                return ("clocks", case["n"], tuple(map(tuple, case["events"])))
            return None
        seen_update = False
        for op in case["ops"]:
            if op[0] in ("inc", "dec", "lset", "oadd", "orem"):
                seen_update = True
            elif op[0] == "merge" and seen_update and op[1] != op[2]:
                return ("crdt", case["n"], tuple(map(tuple, case["ops"])))
        return None

    def shrink(self, case):
        key = "events" if case["family"] == "clocks" else "ops"
        xs = case[key]
        n = len(xs)
        step = max(1, n // 2)
        while step >= 1:
            for i in range(0, n, step):
                cand = dict(case)
                cand[key] = xs[:i] + xs[i + step:]
                if len(cand[key]) < n:
                    yield cand
            step //= 2

    def mutate(self, case, rng):
        key = "events" if case["family"] == "clocks" else "ops"
        xs = [list(x) for x in case[key]]
        if not xs:
            return case
        for _ in range(rng.randint(1, 3)):
            i = rng.randrange(len(xs))
            k = rng.random()
            if k < 0.3 and len(xs) > 1:
                del xs[i]
            elif k < 0.6:
                xs.insert(i, list(rng.choice(xs)))
            else:
                j = rng.randrange(len(xs))
                xs[i], xs[j] = xs[j], xs[i]
        if case["family"] == "clocks":
            # keep message ids consistent: a send of an already-sent id is skipped on both sides
            pass
        c = dict(case)
        c[key] = xs
        return c


THEOREMS = [
    "HappyModel.C18.lamport_hb",
    "HappyModel.C18.hlc_hb",
    "HappyModel.C18.vector_iff_hb",
    "HappyModel.C18.vector_strict_iff_hb",
    "HappyModel.C18.past_transitive",
    "HappyModel.C18.pn_merge_comm",
    "HappyModel.C18.pn_merge_assoc",
    "HappyModel.C18.pn_merge_idem",
    "HappyModel.C18.orset_merge_comm",
    "HappyModel.C18.orset_merge_assoc",
    "HappyModel.C18.orset_merge_idem",
    "HappyModel.C18.orset_reachable_wf",
    "HappyModel.C18.orset_merge_has",
    "HappyModel.C18.lww_merge_comm",
    "HappyModel.C18.lww_merge_assoc",
    "HappyModel.C18.lww_merge_idem",
    "HappyModel.C18.lww_merge_not_comm_incoherent",
    "HappyModel.C18.counter_value_spec",
    "HappyModel.C18.orset_spec",
    "HappyModel.C18.lww_spec",
    "HappyModel.C18.same_updates_equal_values",
]
C18.theorems = THEOREMS
PROPERTY = C18()
