"""C03 — the same model and seeds give the same run, every time and in every process.

Partial by nature (DESIGN §8 C03, §12): Lean carries what is logic — every model in /verif is a function
of its explicit inputs, and `HappyProofs/C03/Props.lean` proves for the C01 engine model that the delivery
log does not depend on how far the creation counter had advanced (`run_index_shift`).  Python-runtime
nondeterminism (hash randomisation, process history, wall clock, uuid4) is outside any model: it is
decided by running each generated scenario (`hv/scenarios/`) in several environments and comparing the
canonical run digests; the Lean Spec (`HappyModel/C03/Spec.lean`) judges the digests.

A case is a small batch of scenarios `(family, cfg, seed)`; each is digested
  inproc | sub-h0 | sub-h1 | sub-hx (fresh interpreters, PYTHONHASHSEED 0, 1, 12345/random) | after-activity | wallclock.
Transcript: `obs <i> <family> <env> <sha256> <len>`; all environments of a scenario must agree.

`after-activity` runs first: before the scenario it runs another family, the SAME configuration with another seed (same
classes, same shapes, other seeds — a cache keyed by shape is then filled by the wrong seed), a simulation whose handler
raised, and it slows the handlers of partition / worker 0 in wall time; `wallclock` slows partition / worker 1
(`hv/scenarios/fam_parallel.py`: ParallelSimulation with cross-partition ties, thread completion order must not matter).
`inproc`, `after-activity` and `wallclock` are three runs of the SAME scenario with the SAME seeds in ONE process (the
third directly after the second, with nothing but the clock patch in between): an unseeded `random.Random()`, OS entropy
or leftover class-level state shows as a difference between them; hash-order dependence shows between the fresh
interpreters.  The scenarios rely on `random.seed` / `numpy.random.seed` (`base.seed_all`) only; a per-object `seed=` is
passed only to components whose own default is an OS-seeded private generator (RandomEviction, SampledLRU, ring hashing,
RandomPartition, sketches, behaviour populations).  Generation as in C07 (`hv/scenarios/`): every constructor parameter /
policy variant, sizes above the library's internal constants (2Q ghost list 50, Topic history 100, phi window 200, …),
sustained overload (RED between its thresholds), 40 % maximum-coverage configurations (`gen_cfg_wide`).
"""
from __future__ import annotations

import copy
import json
import random

from hv import core
from hv.props.c07 import MODEL_BACKED_ELSEWHERE


class C03(core.Property):
    id = "C03"
    driver = "drv-c03"
    lake_targets = ["HappyProofs.C03.Props", "drv-c03"]
    audit_imports = ["HappyProofs.C03.Props"]
    lean_files = ["HappyModel/C03/*.lean", "HappyProofs/C03/*.lean", "HappyModel/Proto.lean", "Driver/C03.lean",
                  "HappyModel/C01/Engine.lean", "HappyProofs/C01/Lemmas.lean", "HappyProofs/C01/Inv.lean",
                  "HappyModel/C05/Engine.lean", "HappyModel/C05/Parallel.lean"]
    theorems = [
        "HappyModel.C03.run_index_shift",
        "HappyModel.C03.run_id_shift_const",
        "HappyModel.C03.observable_log_counter_independent",
        "HappyModel.C03.run_ignores_foreign_state",
        "HappyModel.C03.judge_none_iff_holds",
        "HappyModel.C03.run_independent_of_heap_layout",
        "HappyModel.C03.log_independent_of_heap_layout",
        "HappyModel.C03.execInOrder_eq_execAll",
        "HappyModel.C03.exchange_order_independent_of_completion",
        "HappyModel.C03.oneWindow_order_independent_of_completion",
        "HappyModel.C03.exchangeStaged_declaration_order",
        "HappyModel.C03.staged_exchange_depends_on_completion",
        "HappyModel.C03.staged_delivery_order_depends_on_completion",
        "HappyModel.C03.coordRunIn_eq_coordRun",
        "HappyModel.C03.coordinator_deterministic",
        "HappyModel.C03.coordinator_worker_count_irrelevant",
    ]
    partial_theorems = {
        "HappyModel.C03.run_index_shift":
            "a theorem about the engine model: for handlers that are equivariant under renaming of creation indices "
            "(they do not branch on the numeric value of an event id), renumbering the initial heap by a strictly "
            "monotone map and starting nextId anywhere above yields the same delivery log up to that renumbering. "
            "Nondeterminism of the Python runtime (hash randomisation, uuid4, wall clock, id()) is outside Lean and is "
            "decided by the cross-environment digests only",
        "HappyModel.C03.run_ignores_foreign_state":
            "holds by construction of the model (run is a function of its arguments); stated for the record",
    }
    hypotheses = ["ValidSchedule sched n (coordinator theorems): every window's completion order names every partition slot exactly once",
                  "Inv s (layout theorems): the C01 engine invariant, in particular distinct creation indices in the heap",
                  "IsCompletionOrder order n (exchange theorems): the completion order names every partition slot exactly once",
                  "Equivariant mc g: the handler commutes with renaming event ids by g (it may store, return and cancel ids, not compute with them)",
                  "StrictMono g on ids; g maps the fresh region nextId+j to nextId'+j"]
    variants = ["current"]
    quick_cases = 14          # × BATCH scenarios
    thorough_cases = 90         # × BATCH scenarios × 6 environments
    case_timeout_s = 600
    pool_workers = 1
    search_budget = {"quick": 8, "thorough": 60}
    BATCH = 8
    rule = ("one case = a batch of 8 scenarios (family, generated cfg, seed) from hv/scenarios/fam_*.py (round-robin over all "
            "families); each scenario is run in 6 environments (in-process; fresh interpreters with PYTHONHASHSEED 0, 1, 12345; "
            "after unrelated activity incl. another family, the same configuration under another seed, a simulation whose handler raised, "
            "a second Simulation constructed before the run, partition 0 slowed in wall time; jumping wall clock with partition 1 slowed — the three in-process "
            "environments are the same scenario run three times with the same seeds in one process) and the sha256 "
            "of the canonical digest (delivery sequence (time ns, event type, target) + component statistics, floats as bit "
            "patterns, uuid4 ids renamed by first appearance) is compared; families draw every constructor parameter / policy "
            "variant, key spaces above the library's internal constants, sustained overload; 40 % of the scenarios are a family's "
            "maximum-coverage configuration (all variants in one run); non-trivial = every scenario of the batch made ≥ 50 "
            "digest lines; distinct = distinct batch content. Families with a Lean component model elsewhere in /verif: "
            + "; ".join(f"{k}: {v}" for k, v in sorted(MODEL_BACKED_ELSEWHERE.items())) +
            "; for all families the cross-environment comparison is differential testing of the code against itself.")
    trusted_base = [
        "hv/scenarios/monitor.py pop tap (wraps EventHeap.pop of the Simulation instance; no control surface, same run loop)",
        "hv/scenarios/digest.py canonicalisation (floats as IEEE bit patterns, sets and dict keys sorted, uuid4 renamed by first appearance)",
        "hv/scenarios/envs.py environments; subprocess interpreters /venv/bin/python -m hv.scenarios.subrun",
        "hv/scenarios/fam_*.py scenario builders seed random, numpy.random and per-object seeds from the case seed",
    ]
    assumptions = [
        "the model side of C03 is 'a function of explicit inputs': its transcript is 'one digest per scenario'; any "
        "differing environment is both a disagreement and a Spec violation",
        "uuid4-derived message ids are renamed canonically (first appearance) before hashing; their values are random by construction",
        "thread timing of ParallelSimulation is perturbed only by slowing one partition's harness handlers with a real sleep "
        "(partition 0 / partition 1 / nobody); datetime.now is not perturbed; time.time/monotonic/perf_counter are",
        "only environments listed are explored: PYTHONHASHSEED ∈ {0,1,12345}, one kind of preceding activity",
    ]

    # ------------------------------------------------------------------ generation
    def _families(self):
        from hv.scenarios import families

        return families()

    def generate(self, rng: random.Random, i: int, tier: str) -> dict:
        from hv.scenarios import draw_cfg

        fams = self._families()
        names = sorted(fams)
        scens = []
        for k in range(self.BATCH):
            name = names[(i * self.BATCH + k) % len(names)]
            # 40 %: the family's maximum-coverage configuration (all policy variants in one run, key spaces above the
            # library's internal constants, sustained overload) where it defines one
            cfg = draw_cfg(fams[name], rng)
            if tier == "thorough" and isinstance(cfg.get("end"), (int, float)) and rng.random() < 0.15:
                cfg["end"] = float(cfg["end"]) * 2
            # the case seed: mostly a random 31-bit value, sometimes 0 / 1 (valid seeds that look falsy / trivial)
            sd = rng.choice([0, 0, 1]) if rng.random() < 0.08 else rng.randrange(2**31)
            scens.append({"family": name, "cfg": cfg, "seed": sd})
        case = {"family": scens[0]["family"], "scenarios": scens}
        if tier == "thorough":   # a different third hash seed per case
            case["hashseeds"] = [0, 1, rng.randrange(2, 2**32 - 1)]
        return case

    # ------------------------------------------------------------------ implementation
    def run_impl(self, case):
        from hv.scenarios import envs
        from hv.scenarios.digest import sha

        scens = case["scenarios"]
        hseeds = case.get("hashseeds") or list(envs.HASH_SEEDS)
        # stable environment names: the third hash seed varies per case in the thorough tier
        hname = {h: (f"sub-h{h}" if h in (0, 1) else "sub-hx") for h in hseeds}
        hnum = {v: k for k, v in hname.items()}
        procs = [(h, envs.spawn_sub(scens, h)) for h in hseeds]
        table = {}   # (i, env) -> (sha, len)
        lines = {}   # (i, env) -> digest lines (in-process environments)
        order = []
        for i, sc in enumerate(scens):
            for env, fn in envs.INPROC_ENVS.items():
                try:
                    ls = fn(sc)
                except Exception as e:
                    ls = [f"BUILD-ERROR {type(e).__name__}"]
                table[(i, env)] = (sha(ls), len(ls))
                lines[(i, env)] = ls
        sub_err = {}
        for h, p in procs:
            res, err = envs.collect_sub(p)
            for i in range(len(scens)):
                if res is None:
                    sub_err[h] = err
                    table[(i, hname[h])] = ("SUBPROCESS-FAILED", 0)
                else:
                    table[(i, hname[h])] = (res[i]["sha"], res[i]["len"])
        env_order = ["inproc"] + [hname[h] for h in hseeds] + ["after-activity", "wallclock"]
        out = []
        for i, sc in enumerate(scens):
            for env in env_order:
                s, n = table[(i, env)]
                out.append(f"obs {i} {sc['family']} {env} {s} {n}")
        # detail: first differing digest line of each differing pair (against the in-process baseline); a fresh
        # interpreter is re-run for the detail of at most two pairs per case (a bug that breaks every scenario of a
        # batch would otherwise cost dozens of extra interpreters)
        respawns = 0
        for i, sc in enumerate(scens):
            base = table[(i, "inproc")]
            for env in env_order[1:]:
                if table[(i, env)] == base:
                    continue
                other = lines.get((i, env))
                if other is None and env.startswith("sub-h") and table[(i, env)][0] != "SUBPROCESS-FAILED" and respawns < 2:
                    respawns += 1
                    res, err = envs.collect_sub(envs.spawn_sub([sc], hnum[env], full=[0]))
                    other = (res[0]["lines"] if res else None)
                if other is not None:
                    fd = envs.first_difference(lines[(i, "inproc")], other)
                    if fd:
                        k, a, b = fd
                        hs = f" (PYTHONHASHSEED={hnum[env]})" if env in hnum else ""
                        out.append(f"x {i} inproc {env} line {k}{hs}: {a[:160]} | {b[:160]}")
        for h, e in sub_err.items():
            out.append(f"suberr {h} {str(e).splitlines()[-1][:200] if e else ''}")
        return out

    def compare_view(self, case, impl_out):
        if impl_out and impl_out[0].startswith("IMPL-"):
            return impl_out
        seen = {}
        fam = {}
        for ln in impl_out:
            t = ln.split()
            if t and t[0] == "obs":
                seen.setdefault(int(t[1]), set()).add((t[4], t[5]))
                fam[int(t[1])] = t[2]
        return [f"s{i} {fam[i]} digests {len(seen[i])}" for i in sorted(seen)]

    def model_block(self, case, variant):
        return ("model", [f"scen {i} {sc['family']}" for i, sc in enumerate(case["scenarios"])])

    def judge_block(self, case, impl_out):
        if not impl_out or impl_out[0].startswith("IMPL-"):
            return None
        return ("judge", [ln for ln in impl_out if ln.startswith("obs ") or ln.startswith("x ")])

    def nontrivial_key(self, case, impl_out):
        lens = [int(ln.split()[5]) for ln in impl_out if ln.startswith("obs ") and ln.split()[3] == "inproc"]
        if lens and min(lens) >= 50:
            return json.dumps(case, sort_keys=True)
        return None

    # ------------------------------------------------------------------ shrink / mutate
    SHRINK_BUDGET = 14   # every candidate costs six runs incl. three interpreters: keep the shrink short

    def shrink(self, case):
        scens = case["scenarios"]
        self._shrunk = getattr(self, "_shrunk", 0)
        if len(scens) > 1:
            for i in range(len(scens)):
                yield {"family": scens[i]["family"], "scenarios": [scens[i]]}
            return
        if self._shrunk >= self.SHRINK_BUDGET:
            return
        from hv.props.c07 import PROPERTY as C07P

        sc = scens[0]
        for c in C07P.shrink({"family": sc["family"], "cfg": sc["cfg"], "seed": sc["seed"]}, budget=False):
            self._shrunk += 1
            if self._shrunk > self.SHRINK_BUDGET:
                return
            yield {"family": sc["family"], "scenarios": [{"family": sc["family"], "cfg": c["cfg"], "seed": c["seed"]}]}

    def mutate(self, case, rng):
        fams = self._families()
        c = copy.deepcopy(case)
        for sc in c["scenarios"]:
            if rng.random() < 0.5:
                sc["seed"] = rng.randrange(2**31)
            else:
                from hv.scenarios import draw_cfg

                sc["cfg"] = draw_cfg(fams[sc["family"]], rng)
        return c

    def extra_checks(self, ctx):
        from hv.scenarios import IMPORT_ERRORS

        fams = self._families()
        ctx.stats["scenario_families"] = {
            n: {"model_backed_by": getattr(m, "MODEL", None), "components": list(getattr(m, "COMPONENTS", []))}
            for n, m in sorted(fams.items())}
        ctx.stats["families_model_backed_elsewhere"] = sorted(n for n, m in fams.items() if getattr(m, "MODEL", None))
        ctx.stats["families_differential_only"] = sorted(n for n, m in fams.items() if not getattr(m, "MODEL", None))
        ctx.stats["family_import_errors"] = dict(IMPORT_ERRORS)
        ctx.stats["environments"] = ["inproc", "sub-h0", "sub-h1", "sub-hx (12345 in the quick tier, drawn per case in the thorough tier)", "after-activity", "wallclock"]
        return []


PROPERTY = C03()
