"""C02 — generator processes and futures resume at the right instant, value, and once.

Same machinery as C01 (scripted entities on the real engine vs the Lean process-layer model), with
programs that park processes on futures, resolve them from other entities before / at / after the
yield instant, resolve twice, yield a resolved future again, and nest any_of / all_of.
"""
from __future__ import annotations

import random

from hv import core
from hv.engine_harness import Harness, program_lines
from hv.props.c01 import C01, SCALES, gen_program, shift_start


def gen_value(rng: random.Random):
    """what a future is resolved with: the engine must hand it to the waiting process unchanged, by *sending*
    it — small ints, falsy things (0, None, False, "", 0.0, (), [], {}), exception instances and classes used
    as plain values ("result or error object"), tuples that look like an any_of result, lists"""
    r = rng.random()
    if r < 0.4:
        return rng.randrange(100)
    if r < 0.5:
        return 0
    if r < 0.58:
        return "none"
    if r < 0.76:
        return f"a0.{rng.randrange(8)}"
    if r < 0.81:
        return f"a1.{rng.randrange(2)}"
    if r < 0.85:
        return rng.choice(["a2.0", "a2.3"])
    if r < 0.88:
        return rng.choice(["a3.0", "a3.1"])
    if r < 0.91:
        return f"a4.{rng.randrange(4)}"
    if r < 0.94:
        return f"a5.{rng.randrange(3)}"
    if r < 0.97:
        return f"p({rng.randrange(3)},{rng.choice(['n5', 'none', 'a0.1'])})"
    return rng.choice(["l[]", "l[n1,a0.2]", "l[none]"])


def gen_future_program(rng: random.Random):
    prog = gen_program(rng, crash=False)
    sc = SCALES["small" if max(prog["times"]) < 10**6 else "large"]
    ents = prog["ents"]
    nf = rng.randint(1, 4)
    nwait = rng.randint(1, 3)
    nplain = nf + nwait          # nf shared plain futures + one dedicated plain future per waiter
    next_slot = [nplain]
    kinds_w = [20 + i for i in range(nwait)]
    kinds_r = [40 + i for i in range(rng.randint(1, 4))]

    def fut_expr(depth):
        """returns (acts constructing it, slot, set of plain leaves).  The inputs of an any_of have
        pairwise disjoint leaf sets: one resolve() call can then settle at most one of them, so
        'the first input to resolve' is unambiguous (the order inside one callback cascade is not
        something the property text fixes)."""
        if depth == 0 or rng.random() < 0.5:
            s = rng.randrange(nf)
            return [], s, {s}
        acts, ins, leaves = [], [], set()
        op = rng.choice(["A", "L"])
        for _ in range(rng.randint(2, 3)):
            a, s, lv = fut_expr(depth - 1)
            if op == "A" and (lv & leaves):
                continue
            acts += a
            ins.append(s)
            leaves |= lv
        if len(ins) < 2:
            op = "L"
            while len(ins) < 2:
                s = rng.randrange(nf)
                ins.append(s)
                leaves.add(s)
        slot = next_slot[0]
        next_slot[0] += 1
        acts.append([op, slot] + ins)
        return acts, slot, leaves

    direct = set()      # shared plain futures some process parks on directly (one process per future)
    for k in kinds_w:
        e = rng.randrange(ents)
        segs = []
        if rng.random() < 0.4:
            segs.append({"acts": [], "term": ["Y", rng.choice(sc["fd"])]})
        acts, slot, _ = fut_expr(rng.choice([0, 1, 1, 2, 3]))
        if not acts:
            slot = nf + (k - 20)   # a plain future of its own: a future may be awaited by one process only
            free = [f for f in range(nf) if f not in direct]
            if free and rng.random() < 0.5:
                # … or one of the shared plain futures, which other waiters may use as an input of their
                # any_of / all_of at the same time: the future then has a parked process AND watchers, and
                # its resolve() must wake the one and notify the others
                slot = rng.choice(free)
                direct.add(slot)
        segs.append({"acts": acts, "term": ["W", slot]})
        if rng.random() < 0.3:
            segs.append({"acts": [], "term": ["W", slot]})       # the same (now resolved) future again
        if rng.random() < 0.4:
            segs.append({"acts": [], "term": ["Y", rng.choice(sc["fd"])]})
        last = []
        if rng.random() < 0.5:
            last.append(["E", rng.randrange(ents), 60, rng.choice(sc["nd"]), False, 0])
        if rng.random() < 0.3:
            last.append(["R", rng.randrange(nplain), gen_value(rng)])
        segs.append({"acts": last, "term": ["Z"]})
        if rng.random() < 0.35:
            # the process registers a completion hook on its own triggering event while it is in flight
            # (the event is the only one of its kind, so the kind handle is the event itself)
            rng.choice(segs)["acts"].append(["AH", k, rng.choice([5, 6])])
        prog["defs"].append({"ent": e, "kind": k, "gen": True, "segs": segs})
        prog["pre"].append({"tgt": e, "kind": k, "time": rng.choice(sc["times"]), "daemon": rng.random() < 0.1,
                            "hook": rng.choice([0, 0, 4]), "cancelled": False})
    for k in kinds_r:
        e = rng.randrange(ents)
        gen = rng.random() < 0.5
        segs = []
        nseg = rng.randint(1, 2) if gen else 1
        for si in range(nseg):
            acts = []
            for _ in range(rng.randint(1, 3)):
                acts.append(["R", rng.randrange(nplain), gen_value(rng)])
            if rng.random() < 0.3:
                # another entity holding the waiter's triggering event adds a hook to it: before the waiter
                # starts, while it is parked / sleeping, or after it is done
                acts.insert(rng.randrange(len(acts) + 1), ["AH", rng.choice(kinds_w), rng.choice([6, 7])])
            if rng.random() < 0.3:
                acts.insert(rng.randrange(len(acts) + 1), ["E", rng.randrange(ents), 61, rng.choice(sc["nd"]), False, 0])
            term = ["Z"] if si == nseg - 1 else ["Y", rng.choice(sc["fd"])]
            segs.append({"acts": acts, "term": term})
        prog["defs"].append({"ent": e, "kind": k, "gen": gen, "segs": segs})
        for _ in range(rng.randint(1, 2)):
            prog["pre"].append({"tgt": e, "kind": k, "time": rng.choice(sc["times"]), "daemon": False,
                                "hook": 0, "cancelled": rng.random() < 0.05})
    rng.shuffle(prog["pre"])
    prog["nfut"] = next_slot[0]
    if prog["end"] is not None and rng.random() < 0.5:
        prog["end"] = max(sc["ends"])
    return prog


class C02(C01):
    id = "C02"
    driver = "drv-c02"
    lake_targets = ["HappyProofs.C02.Props", "drv-c02"]
    audit_imports = ["HappyProofs.C02.Props"]
    lean_files = ["HappyModel/C01/*.lean", "HappyModel/C02/*.lean", "HappyProofs/C02/*.lean", "HappyModel/Proto.lean", "Driver/C02.lean"]
    theorems = [
        "HappyModel.C01.resolve_idempotent",
        "HappyModel.C01.finished_never_runs",
        "HappyModel.C01.yield_delay_schedules",
        "HappyModel.C01.ret_finishes",
        "HappyModel.C01.one_pending_continuation",
        "HappyModel.C01.one_pending_continuation_program",
        "HappyModel.C01.pending_invariant_step",
        "HappyModel.C01.handler_effect_ok",
        "HappyModel.C01.future_resume_once",
        "HappyModel.C01.park_on_resolved_resumes_at_once",
        "HappyModel.C01.park_on_unresolved_waits",
        "HappyModel.C01.anyof_construct",
        "HappyModel.C01.anyof_first",
        "HappyModel.C01.allof_construct",
        "HappyModel.C01.allof_all",
        "HappyModel.C01.anyof_first_nested",
        "HappyModel.C01.allof_all_nested",
        "HappyModel.C01.finish_once",
        "HappyModel.C01.finishing_step_runs_hooks_once",
        "HappyModel.C01.hooks_at_most_once",
        "HappyModel.C01.hooks_at_most_once_from",
        "HappyModel.C01.addHook_in_flight",
        "HappyModel.C01.addHook_before_delivery",
        "HappyModel.C01.inflight_hook_runs_at_finish",
        "HappyModel.C01.inflight_hooks_cleared",
        "HappyModel.C01.resumed_value_logged",
        "HappyModel.C01.resolve_wakes_then_notifies",
        "HappyModel.C01.relay_forwards",
        "HappyModel.C01.relay_stops",
        "HappyModel.C01.hops_by_tag",
        "HappyModel.C01.delay_clauses_silent_on_model",
        "HappyModel.C01.delay_clauses_silent_on_program",
        "HappyModel.C01.delayMonitor_filter",
        "HappyModel.C01.wait_clause_silent_on_model",
        "HappyModel.C01.wait_clause_silent_on_program",
        "HappyModel.C01.waitMonitor_filter",
        "HappyModel.C01.process_trace_satisfies_c02_spec_delay_wait",
        "HappyModel.C01.hook_clauses_silent_on_model",
        "HappyModel.C01.hook_clauses_silent_on_program",
        "HappyModel.C01.process_trace_satisfies_c02_spec",
        "HappyModel.C01.program_trace_satisfies_c02_spec",
        "HappyModel.C01.future_before_resolved_silent_on_model_plain",
        "HappyModel.C01.future_before_resolved_silent_on_program_plain",
        "HappyModel.C01.future_clauses_silent_on_model_plain",
        "HappyModel.C01.future_clauses_silent_on_program_plain",
        "HappyModel.C01.plain_full_trace_satisfies_c02_spec",
        "HappyModel.C01.plain_program_full_trace_satisfies_c02_spec",
        "HappyModel.C01.delivered_sorted",
        "HappyModel.C01.at_most_once",
        "HappyModel.C01.pop_verdict",
    ]
    partial_theorems = {
        "HappyModel.C01.delay_clauses_silent_on_model":
            "link between the C02 trace Spec and the model, clause group by clause group: the delay clauses "
            "(process/resumed-without-pending-delay, delay-resume-at-wrong-time, delay-resume-raised, delay-resume-with-value: "
            "Spec.delayMonitor), future/resumed-without-wait (Spec.waitMonitor) and the hook clauses (process/hook/not-run-at-finish, "
            "ran-without-being-due, ran-out-of-order, ran-at-wrong-instant: Spec.hookMonitor, incl. hooks added to an event in flight) are "
            "proved silent on the lines the model itself writes (`delayView`: R / y / w lines; `hookView`: S / K / F / h / H lines with "
            "creation index + 1 as event tag and the h lines in action order; both built along `run`), for every handler table, plain "
            "initial state, end time and number of iterations; the delay and wait monitors provably read no other line (`*_filter`). "
            "Each of these signatures is raised by its monitor only (the remaining fold of the judge no longer checks them). "
            "The combined trace `c02TraceOf` (R / S / K / h / F / H / c / y / w lines interleaved as written) is accepted by the three "
            "monitors (`process_trace_satisfies_c02_spec`); it does not carry the n / a / l / r lines of the future layer",
        "HappyModel.C01.future_clauses_silent_on_model_plain":
            "the settle fold of the judge (`Spec.stepLine` over the numbered lines; the only errors it raises are "
            "future/resumed-before-resolved, value-raised-instead-of-sent, resumed-with-wrong-value, resumed-at-wrong-instant) is "
            "proved to end with err = none on the future layer of the model's own trace (`FV.futTrace`: the S / K / R line that opens "
            "each delivery and sets the judge's clock, the r lines in action order, the w line of the terminator, ghosted along `run` "
            "with their positions) for PLAIN futures only: programs whose segments contain no fresh / any_of / all_of action (`settle` "
            "is then the identity, a slot is never rebound, futures have no settle callbacks) and whose resolved values do not print "
            "as `raised:…` (a decidable condition on the handler table, `FV.PlainSegV`; the String lemma 'Val.show never starts with "
            "raised:' is not proved in general). `future_before_resolved_silent_on_*_plain` is the first clause alone on the R / r / w "
            "view without the value condition. NOT linked: (1) the same four clauses for any_of / all_of composites (needs the "
            "callback cascade of `resolveFut` = the fixpoint `settle` computes, incl. the clipped positions and the (index, value) "
            "tie-break of any_of) and for rebinding (`fresh`); (2) the end-of-trace clause future/resolved-but-never-resumed (needs "
            "a finished-run / horizon argument plus the no-displacement discipline: a second process parking on a future displaces "
            "the first in the model; a continuation that is cancelled, stale or crash-gated is dropped without an R line). "
            "`plain_full_trace_satisfies_c02_spec` puts it together on ONE trace (`c02FullTraceOf` = `c02TraceOf` plus the r lines "
            "where the resolve actions happen, between the h lines): hook monitor, delay monitor, wait monitor and the settle fold "
            "all accept it for plain futures, so Spec.judgeLines can only answer with its last clause there",
        "HappyModel.C01.one_pending_continuation":
            "the invariant is 'at most one pending resumption per process', not 'exactly one': the model (like the "
            "harness) lets a second process park on a future that already has one and lets a slot be rebound, where "
            "the code raises / keeps the old object, and the contgate variant drops continuations of crashed entities; "
            "a displaced process then has no pending resumption. That each terminator creates exactly one (yield d: "
            "yield_delay_schedules; yield f unresolved: park_on_unresolved_waits; yield f resolved: "
            "park_on_resolved_resumes_at_once) and that resolve turns the park into exactly one continuation "
            "(future_resume_once) are step-level theorems",
        "HappyModel.C01.anyof_first_nested":
            "nested any_of/all_of are proved for ranked callback graphs (every combinator tree) with fuel above the rank "
            "(driver: depthFuel = 64), as statements about one resolve() call on a table of the described shape; that "
            "the Act.anyOf/Act.allOf constructors establish the shape is proved for plain inputs only "
            "(anyof_construct / allof_construct), and inputs already resolved at construction time are not covered",
    }
    quick_cases = 1000
    thorough_cases = 25000
    rule = ("C01 programs (no crash actions) plus 1–3 waiter processes that park on plain futures (own ones, or shared ones that are at the "
            "same time inputs of another waiter's combinator) or on any_of/all_of trees of depth ≤3 "
            "(some after a delay, some yielding the same future twice) and 1–4 resolver handlers (plain or generator) that resolve "
            "the plain futures, possibly twice, before / at / after the wait instant, with values of every kind (ints incl. 0, None, False, "
            "'', 0.0, empty containers, exception instances and classes used as plain values, tuples, lists: the process writes down what "
            "the yield expression gave it or that it raised); completion hooks added to a waiter's triggering event by the waiter itself "
            "while in flight and by other entities before its delivery / while it is parked or sleeping / after it finished. Non-trivial = at least one process was resumed "
            "by a future; distinct = distinct log")
    trusted_base = C01.trusted_base + ["each future slot is bound at most once per run (no rebinding), at most one process parks directly on a future at a time (the same future may be an input of other processes' combinators)"]
    assumptions = C01.assumptions + [
        "the inputs of a generated any_of never share a plain future, so one resolve() call settles at most one of them; "
        "which input counts as 'first' inside a single callback cascade is not fixed by the property text and is not judged"]
    hypotheses = ["future_clauses_silent_on_model_plain / future_before_resolved_silent_on_model_plain: plain futures only "
                  "(no fresh / any_of / all_of action in any segment of the handler table; resolved values do not print as "
                  "`raised:…`), initial state with plain pending events, no process and no future yet (InitOk, futs = []); "
                  "the statement is about the S / K / R / r / w lines of the model's run with their own numbering"]

    def generate(self, rng, i, tier):
        prog = gen_future_program(rng)
        started = rng.random() < 0.25
        if started:
            shift_start(rng, prog)
        prog["family"] = ("futures/" + ("auto" if prog["end"] is None else "dur" if prog.get("dur") is not None else "end") + "/" + prog["loop"]
                          + ("/start" if started else ""))
        return prog

    def nontrivial_key(self, case, impl_out):
        view = self.compare_view(case, impl_out)
        if any(l.startswith("R ") and l.endswith(" 0") for l in view):
            return tuple(view[:80])
        return None


PROPERTY = C02()
