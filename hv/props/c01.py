"""C01 — every live event is delivered exactly once, in time order with FIFO ties.

Generated programs run on the real `Simulation` through scripted entities (hv/engine_harness.py);
the same program runs on the Lean engine model (HappyModel/C01); entity-side logs are diffed; the
Lean Spec (HappyModel/C01/Spec.lean) judges the trace recorded from outside the engine.
"""
from __future__ import annotations

import random

from hv import core
from hv.engine_harness import Harness, delay_ns, make_stateless, program_lines

TICK = 9
SCALES = {
    # everything within a few microseconds: ties at 1000/2000 ns, 1 ns neighbours
    "small": dict(fd=[0.0, 0.0, 1e-9, 3e-10, 1e-6, 0.000001, 2e-6, 1e-9 * 1000],
                  nd=[0, 0, 0, 1, 1, 1000, 1000, 2000, 5000],
                  times=[0, 0, 1, 999, 1000, 1000, 1000, 1001, 2000, 2000, 5000],
                  tick=[1000, 700], ends=[0, 1, 999, 1000, 1001, 2000, 2001, 5000, 20000]),
    # seconds: float delays that do not convert exactly (0.29, 0.1)
    "large": dict(fd=[0.0, 1e-9, 0.1, 0.29, 1.5, 2.0, 0.5],
                  nd=[0, 0, 1, 10**9, 10**9, 3 * 10**9, 5 * 10**8],
                  times=[0, 0, 1, 10**9, 10**9, 10**9, 2 * 10**9, 2 * 10**9, 5 * 10**9],
                  tick=[10**9, 3 * 10**9], ends=[10**9, 2 * 10**9, 2 * 10**9 + 1, 6 * 10**9, 10**10]),
}


def gen_program(rng: random.Random, futures=False, crash=True):
    sc = SCALES[rng.choice(["small", "large"])]
    ents = rng.randint(1, 4)
    nk = rng.randint(2, 6)
    prog = {"ents": ents, "pre": [], "defs": [], "nfut": 0}
    use_tick = rng.random() < 0.4
    for _ in range(rng.randint(1, 10)):
        prog["pre"].append({
            "tgt": rng.randrange(ents), "kind": rng.randint(1, nk), "time": rng.choice(sc["times"]),
            "daemon": rng.random() < 0.2, "hook": rng.choice([0, 0, 0, 1, 2]),
            "cancelled": rng.random() < 0.12})
    if use_tick:
        prog["pre"].append({"tgt": 0, "kind": TICK, "time": rng.choice(sc["times"][:4]), "daemon": True,
                            "hook": 0, "cancelled": False})
        prog["defs"].append({"ent": 0, "kind": TICK, "gen": False, "segs": [
            {"acts": [["E", 0, TICK, rng.choice(sc["tick"]), True, 0]], "term": ["Z"]}]})
    for e in range(ents):
        for k in range(1, nk + 1):
            if rng.random() < 0.65:
                gen = rng.random() < 0.6
                nseg = rng.randint(1, 3) if gen else 1
                segs = []
                for si in range(nseg):
                    acts = []
                    for _ in range(rng.choice([0, 1, 1, 2, 3])):
                        r = rng.random()
                        if r < 0.75 and k < nk:
                            acts.append(["E", rng.randrange(ents), rng.randint(k + 1, nk), rng.choice(sc["nd"]),
                                         rng.random() < 0.15, rng.choice([0, 0, 0, 0, 3])])
                        elif r < 0.8 and k < nk:
                            # an event stamped before the current instant (the engine must discard it)
                            acts.append(["EP", rng.randrange(ents), rng.randint(k + 1, nk), rng.choice([1, 1, 1000, 10**9]),
                                         rng.random() < 0.15])
                        elif r < 0.87:
                            acts.append(["X", rng.randint(1, nk)])
                        elif r < 0.9:
                            # a completion hook added to whatever event of that kind was created last: not yet
                            # delivered, being processed right now (its own handler / a process in flight), or done
                            acts.append(["AH", rng.randint(1, nk), rng.choice([5, 6])])
                        elif crash and r < 0.95:
                            acts.append(["C", rng.randrange(ents)])
                        elif crash:
                            acts.append(["U", rng.randrange(ents)])
                    term = ["Z"] if si == nseg - 1 else ["Y", rng.choice(sc["fd"])]
                    segs.append({"acts": acts, "term": term})
                prog["defs"].append({"ent": e, "kind": k, "gen": gen, "segs": segs, "reuse_list": gen and rng.random() < 0.4})
    prog["end"] = None if rng.random() < 0.35 else rng.choice(sc["ends"])
    if crash and rng.random() < 0.3:
        crash_window(rng, prog, sc, nk)
    if rng.random() < 0.3:
        relay_chain(rng, prog, sc)
    if rng.random() < 0.3 and prog["defs"]:
        # held events: created before the run, released by a handler mid-run for an instant far in the
        # future; a later-created event for the same instant must come after them
        far = max(sc["times"]) * 20 + 1000
        prog["held"], prog["dummies"] = [], rng.choice([0, 5, 40])
        for i in range(rng.randint(1, 2)):
            prog["held"].append({"tgt": rng.randrange(ents), "kind": 70 + i, "time": far + i, "daemon": False})
            d = rng.choice(prog["defs"])
            seg = rng.choice(d["segs"])
            if seg["term"][0] != "W":
                seg["acts"].append(["RH", i])
                for _ in range(rng.randint(1, 2)):
                    seg["acts"].append(["EA", rng.randrange(ents), 70 + i, far + i, False])
        if prog["end"] is not None:
            prog["end"] = far * 2
    prog["loop"] = rng.choice(["fast", "slow"])
    prog["times"] = sc["times"]
    return prog


def relay_chain(rng, prog, sc):
    """packets passed on hop by hop with the hop count / TTL kept in the event's own metadata (the handlers
    are stateless: they stamp the event they were handed and forward a copy); the first packets are scheduled
    before the run, some of them with a hop count already set"""
    ents = prog["ents"]
    for j in range(rng.randint(1, 2)):
        kind = 30 + j
        limit = rng.randint(1, 4)
        for e in range(ents):
            acts = [["RL", rng.randrange(ents), kind, rng.choice(sc["nd"]), limit, False]]
            if rng.random() < 0.3:
                acts.append(["RL", rng.randrange(ents), kind, rng.choice(sc["nd"]), rng.randint(1, limit), rng.random() < 0.3])
            gen = rng.random() < 0.3
            segs = [{"acts": acts, "term": ["Z"]}]
            if gen:
                segs = [{"acts": [], "term": ["Y", rng.choice(sc["fd"])]}] + segs
            prog["defs"].append({"ent": e, "kind": kind, "gen": gen, "segs": segs})
        for _ in range(rng.randint(1, 2)):
            p = {"tgt": rng.randrange(ents), "kind": kind, "time": rng.choice(sc["times"]), "daemon": False, "hook": 0,
                 "cancelled": False}
            if rng.random() < 0.3:
                p["hops"] = rng.randint(1, limit)
            prog["pre"].append(p)
    if rng.random() < 0.15:
        # the same request scheduled twice: two pre-run events equal in every field (time, kind, target, daemon flag,
        # metadata) are still two events, each delivered once - also in a run replayed after control.reset()
        prog["pre"].append(dict(rng.choice([p for p in prog["pre"] if p["kind"] != TICK] or prog["pre"])))
    rng.shuffle(prog["pre"])


def crash_window(rng, prog, sc, nk):
    """a down window of one entity with traffic for it scheduled before / inside / after the window and falling
    due inside / exactly at the restore instant / after it.  Whether an event is delivered depends on the
    target's state when the event falls due, not when it was scheduled."""
    ents = prog["ents"]
    grid = sorted(set(sc["times"]))
    grid += [grid[-1] + (grid[-1] - grid[-2]), 2 * grid[-1]]
    i1 = rng.randrange(0, len(grid) - 3)
    i3 = rng.randrange(i1 + 1, len(grid) - 1)
    t1, t3 = grid[i1], grid[i3]                 # crash at t1, restore at t3
    x = rng.randrange(ents)
    who = lambda: rng.randrange(ents)
    after = [t for t in grid if t >= t3]
    inside = [t for t in grid if t1 <= t <= t3]
    crasher = who() if rng.random() < 0.7 else x          # (an entity may crash itself)
    prog["defs"].append({"ent": crasher, "kind": 50, "gen": False, "segs": [{"acts": [["C", x]], "term": ["Z"]}]})
    prog["pre"].append({"tgt": crasher, "kind": 50, "time": t1, "daemon": False, "hook": 0, "cancelled": False})
    restorer = rng.choice([e for e in range(ents) if e != x] or [x])
    if restorer != x:
        prog["defs"].append({"ent": restorer, "kind": 52, "gen": False, "segs": [{"acts": [["U", x]], "term": ["Z"]}]})
        prog["pre"].append({"tgt": restorer, "kind": 52, "time": t3, "daemon": False, "hook": 0, "cancelled": False})
    # senders: handlers that run at some instant (before / inside / after the window) and schedule events for x
    for _ in range(rng.randint(1, 3)):
        ts = rng.choice(inside + inside + grid)
        snd = rng.choice([e for e in range(ents) if e != x] or [x])
        acts = []
        for _ in range(rng.randint(1, 3)):
            due = rng.choice(after + after + inside)
            if due >= ts:
                acts.append(["E", x, rng.randint(1, nk), due - ts, rng.random() < 0.15, rng.choice([0, 0, 0, 3])])
        gen = rng.random() < 0.4
        segs = [{"acts": acts, "term": ["Z"]}]
        if gen:
            segs = [{"acts": [], "term": ["Y", rng.choice(sc["fd"])]}] + segs
        k = 53 + len([d for d in prog["defs"] if 53 <= d["kind"] < 60])
        prog["defs"].append({"ent": snd, "kind": k, "gen": gen, "segs": segs})
        prog["pre"].append({"tgt": snd, "kind": k, "time": ts, "daemon": False, "hook": 0, "cancelled": False})
    # pre-scheduled traffic for x around the window, and something after it so the run goes on
    for t in rng.sample(grid, min(len(grid), rng.randint(1, 3))):
        prog["pre"].append({"tgt": x, "kind": rng.randint(1, nk), "time": t, "daemon": False, "hook": 0, "cancelled": False})
    prog["pre"].append({"tgt": who(), "kind": rng.randint(1, nk), "time": grid[-1], "daemon": False, "hook": 0, "cancelled": False})
    rng.shuffle(prog["pre"])
    if prog["end"] is not None and prog["end"] < grid[-1]:
        prog["end"] = grid[-1] + 1
    prog["window"] = True


def shift_start(rng, prog, huge=True):
    """run the same program from a start_time other than the epoch: every absolute timestamp of the program moves by
    `start` (1 ns, an off-grid value, whole seconds, …); the horizon is given as end_time= or as duration= (relative
    to start_time, in float seconds, incl. values that do not convert exactly)"""
    small = max(prog["times"]) < 10**6
    start = rng.choice([1, 1, 7, 999, 1000, 123457] if small else [1, 10**9, 3 * 10**9, 2 * 10**9 + 1, 10**9 + 123456789])
    if huge and rng.random() < 0.2:
        # long simulated times: past 2**53 ns (about 104 days) a float can no longer hold every nanosecond, so any
        # arithmetic on instants that goes through float (seconds or nanoseconds) snaps to a 2 / 16 / 128 ns grid
        start = rng.choice([2 * 10**16 + 1, 10**17 + 3, 10**18 + 7, 2**53 + 1])
    prog["start"] = start
    for p in prog["pre"]:
        p["time"] += start
    for hd in prog.get("held", []):
        hd["time"] += start
    for d in prog["defs"]:
        for seg in d["segs"]:
            for a in seg["acts"]:
                if a[0] == "EA":
                    a[3] += start
    prog["times"] = [t + start for t in prog["times"]]
    if prog["end"] is not None:
        if rng.random() < 0.6:
            dur = rng.choice([1e-6, 2e-6, 5e-6, 1.1e-6, 2.0001e-5, 1e-9] if small else [1.0, 2.0, 0.5, 6.0, 0.29, 2.000000001, 10.0])
            prog["dur"] = dur
            prog["end"] = start + delay_ns(dur)
        else:
            prog["end"] += start


class C01(core.Property):
    id = "C01"
    driver = "drv-c01"
    lake_targets = ["HappyProofs.C01.Props", "HappyProofs.C01.Crash", "drv-c01"]   # (Crash imports TraceGate ← TraceLive ← TraceSpec)
    audit_imports = ["HappyProofs.C01.Props", "HappyProofs.C01.Crash"]
    lean_files = ["HappyModel/C01/*.lean", "HappyProofs/C01/*.lean", "HappyModel/Proto.lean", "Driver/C01.lean"]
    variants = ["current", "contgate"]
    theorems = [
        "HappyModel.C01.delivered_sorted",
        "HappyModel.C01.delivery_times_nondecreasing",
        "HappyModel.C01.fifo_ties",
        "HappyModel.C01.at_most_once",
        "HappyModel.C01.pop_verdict",
        "HappyModel.C01.clock_monotone",
        "HappyModel.C01.popped_unique",
        "HappyModel.C01.primary_count_eq",
        "HappyModel.C01.pending_never_stale",
        "HappyModel.C01.halt_no_live_pending",
        "HappyModel.C01.autoterm_iff_no_primary_in_heap",
        "HappyModel.C01.autoterm_cancelled_primary_keeps_alive",
        "HappyModel.C01.scheduled_whatever_the_target_state",
        "HappyModel.C01.up_target_gets_event",
        "HappyModel.C01.down_target_drops_event",
        "HappyModel.C01.engine_trace_order_clauses",
        "HappyModel.C01.engine_trace_no_lost_event",
        "HappyModel.C01.engine_trace_autoterm_grade",
        "HappyModel.C01.engine_trace_satisfies_spec",
        "HappyModel.C01.gated_event_is_exempt",
        "HappyModel.C01.engine_trace_no_lost_event_gate",
        "HappyModel.C01.engine_trace_satisfies_spec_gate",
        "HappyModel.C01.process_trace_satisfies_spec",
    ]
    partial_theorems = {
        "HappyModel.C01.process_trace_satisfies_spec":
            "the judge is proved to accept the trace the model writes (`traceOf`: delivery, creation and cancel lines in handler "
            "order, tags = creation index + 1) for every machine / handler table, pre-run schedule and end time, on finished runs "
            "shorter than the judge's own horizon of 10^9 lines; in that trace (i) the C / U lines are one per entity whose flag a "
            "delivery changed, placed after the creations of that delivery (the harness writes one per crash / restore action, "
            "in action order), (ii) every event is tagged, so the judge's allowance for untagged future-resumed continuations "
            "(`laterFutureResume`) is not exercised, (iii) pre-cancelled pre-run events (`Program.initState`) are not in `init`. "
            "The C02 Spec (futures / hooks over n/a/l/r/w/y/h/H lines) is not linked to the model in this way",
    }
    quick_cases = 1200
    thorough_cases = 30000
    case_timeout_s = 20
    rule = ("programs: 1–4 scripted entities, ≤6 event kinds forming a DAG (+ a self-rearming daemon tick), ≤11 pre-run "
            "events on a small time grid with deliberate same-nanosecond clusters, daemon / pre-cancelled events, handlers that "
            "are plain functions or generators (≤3 segments, float delays incl. 0, 1e-9, 3e-10), emits with delay 0/1 ns/…, "
            "cancels, crash/restore of entities, completion hooks (attached at creation or added later to an event that is pending, "
            "being processed or done); crash-window programs (one entity down from t1 to t3, events for it scheduled before / inside / "
            "after the window and falling due inside it, at the restore instant or after it: an event is exempt from delivery only if "
            "its target is down in the stretch of the trace in which it falls due); end_time none / on a tie value / between events; fast loop or "
            "instrumented loop (control attached); a tenth of the programs (stateless ones) are run, reset() and run again, the second "
            "run being the one compared and judged; relay chains whose hop counter lives in the event metadata (handlers stamp the "
            "delivered event and forward a copy); 15% of the programs schedule one pre-run event twice (the harness tags every event, so the two differ in that metadata tag); 30% of the programs run from a start_time other than the epoch (1 ns, off-grid, one in five of them past 2**53 ns where floats no longer hold every nanosecond, "
            "seconds) with the horizon given as end_time= or as duration= (float seconds relative to start_time); a run that makes more than 1500 deliveries is cut and judged as it stands. Non-trivial = at least two deliveries share a timestamp or an event is "
            "cancelled/stale/gated; distinct = distinct (program, log)")
    trusted_base = [
        "hv/engine_harness.py scripted entities and trace recorder; tags = harness creation counter",
        "CPython heapq returns the minimum of a total order",
        "float→ns conversion of yielded delays re-implemented as int(d*1e9) in the harness (Instant.__add__)",
    ]
    assumptions = [
        "handlers are arbitrary in the theorems; the correspondence exercises the script language of hv/engine_harness.py",
        "a delivery to a crashed entity counts as processed but is not a delivery (Event.invoke returns []); 'target not crashed' "
        "is judged at the moment the event falls due (an event scheduled for a crashed entity that is restored in time is live)",
        "events emitted by a generator are passed to the engine at the next yield/return of the same segment (no emit in a segment that ends by waiting on a future)",
    ]
    hypotheses = ["FreshIdx (in-run creation indices exceed all pre-run ones) is established by `init` and by /repo commit 03b7a76"]

    futures = False

    def generate(self, rng, i, tier):
        prog = gen_program(rng, futures=self.futures)
        started = rng.random() < 0.3
        if started:
            shift_start(rng, prog)
        if type(self) is C01 and not prog.get("window") and rng.random() < 0.1:
            # the run is repeated after control.reset(): the second run starts from clock 0 with the replayed
            # pre-run schedule and must be the same run again (entities without state)
            make_stateless(prog)
            prog["rerun"] = True
            prog["family"] = "rerun/" + ("auto" if prog["end"] is None else "end") + "/" + prog["loop"] + ("/start" if started else "")
            return prog
        prog["family"] = (("crashwin/" if prog.get("window") else "program/") + ("auto" if prog["end"] is None else "dur" if prog.get("dur") is not None else "end")
                          + "/" + prog["loop"] + ("/start" if started else ""))
        return prog

    def run_impl(self, case):
        h = Harness(case)
        sim = h.build()
        if case.get("loop") == "slow":
            _ = sim.control  # attaching the control surface selects the instrumented loop
        out = h.run()
        if case.get("rerun"):
            out = h.rerun()
        self._last_trace = h.trace
        return out + ["#trace"] + h.trace

    def compare_view(self, case, impl_out):
        return impl_out[:impl_out.index("#trace")] if "#trace" in impl_out else impl_out

    def model_block(self, case, variant):
        end = "inf" if case["end"] is None else str(case["end"])
        return (f"run {variant} {end} 20000", program_lines(case))

    def judge_block(self, case, impl_out):
        if impl_out and impl_out[0].startswith("IMPL-"):
            return None
        if "#trace" not in impl_out:
            return None
        k = impl_out.index("#trace")
        return ("judge", impl_out[k + 1:])

    def nontrivial_key(self, case, impl_out):
        times = [l.split()[1] for l in impl_out if l[:2] in ("S ", "K ", "R ")]
        if len(times) != len(set(times)) or any(l.startswith("x ") or l.startswith("C ") for l in impl_out):
            return tuple(impl_out[:60])
        return None

    def shrink(self, case):
        # drop pre-run events, handler defs, segments' actions
        for key in ("pre", "defs"):
            xs = case[key]
            for i in range(len(xs)):
                c = dict(case)
                c[key] = xs[:i] + xs[i + 1:]
                yield c
        for di, d in enumerate(case["defs"]):
            for si, seg in enumerate(d["segs"]):
                for ai in range(len(seg["acts"])):
                    c = dict(case)
                    c["defs"] = [dict(x) for x in case["defs"]]
                    nd = dict(d)
                    nd["segs"] = [dict(s) for s in d["segs"]]
                    nd["segs"][si] = dict(seg, acts=seg["acts"][:ai] + seg["acts"][ai + 1:])
                    c["defs"][di] = nd
                    yield c

    def mutate(self, case, rng):
        c = dict(case)
        c["pre"] = [dict(p) for p in case["pre"]]
        if c["pre"]:
            p = rng.choice(c["pre"])
            p["time"] = rng.choice(case.get("times", [0, 1000]))
        if rng.random() < 0.3:
            c["end"] = rng.choice([None] + case.get("times", [0, 1000]))
            c.pop("dur", None)     # (the horizon is given as end_time= then)
        c["loop"] = rng.choice(["fast", "slow"])
        return c


PROPERTY = C01()
