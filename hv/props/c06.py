"""C06 — injected faults act exactly during their windows and isolate only their target.

Correspondence: a real `Simulation` with a real `FaultSchedule` (CrashNode, PauseNode,
NetworkPartition, InjectLatency, InjectPacketLoss, ReduceCapacity), a real `Network` with one
`NetworkLink` per ordered pair of workers, a real `Resource`, and small harness entities (workers
with generator handlers, a sink).  Every processed event is observed through the public
`sim.control.on_event` hook; the sequence of processed events is the *schedule* that is handed to the
Lean model (`HappyModel/C06`) together with the case (GUIDE rule 8), and the model has to reproduce
what each of them did (activity tokens, probe fate, effective settings).  The Lean Spec predicate
(`HappyModel/C06/Spec.lean`) judges the implementation's own transcript against the fault plan.

All times in a case are integer *ticks* of 1/512 s = 1 953 125 ns, so every float the code computes
(`Instant.from_seconds`, `extra_ms / 1000.0`, latency sums, capacity factors) is exact.
"""
from __future__ import annotations

import atexit
import hashlib
import json
import os
import random
import shutil
from pathlib import Path

from hv import core

TICK = 1_953_125          # ns
CAPS = 1024               # capacity / loss scale in the protocol
SCHED_DIR = Path(os.environ.get("HV_C06_TMP", "/tmp/hv-c06-sched"))


def case_key(case) -> str:
    return hashlib.sha256(json.dumps(case, sort_keys=True).encode()).hexdigest()[:24]


class Watchdog(Exception):
    pass


RESOLVE_VALUES = [None, 0, "v", (), 1.5]
GHOST = 99                # index of an entity that is not registered with the Simulation


def cancel_points(f):
    """the points at which the handle of fault `f` is cancelled: "pre" (before the Simulation is
    built), 0 (after it is built, before the run), c > 0 (by an event at tick c)"""
    c = f.get("cancel", -1)
    if isinstance(c, list):
        return [x for x in c if x == "pre" or x >= 0]
    return [] if (c != "pre" and c < 0) else [c]


STRIDE = 1000            # node ids of network k in the Lean case: worker + k * STRIDE


def net_matrices(case):
    """(latency, loss) matrices per network: network 0 from `lat` / `loss`, the others from `xlat` / `xloss`"""
    out = [(case["lat"], case["loss"])]
    for k in range(1, case.get("nets", 1)):
        out.append((case["xlat"][k - 1], case["xloss"][k - 1]))
    return out


def target_net(case, f):
    """the network a fault / call resolves to: the named one, or the first registered one"""
    k = f.get("net")
    return case.get("netorder", [0])[0] if k is None else k


def manual_parts(case):
    """manual `Network.partition()` calls, numbered after the scheduled faults"""
    nf = len(case["faults"])
    out, k = {}, 0
    for i, m in enumerate(case.get("manual", [])):
        if m["op"] == "part":
            out[i] = nf + k
            k += 1
    return out


def _preload():
    """import the simulator in the harness process, before the fork pool exists: sixteen workers
    importing it at once under load took longer than the per-case timeout"""
    import happysimulator.components.network.link  # noqa: F401
    import happysimulator.components.network.network  # noqa: F401
    import happysimulator.components.resource  # noqa: F401
    import happysimulator.core.simulation  # noqa: F401
    import happysimulator.distributions.constant  # noqa: F401
    import happysimulator.faults.network_faults  # noqa: F401
    import happysimulator.faults.node_faults  # noqa: F401
    import happysimulator.faults.resource_faults  # noqa: F401
    import happysimulator.faults.schedule  # noqa: F401


_preload()


# --------------------------------------------------------------------------- implementation run


def run_real(case):
    """Drive the real code; returns the transcript (list of lines)."""
    from happysimulator.components.network.link import NetworkLink
    from happysimulator.components.network.network import Network
    from happysimulator.components.resource import Resource
    from happysimulator.core.entity import Entity
    from happysimulator.core.event import Event, ProcessContinuation
    from happysimulator.core.sim_future import SimFuture
    from happysimulator.core.simulation import Simulation
    from happysimulator.core.temporal import Instant
    from happysimulator.distributions.constant import ConstantLatency
    from happysimulator.faults.network_faults import InjectLatency, InjectPacketLoss, NetworkPartition
    from happysimulator.faults.node_faults import CrashNode, PauseNode
    from happysimulator.faults.resource_faults import ReduceCapacity
    from happysimulator.faults.schedule import FaultSchedule

    random.seed(case.get("seed", 0))
    n = case["n"]
    U = 1.0 / 512.0
    cur: list[str] = []          # activity tokens of the event being processed
    jobs = case["jobs"]
    probes = case["probes"]
    futs = [SimFuture() for _ in range(case.get("nfut", 0))]
    res = Resource("res", case["cap"])

    class Sink(Entity):
        def handle_event(self, ev):
            cur.append("got")
            return None

    sink = Sink("sink")

    qres = case.get("family") == "qres"

    class Worker(Entity):
        def handle_event(self, ev):
            if ev.event_type == "probe":
                cur.append("recv")
                return None
            j = ev.context["metadata"]["job"]
            if not jobs[j]["ops"] and not qres:
                cur.extend(["enter", "done"])       # a plain handler: no generator, no process
                return None
            return self.run_job(j)

        def run_job(self, j):
            cur.append("enter")
            grants = []
            for k, op in enumerate(jobs[j]["ops"]):
                kind = op[0]
                if kind == "sleep":
                    yield op[1] * U
                    cur.append(f"w{k}")
                elif kind == "emit":
                    e = Event(self.now, "emit", target=sink)
                    e.context["metadata"].update(job=j, k=k)
                    cur.append(f"e{k}")
                    yield op[1] * U, [e]
                    cur.append(f"w{k}")
                elif kind == "wait":
                    yield futs[op[1]]
                    cur.append(f"w{k}")
                elif kind == "res":
                    # the worker ignores what it is resumed with; the engine must not: None, a falsy
                    # and a truthy value in rotation
                    futs[op[1]].resolve(RESOLVE_VALUES[(op[1] + k + j) % len(RESOLVE_VALUES)])
                    cur.append(f"r{k}")
                elif kind == "acq":
                    try:
                        fut = res.acquire(op[1])
                    except ValueError:
                        cur.append(f"x{k}")
                        continue
                    g = yield fut
                    grants.append(g)
                    cur.append(f"w{k}")
                elif kind == "rel":
                    if grants:
                        g = grants.pop(0)
                        try:
                            g.release()
                            cur.append(f"l{k}")
                        except ValueError:
                            cur.append(f"X{k}")
                    else:
                        cur.append(f"n{k}")
            cur.append("done")
            return None

    if qres:
        # queue-fronted target: the same generator runs as `handle_queued_event` behind the
        # resource's internal Queue + QueueDriver + worker adapter (one job in service at a time)
        from happysimulator.components.queued_resource import QueuedResource

        class QWorker(QueuedResource):
            def __init__(self, name):
                super().__init__(name)
                self.busy = 0

            def has_capacity(self):
                return self.busy < 1

            def handle_queued_event(self, ev):
                self.busy += 1
                yield from Worker.run_job(self, ev.context["metadata"]["job"])
                self.busy -= 1
                return None

        workers = [QWorker(f"w{i}") for i in range(n)]
    else:
        workers = [Worker(f"w{i}") for i in range(n)]
    K = case.get("nets", 1)
    order = case.get("netorder", list(range(K)))        # registration order of the networks
    first = order[0]                                    # what `network_name=None` resolves to
    mats = net_matrices(case)

    def nname(k):
        return "net" if k == 0 else f"net{k}"

    nets = [Network(nname(k)) for k in range(K)]
    net_index = {id(x): k for k, x in enumerate(nets)}
    links = {}
    pairs = [(k, a, b) for k in range(K) for a in range(n) for b in range(n) if a != b]
    for (k, a, b) in pairs:
        lk = NetworkLink(f"l{k}{a}{b}", latency=ConstantLatency(mats[k][0][a][b] * U),
                         packet_loss_rate=mats[k][1][a][b] / float(CAPS))
        nets[k].add_link(workers[a], workers[b], lk)
        links[(k, a, b)] = lk

    def ename(e):
        return nname(e - n) if n <= e < n + K else f"w{e}"

    class Tagged:
        """public `Fault` protocol wrapper that remembers which events belong to which fault"""

        def __init__(self, inner):
            self.inner, self.events = inner, []

        def generate_events(self, ctx):
            self.events = self.inner.generate_events(ctx)
            return self.events

    fs = FaultSchedule()
    tagged, handles = [], []
    for f in case["faults"]:
        k, s, r = f["k"], f["s"] * U, (None if f["r"] is None else f["r"] * U)
        nn = None if f.get("net") is None else nname(f["net"])     # None: the first registered network
        if k == "crash":
            obj = CrashNode(ename(f["e"]), at=s, restart_at=r)
        elif k == "pause":
            obj = PauseNode(ename(f["e"]), start=s, end=r)
        elif k == "part":
            obj = NetworkPartition([f"w{x}" for x in f["A"]], [f"w{x}" for x in f["B"]], start=s, end=r,
                                   asymmetric=bool(f["asym"]), network_name=nn)
        elif k == "lat":
            obj = InjectLatency(f"w{f['a']}", f"w{f['b']}", extra_ms=f["x"] * 1000.0 / 512.0, start=s, end=r,
                                network_name=nn)
        elif k == "loss":
            obj = InjectPacketLoss(f"w{f['a']}", f"w{f['b']}", loss_rate=f["x"] / float(CAPS), start=s, end=r,
                                   network_name=nn)
        elif k == "cap":
            obj = ReduceCapacity("res", factor=f["num"] / float(f["den"]), start=s, end=r)
        else:
            raise ValueError(k)
        t = Tagged(obj)
        tagged.append(t)
        handles.append(fs.add(t))
        if "pre" in cancel_points(f):
            handles[-1].cancel()             # before the Simulation (and the fault's events) exist

    cmap, mmap, mh = {}, {}, {}
    mfid = manual_parts(case)

    def make_events():
        """the workload: jobs, probes, cancel() calls, direct calls of the Network partition API"""
        evs = []
        for j, job in enumerate(jobs):
            e = Event(Instant(job["t"] * TICK), "job", target=workers[job["e"]])
            e.context["metadata"]["job"] = j
            evs.append(e)
        for p, pr in enumerate(probes):
            e = Event(Instant(pr["t"] * TICK), "probe", target=nets[pr.get("net", 0)])
            e.context["metadata"].update(source=f"w{pr['a']}", destination=f"w{pr['b']}", probe=p)
            evs.append(e)
        for fid, f in enumerate(case["faults"]):
            for c in cancel_points(f):
                if c == "pre" or c == 0:
                    continue
                ce = Event.once(Instant(c * TICK), "cancel", (lambda h: (lambda e: h.cancel()))(handles[fid]), daemon=True,
                                context={"metadata": {"hv_cancel": fid}})
                evs.append(ce)
        for i, m in enumerate(case.get("manual", [])):
            mnet = nets[m.get("net", 0)] if m["op"] != "heal" else None
            if m["op"] == "part":
                def fn(e, i=i, m=m, mnet=mnet):
                    mh[i] = mnet.partition([workers[x] for x in m["A"]], [workers[x] for x in m["B"]],
                                           asymmetric=bool(m["asym"]))
                tag = ("a", mfid[i])
            elif m["op"] == "heal":
                def fn(e, m=m):
                    if m["h"] in mh:
                        mh[m["h"]].heal()
                tag = ("d", mfid[m["h"]])
            else:
                def fn(e, mnet=mnet):
                    mnet.heal_partition()
                tag = ("A", m.get("net", 0))
            me = Event.once(Instant(m["t"] * TICK), "manual", fn, daemon=True, context={"metadata": {"hv_manual": i}})
            mmap[i] = (tag, i)
            evs.append(me)
        for i, sc in enumerate(case.get("setcaps", [])):
            # the model resizes the resource itself (an autoscaler): the new configured capacity
            evs.append(Event.once(Instant(sc["t"] * TICK), "setcap", (lambda v: (lambda e: res.set_capacity(v)))(sc["v"]),
                                  daemon=True, context={"metadata": {"hv_setcap": sc["v"]}}))
        return evs

    # `early`: the workload's events exist before the Simulation (and with it the fault events)
    early = bool(case.get("early"))
    evs = make_events() if early else None
    H = case["H"]
    tracing = bool(case.get("tracing"))
    extra = {}
    if tracing:
        from happysimulator.instrumentation.recorder import InMemoryTraceRecorder
        extra["trace_recorder"] = InMemoryTraceRecorder()
    try:
        sim = Simulation(entities=workers + [sink] + [nets[k] for k in order] + [res], fault_schedule=fs,
                         end_time=Instant(H * TICK), **extra)
    except (KeyError, ValueError):
        # a fault names an entity / link / network that is not part of the simulation
        return ["E unknown-target"]
    seen = set()

    def handed_out(ev):
        """the fault and role of an event that `generate_events` returned (in the latest start())"""
        for fid, t in enumerate(tagged):
            for idx, e in enumerate(t.events):
                if e is ev:
                    return fid, "a" if idx == 0 else "d"
        return None
    if evs is None:
        evs = make_events()
    for fid, f in enumerate(case["faults"]):
        if 0 in cancel_points(f):
            handles[fid].cancel()
    sim.schedule(evs)

    FAULT_TYPES = {"fault.crash": ("crash", "a"), "fault.restart": ("crash", "d"), "fault.pause": ("pause", "a"),
                   "fault.resume": ("pause", "d"), "fault.partition.activate": ("part", "a"),
                   "fault.partition.deactivate": ("part", "d"), "fault.latency.activate": ("lat", "a"),
                   "fault.latency.deactivate": ("lat", "d"), "fault.loss.activate": ("loss", "a"),
                   "fault.loss.deactivate": ("loss", "d"), "fault.capacity.reduce": ("cap", "a"),
                   "fault.capacity.restore": ("cap", "d")}

    def attribute(ev):
        """a fault event that `generate_events` did not hand out (created later by the fault itself):
        the lowest-numbered fault of that kind and target whose start / end is due now"""
        kd = FAULT_TYPES.get(ev.event_type.split(":")[0])
        if kd is None:
            return None
        kind, ad = kd
        t = ev.time.nanoseconds
        for fid, f in enumerate(case["faults"]):
            if f["k"] != kind or (fid, ad) in seen:
                continue
            if kind in ("crash", "pause") and ev.event_type.split(":", 1)[-1] != ename(f["e"]):
                continue
            due = f["s"] if ad == "a" else f["r"]
            if due is None or due * TICK != t or (ad == "d" and (fid, "a") not in seen):
                continue
            return fid, ad
        return None

    def scaled(x):
        v = x * CAPS
        iv = int(v)
        return str(iv) if iv == v else "frac"

    def settings(now):
        P = "".join("1" if nets[k].is_partitioned(f"w{a}", f"w{b}") else "0" for (k, a, b) in pairs) or "-"
        L = " ".join(str(links[p].latency.get_latency(now).nanoseconds) for p in pairs)
        X = " ".join(scaled(links[p].packet_loss_rate) for p in pairs)
        return f"P {P} L {L} X {X} C {scaled(res.capacity)} {scaled(res.available)}".replace("  ", " ")

    out = []
    count = [0]
    snap = {"part": [0] * K, "routed": [0] * K, "drop": {p: 0 for p in pairs}, "sent": {p: 0 for p in pairs}}

    def on_event(ev):
        count[0] += 1
        if count[0] > 5000:
            raise Watchdog()
        t = ev.time.nanoseconds
        toks = " ".join(cur) if cur else "-"
        del cur[:]
        md_ = ev.context.get("metadata", {}) if ev.context else {}
        fa_ = None
        if ev.event_type.startswith("fault."):
            fa_ = handed_out(ev) or attribute(ev)
        if fa_ is not None:
            fid, ad = fa_
            seen.add((fid, ad))
            out.append(f"F {t} {fid} {ad} | {settings(ev.time)}")
        elif ev.event_type == "cancel" and "hv_cancel" in md_:
            out.append(f"C {t} {md_['hv_cancel']} | {settings(ev.time)}")
        elif ev.event_type == "setcap" and "hv_setcap" in md_:
            out.append(f"V {t} {md_['hv_setcap']} | {settings(ev.time)}")
        elif ev.event_type == "manual" and "hv_manual" in md_:
            (ad, fid), i = mmap[md_["hv_manual"]]
            m = case["manual"][i]
            if ad == "A":
                out.append(f"A {t} {fid} | {settings(ev.time)}")
            elif ad == "d" and m["h"] not in mh:
                out.append(f"U {t} heal-before-partition")
            else:
                out.append(f"F {t} {fid} {ad} | {settings(ev.time)}")
        elif ev.event_type == "job" and qres:
            # report what reaches the worker logic (or is dropped at the resource); the enqueue
            # of an accepted event and the queue/driver plumbing are not activity of the handler
            j = ev.context["metadata"]["job"]
            w = workers[jobs[j]["e"]]
            if ev.target is w:
                acc = w.stats_accepted
                if acc == snap.setdefault("acc", {}).get(id(w), 0):
                    out.append(f"J {t} {j} a | {toks}")
                snap["acc"][id(w)] = acc
            else:
                out.append(f"J {t} {j} {'c' if isinstance(ev, ProcessContinuation) else 'a'} | {toks}")
        elif ev.event_type == "job":
            j = ev.context["metadata"]["job"]
            out.append(f"J {t} {j} {'c' if isinstance(ev, ProcessContinuation) else 'a'} | {toks}")
        elif ev.event_type == "emit":
            md = ev.context["metadata"]
            out.append(f"S {t} {md['job']} {md['k']} | {toks}")
        elif ev.event_type == "probe":
            md = ev.context["metadata"]
            p = md["probe"]
            pr = probes[p]
            pk = pr.get("net", 0)
            net = nets[pk]
            pair = (pk, pr["a"], pr["b"])
            lk = links[pair]
            if ev.target is net and not isinstance(ev, ProcessContinuation):
                if net.events_dropped_partition != snap["part"][pk]:
                    fate = "part"
                elif lk.packets_dropped != snap["drop"][pair]:
                    fate = "loss"
                elif net.events_routed != snap["routed"][pk]:
                    fate = f"fly {lk.latency.get_latency(ev.time).nanoseconds}"
                else:
                    fate = "-"
                out.append(f"N {t} {p} s | {fate} | {settings(ev.time)}")
            elif ev.target is net:
                fate = "fwd" if lk.packets_sent != snap["sent"][pair] else "-"
                out.append(f"N {t} {p} h | {fate}")
            else:
                out.append(f"R {t} {p} | {toks}")
            snap["part"][pk], snap["routed"][pk] = net.events_dropped_partition, net.events_routed
            snap["drop"][pair], snap["sent"][pair] = lk.packets_dropped, lk.packets_sent
        elif not qres:
            out.append(f"U {t} {ev.event_type}")

    sim.control.on_event(on_event)
    if tracing:
        # application-level event tracing (what the visual debugger switches on) must not change what runs
        from happysimulator.core.event import disable_event_tracing, enable_event_tracing
        enable_event_tracing()
        try:
            return finish_run(sim, case, out, cur, seen, mh, count, settings, H, Instant)
        finally:
            disable_event_tracing()
    return finish_run(sim, case, out, cur, seen, mh, count, settings, H, Instant)


def finish_run(sim, case, out, cur, seen, mh, count, settings, H, Instant):
    rr = case.get("rerun")
    if not rr:
        sim.run()
        out.append(f"Z | {settings(Instant(H * TICK))} | pending 0")
        return out
    # run (to the end, or stopped by a breakpoint - possibly inside fault windows), reset, run again:
    # the transcript is that of the second run; the last line says whether it repeats the first
    from happysimulator.core.control.breakpoints import TimeBreakpoint

    if rr.get("stop") is not None:
        sim.control.add_breakpoint(TimeBreakpoint(Instant(rr["stop"] * TICK)))
    sim.run()
    first = list(out)
    sim.control.clear_breakpoints()
    sim.control.reset()
    del out[:], cur[:]                    # harness bookkeeping only; the entities keep whatever state they have
    seen.clear()
    mh.clear()
    count[0] = 0
    sim.run()
    second = list(out)
    out.append(f"Z | {settings(Instant(H * TICK))} | pending 0")
    cmp_to = second if rr.get("stop") is None else second[:len(first)]
    if first == cmp_to:
        out.append("Y same")
    else:
        k = next((i for i, (x, y) in enumerate(zip(first, cmp_to)) if x != y), min(len(first), len(cmp_to)))
        out.append(f"Y differs-at {k}")
    return out


# --------------------------------------------------------------------------- case -> protocol


def case_lines(case):
    """the case in the driver's input language (times in ns; a worker as an endpoint on network k is
    the node worker + k * STRIDE)"""
    n = case["n"]
    K = case.get("nets", 1)
    L = [f"n {n}", f"nets {K}", f"cap {case['cap']}"]
    if case.get("rerun"):
        L.append("rerun 1")
    for k, (lat, loss) in enumerate(net_matrices(case)):
        for a in range(n):
            for b in range(n):
                if a != b:
                    L.append(f"link {a + k * STRIDE} {b + k * STRIDE} {lat[a][b] * TICK} {loss[a][b]}")

    def v(k, xs):
        return " ".join(str(x + k * STRIDE) for x in xs)

    for f in case["faults"]:
        k = f["k"]
        s = f["s"] * TICK
        r = "none" if f["r"] is None else str(f["r"] * TICK)
        cp = cancel_points(f)
        cs = "p" if "pre" in cp else ("x" if 0 in cp else "o")
        tn = target_net(case, f) if k in ("part", "lat", "loss") else 0
        if k in ("crash", "pause"):
            L.append(f"fault {cs} {s} {r} 0 {k} {f['e']}")
        elif k == "part":
            L.append(f"fault {cs} {s} {r} {tn} part {int(bool(f['asym']))} {v(tn, f['A'])} / {v(tn, f['B'])}")
        elif k == "lat":
            L.append(f"fault {cs} {s} {r} {tn} lat {v(tn, [f['a'], f['b']])} {f['x'] * TICK}")
        elif k == "loss":
            L.append(f"fault {cs} {s} {r} {tn} loss {v(tn, [f['a'], f['b']])} {f['x']}")
        elif k == "cap":
            L.append(f"fault {cs} {s} {r} 0 cap {f['num']} {f['den']}")
    for m in case.get("manual", []):
        if m["op"] == "part":
            tn = m.get("net", 0)
            L.append(f"fault m {m['t'] * TICK} none {tn} part {int(bool(m['asym']))} {v(tn, m['A'])} / {v(tn, m['B'])}")
    for job in case["jobs"]:
        ops = []
        for op in job["ops"]:
            if op[0] in ("sleep", "emit"):
                ops.append(f"{op[0]} {op[1] * TICK}")
            elif op[0] == "rel":
                ops.append("rel 0")
            else:
                ops.append(f"{op[0]} {op[1]}")
        L.append(f"job {job['e']} " + " ".join(ops))
    for pr in case["probes"]:
        L.append(f"probe {pr['a']} {pr['b']} {pr.get('net', 0)}")
    return L


def split_line(line):
    """'F 1 2 a | x | y' -> ('F 1 2 a', ['x', 'y'])"""
    parts = [p.strip() for p in line.split("|")]
    return parts[0], parts[1:]


class C06(core.Property):
    id = "C06"
    driver = "drv-c06"
    lake_targets = ["HappyProofs.C06.Props", "drv-c06"]
    audit_imports = ["HappyProofs.C06.Props"]
    lean_files = ["HappyModel/C06/*.lean", "HappyProofs/C06/*.lean", "HappyModel/Proto.lean", "Driver/C06.lean"]
    theorems = []
    quick_cases = 3200
    thorough_cases = 60000
    case_timeout_s = 20
    pool_workers = 1        # a case takes about a millisecond: the fork pool cost far more than it saved
    rule = ("fault plans of 1-5 faults (crash, pause, partition sym/asym with 15% overlapping or duplicate-naming group lists, +latency, +loss, capacity factor) on 1-3 workers, "
            "the Network entity and one Resource; windows shaped relative to earlier ones (identical, nested, containing, "
            "staggered, disjoint, same start, same end, abutting, zero length, permanent crash), 15% cancelled handles (before "
            "the run or at a time before the start); 0-4 generator jobs of 1-6 ops (sleep, emit, wait/resolve future, "
            "acquire/release) and 0-9 probes through the Network, placed on / 1 tick before / 1 tick after window endpoints; "
            "families gate / net / cap / mixed / cancel (handles cancelled before the Simulation is built, after it is built, "
            "before / at / after the start, inside the window, at / after the end, twice) / manual (direct Network.partition(), "
            "Partition.heal() - also repeated - and Network.heal_partition() calls interleaved with scheduled partition windows "
            "on overlapping node sets) / stack (2-4 windows of one effect - down, partition, latency, loss, capacity - on one "
            "target with endpoints from a three-point grid: equal starts, equal ends, zero length; or all five effects at once) "
            "/ inflight (a generator handler of the target sleeping, parked on a future, queued at the resource or just granted "
            "when the fault hits; what it waits for arrives before / at the edges of / inside / after the window) / multinet "
            "(2-3 Network entities over the same workers, registered in a shuffled order; partition, latency and loss faults "
            "with network_name naming each of them or None; direct partition()/heal()/heal_partition() calls on each; probes "
            "through every network; settings of every network's links judged) / rerun (a plan of any other family with a "
            "stateless workload - handlers that only sleep and emit -: first run to the end or stopped by a breakpoint before / "
            "inside / after the windows, sim.control.reset(), second run; the second run's transcript is judged and must repeat "
            "the first) in rotation; in 30% of all cases application-level event tracing is switched on and a trace recorder "
            "attached (same Spec); jobs without ops run as plain (non-generator) handlers; plans with capacity windows get "
            "1-3 Resource.set_capacity calls by the model before the first window / inside / between / after windows, plus ghost (a fault naming an "
            "entity, link or network that is not part of the simulation: construction must be rejected); in 35% of all cases "
            "the workload's events are created before the Simulation is built (early), so that deliveries due exactly at a "
            "window's start / end instant are older than the fault events; non-trivial = some job, probe, delivery, cancel or manual call was processed while a window was open; "
            "distinct = distinct case content")
    trusted_base = [
        "hv/props/c06.py harness entities (Worker generator, Sink), observation through the public sim.control.on_event hook, "
        "is_partitioned / link.latency / link.packet_loss_rate / resource.capacity / resource.available, Network and link counters",
        "fault events are identified by wrapping each fault in an object implementing the public Fault protocol",
        "the schedule of processed events is taken from the implementation run (the engine's own ordering is C01/C02's subject)",
        "one NetworkLink object per ordered pair of workers (faults act on link objects)",
    ]
    assumptions = [
        "window activity is read off the processed fault events (activated and not yet deactivated); the judge separately "
        "checks that every fault event of a non-cancelled fault is processed exactly once at its configured time and none of a cancelled one",
        "a process dropped by the crash gate is lost (crash and pause share one code path); a process whose wake-up falls after "
        "the restart survives the window",
        "resource.available is judged as <= capacity - (grants whose holder has resumed): grants made to a process that has not "
        "resumed yet are not visible in the activity log",
        "probe fate is judged only when the effective loss rate is 0 or 1 (no RNG in the comparison)",
        "a handle cancelled while its window is active keeps the window open for the rest of the run (the documented behaviour of "
        "FaultHandle.cancel: the pending events are skipped); the property's wording covers cancellation before activation only",
        "Network.heal_partition() ends every partition window open at that moment (scheduled or manual); the scheduled end of a "
        "swept window and a repeated Partition.heal() must change nothing",
        "a fault naming an unknown entity / link / network makes Simulation construction fail, also when its handle was cancelled before",
        "windows are [start, end) on the time axis: at an instant the starts and ends of scheduled windows take effect before every "
        "other event, whichever event object was created first (judged on every transcript: boundaryCheck)",
        "network_name=None resolves to the first Network registered with the Simulation (the harness computes that index; the "
        "Lean case carries the resolved network of every fault); a worker as an endpoint on network k is node worker + 1000*k",
        "a Resource.set_capacity call by the model sets the configured capacity; the factors of the open ReduceCapacity windows keep "
        "applying to it and it is what remains when the last window has ended (judged against the live configured capacity)",
        "event tracing (enable_event_tracing, a TraceRecorder) is an observer: transcripts are judged by the same Spec with it on",
        "rerun family: the model starts the second run from its initial state (reset re-arms the fault schedule, closes the windows "
        "a stopped run left open, clears fault-set crash flags, undoes cancel() calls made by the model during the run and keeps those "
        "made before it); the first/second comparison is made by the harness on the transcript lines (`Y same`)",
        "a fault event that generate_events did not hand out (created later by the fault itself) is attributed to the "
        "lowest-numbered fault of that kind and target whose start / end is due at that time",
    ]
    hypotheses = [
        "WF fs tr: each activation is processed at most once and before the deactivation of its window; a deactivation of a window "
        "that is not active is that of a partition opened before (repeated heal / end of a swept window) (engine exactly-once, time order, start <= end)",
        "Legit c tr: the schedule contains only events of faults of the plan, none after the handle of its fault was cancelled - "
        "before the run (Case.initCanc) or by an earlier event of the schedule (cancelled events are never delivered: C01)",
        "Clear fs f tr (active_of_inside / inside_of_active / active_iff_in_window only): no Network.heal_partition() call in the schedule if f is a partition window",
        "netWF c.faults (part of Legit): every partition names nodes of the one network it resolves to (the harness builds the node ids from the network)",
        "hb1 / hb2 / hend of active_iff_in_window, up_from_restart_time: when an event that is not a fault boundary is processed at time t, "
        "the starts due by t and the ends due by t of the scheduled windows come before it in the schedule (FaultSchedule.start gives fault "
        "events the smallest tie-breaking indices + C01 order; checked on every transcript by the judge clause boundaryCheck); Sorted tr (C01)",
    ]
    partial_theorems = {}

    def __init__(self):
        self._memo = {}
        self._pid = os.getpid()
        shutil.rmtree(SCHED_DIR / str(self._pid), ignore_errors=True)
        atexit.register(self._cleanup)

    # ------------------------------------------------------------------ generation
    GRID = [8 * i for i in range(1, 33)]

    def gen_window(self, rng, prev):
        """a window [s, r] in ticks, shaped relative to an earlier window of the plan"""
        g = self.GRID
        if prev and rng.random() < 0.8:
            ps, pr = rng.choice(prev)
            pr = ps + 64 if pr is None else pr
            shape = rng.choice(["identical", "nested", "staggered", "disjoint", "same-start", "same-end", "abut", "contain"])
            d = rng.choice([1, 8, 16, 24])
            if shape == "identical":
                s, r = ps, pr
            elif shape == "nested":
                s, r = ps + d, max(ps + d, pr - d)
            elif shape == "contain":
                s, r = max(0, ps - d), pr + d
            elif shape == "staggered":
                s, r = ps + d, pr + d
            elif shape == "disjoint":
                s, r = pr + d, pr + d + rng.choice([8, 32])
            elif shape == "same-start":
                s, r = ps, pr + rng.choice([-8, 8, 16])
            elif shape == "same-end":
                s, r = max(0, ps + rng.choice([-8, 8])), pr
            else:
                s, r = pr, pr + rng.choice([8, 24])
            if r < s:
                r = s
            return shape, s, r
        s = rng.choice(g[:20])
        r = s + rng.choice([0, 1, 8, 16, 40, 80])
        return "fresh", s, r

    FAMS = ["gate", "net", "cap", "mixed", "cancel", "manual", "stack", "inflight", "multinet", "rerun"]

    def generate(self, rng: random.Random, i: int, tier: str) -> dict:
        fam = self.FAMS[i % len(self.FAMS)]
        if i % 48 == 47:
            fam = "ghost"
        if fam == "cancel":
            return self.gen_cancel(rng)
        if fam == "manual":
            return self.gen_manual(rng)
        if fam == "stack":
            return self.gen_stack(rng)
        if fam == "ghost":
            return self.gen_ghost(rng)
        if fam == "inflight":
            return self.gen_inflight(rng)
        if fam == "multinet":
            return self.gen_multinet(rng)
        if fam == "rerun":
            return self.gen_rerun(rng)
        return self.gen_base(rng, fam)

    # workload sizes per family: (jobs, probes)
    LOAD = {"gate": ([1, 2, 3, 4], [0, 1, 2]), "net": ([0, 1], [3, 5, 8]), "cap": ([2, 3, 4], [0]),
            "mixed": ([1, 2, 3], [1, 3, 5]), "cancel": ([1, 2, 3], [1, 3, 5]), "manual": ([0, 1], [4, 6, 9]),
            "stack": ([1, 2, 3], [2, 4, 6]), "ghost": ([0, 1], [0, 1]), "inflight": ([0, 1], [0, 1, 2]),
            "multinet": ([0, 1], [4, 6, 9]),
            "rerun": ([1, 2], [2, 4])}

    def topology(self, rng, n):
        cap = rng.choice([4, 8, 16])
        lat = [[rng.choice([0, 1, 4, 8]) if a != b else 0 for b in range(n)] for a in range(n)]
        loss = [[(1024 if rng.random() < 0.08 else 0) if a != b else 0 for b in range(n)] for a in range(n)]
        return cap, lat, loss

    def gen_fault(self, rng, k, n, focus, fa, fb, frac_links):
        """target and parameters of one fault of kind `k` (no window)"""
        f = {"k": k}
        if k in ("crash", "pause"):
            e = focus if rng.random() < 0.7 else rng.randrange(n)
            if rng.random() < 0.07:
                e = n                                # the Network entity itself
            f["e"] = e
        elif k == "part":
            ws = list(range(n))
            rng.shuffle(ws)
            cut = rng.randint(1, n - 1)
            A, B = sorted(ws[:cut]), sorted(ws[cut:])
            if rng.random() < 0.5 and n == 3:
                B = B[:1] if len(B) > 1 else B
            if rng.random() < 0.5:
                A, B = B, A
            if rng.random() < 0.15:
                # group lists that are not disjoint, or that name a node twice: the same pair is then produced
                # more than once by the nested loop of Network.partition(), and a handle holds ONE reference on it
                mode = rng.randrange(3)
                if mode == 0:
                    A = B = sorted(ws)               # "cut all these nodes off from each other"
                elif mode == 1:
                    B = sorted(set(B) | {A[0]})
                else:
                    A = A + [A[0]]
            f.update(A=A, B=B, asym=int(rng.random() < 0.35))
        elif k in ("lat", "loss"):
            if rng.random() < 0.7:
                a, b = fa, fb
            else:
                a, b = rng.sample(range(n), 2)
            if rng.random() < 0.2:
                a, b = b, a
            if k == "lat":
                f.update(a=a, b=b, x=rng.choice([1, 8, 16, 3]))
            else:
                x = rng.choice([1024, 1024, 1024, 0, 512, 256])
                if x not in (0, 1024):
                    frac_links.add((a, b))
                f.update(a=a, b=b, x=x)
        else:
            num, den = rng.choice([(1, 2), (1, 2), (1, 4), (3, 4)])
            f.update(num=num, den=den)
        return f

    def workload(self, rng, fam, n, cap, pts, focus, fa, fb, frac_links):
        pts = sorted(pts) or [8]

        def tpick():
            return rng.choice(pts) if rng.random() < 0.85 else rng.choice(self.GRID)

        jobs, nfut, waited = [], rng.choice([0, 1, 2]), set()
        njobs = rng.choice(self.LOAD[fam][0])
        for _ in range(njobs):
            e = focus if rng.random() < 0.6 else rng.randrange(n)
            t = max(0, tpick() - rng.choice([0, 0, 8, 16, 24]))
            ops = []
            for _ in range(rng.choice([0, 1, 2, 3, 4, 6])):
                r = rng.random()
                if fam == "cap" and r < 0.55 or r < 0.2:
                    if rng.random() < 0.6:
                        ops.append(["acq", rng.choice([1, cap // 4, cap // 2, 3 * cap // 4, cap])])
                    else:
                        ops.append(["rel"])
                elif r < 0.5:
                    ops.append(["sleep", rng.choice([0, 1, 8, 8, 16, 24, 40])])
                elif r < 0.7:
                    ops.append(["emit", rng.choice([0, 1, 8, 16])])
                elif r < 0.85 and nfut:
                    fu = rng.randrange(nfut)
                    if fu in waited:
                        ops.append(["res", fu])
                    else:
                        waited.add(fu)
                        ops.append(["wait", fu])
                elif nfut:
                    ops.append(["res", rng.randrange(nfut)])
                else:
                    ops.append(["sleep", 8])
            jobs.append({"e": e, "t": t, "ops": ops})
        probes = []
        if n >= 2:
            npr = rng.choice(self.LOAD[fam][1])
            for _ in range(npr):
                if rng.random() < 0.6:
                    a, b = fa, fb
                    if rng.random() < 0.3:
                        a, b = b, a
                else:
                    a, b = rng.sample(range(n), 2)
                if (a, b) in frac_links:
                    continue
                probes.append({"a": a, "b": b, "t": tpick()})
        return jobs, nfut, probes

    @staticmethod
    def around(times):
        return {max(0, t + d) for t in times if t is not None for d in (-9, -1, 0, 1, 7)}

    def finish(self, fam, n, cap, nfut, lat, loss, faults, jobs, probes, rng, shapes, manual=None):
        case = {"family": fam, "n": n, "cap": cap, "nfut": nfut, "lat": lat, "loss": loss, "faults": faults,
                "jobs": jobs, "probes": probes, "seed": rng.randrange(1 << 30), "shapes": shapes}
        if manual:
            case["manual"] = manual
        if rng.random() < 0.35:
            case["early"] = True          # the workload's events are created before the Simulation is built
        if rng.random() < 0.3:
            case["tracing"] = True        # application-level event tracing on, a trace recorder attached
        capw = [(f["s"], f["r"]) for f in faults if f["k"] == "cap"]
        if capw and rng.random() < 0.6:
            # the model resizes the resource itself: before the first window, inside, between, after
            pts = sorted({max(1, t + d) for (s_, r_) in capw for t in (s_, r_, (s_ + r_) // 2) for d in (-8, -1, 0, 1, 8)})
            lo = min(s_ for s_, _ in capw)
            case["setcaps"] = [{"t": rng.choice([max(1, lo - 8), max(1, lo - 1)] + pts),
                                "v": rng.choice([cap // 2, cap, 2 * cap, 3 * cap, 12])}
                               for _ in range(rng.choice([1, 1, 2, 3]))]
        case["H"] = self.horizon(case)
        return case

    def gen_base(self, rng, fam):
        n = rng.choice([1, 2, 3]) if fam in ("gate", "cap") else rng.choice([2, 3, 3])
        cap, lat, loss = self.topology(rng, n)
        kinds = {"gate": ["crash", "pause", "crash", "pause", "part"],
                 "net": ["part", "part", "lat", "lat", "loss", "loss", "crash"],
                 "cap": ["cap", "cap", "cap", "pause"],
                 "mixed": ["crash", "pause", "part", "lat", "loss", "cap"]}[fam]
        nf = rng.choice([1, 2, 2, 3, 3, 4, 5])
        faults, wins, shapes = [], [], []
        focus = rng.randrange(n)                       # most node faults hit the same entity
        fa, fb = (rng.sample(range(n), 2) if n >= 2 else (0, 0))
        frac_links = set()
        for _ in range(nf):
            k = rng.choice(kinds)
            if n < 2 and k in ("part", "lat", "loss"):
                k = "crash"
            shape, s, r = self.gen_window(rng, wins)
            shapes.append(shape)
            f = self.gen_fault(rng, k, n, focus, fa, fb, frac_links)
            f.update(s=s, r=r)
            if k == "crash" and rng.random() < 0.12:
                f["r"] = None
            if rng.random() < 0.15:
                f["cancel"] = 0 if (s == 0 or rng.random() < 0.5) else rng.choice([1, max(1, s - 1), max(1, s // 2)])
                if f["cancel"] >= s:
                    f["cancel"] = 0
            faults.append(f)
            wins.append((f["s"], f["r"]))
        # times of interest: window endpoints and their neighbours
        pts = self.around(t for w in wins for t in w)
        jobs, nfut, probes = self.workload(rng, fam, n, cap, pts, focus, fa, fb, frac_links)
        return self.finish(fam, n, cap, nfut, lat, loss, faults, jobs, probes, rng, shapes)

    def gen_cancel(self, rng):
        """handles cancelled at every point of a fault's life: before the Simulation exists, after it
        is built, before / at / after the start, inside the window, at / after the end, twice"""
        n = rng.choice([1, 2, 3, 3])
        cap, lat, loss = self.topology(rng, n)
        focus = rng.randrange(n)
        fa, fb = (rng.sample(range(n), 2) if n >= 2 else (0, 0))
        frac_links, faults, wins, shapes = set(), [], [], []
        kinds = ["crash", "pause", "part", "lat", "loss", "cap"]
        same = rng.choice(kinds) if rng.random() < 0.6 else None     # windows stacked on one target
        for i in range(rng.choice([1, 2, 2, 3, 3, 4])):
            k = same or rng.choice(kinds)
            if same in ("crash", "pause"):
                k = rng.choice(["crash", "pause"])
            if n < 2 and k in ("part", "lat", "loss"):
                k = "pause"
            shape, s, r = self.gen_window(rng, wins)
            if rng.random() < 0.5:
                s = max(s, 8)
            shapes.append(shape)
            f = self.gen_fault(rng, k, n, focus, fa, fb, frac_links)
            if k in ("crash", "pause") and same:
                f["e"] = focus
            f.update(s=s, r=r)
            if k == "crash" and rng.random() < 0.1:
                f["r"] = None
            if i == 0 or rng.random() < 0.55:
                e = f["r"] if f["r"] is not None else s + 16
                pts = ["pre", "pre", 0, 0, max(1, s - 8), max(1, s - 1), s, s + 1, (s + e) // 2, max(1, e - 1), e, e + 1, e + 8]
                c = rng.choice(pts)
                c = 0 if c != "pre" and c <= 0 else c
                if rng.random() < 0.15:
                    c2 = rng.choice(pts)
                    c = [c, 0 if c2 != "pre" and c2 <= 0 else c2]
                f["cancel"] = c
            faults.append(f)
            wins.append((f["s"], f["r"]))
        cts = [c for f in faults for c in cancel_points(f) if c != "pre"]
        pts = self.around([t for w in wins for t in w] + cts)
        jobs, nfut, probes = self.workload(rng, "cancel", n, cap, pts, focus, fa, fb, frac_links)
        return self.finish("cancel", n, cap, nfut, lat, loss, faults, jobs, probes, rng, shapes)

    def gen_manual(self, rng):
        """direct Network.partition() / Partition.heal() / Network.heal_partition() calls interleaved
        with scheduled partition windows on overlapping node sets"""
        n = rng.choice([2, 3, 3])
        cap, lat, loss = self.topology(rng, n)
        focus = rng.randrange(n)
        fa, fb = rng.sample(range(n), 2)
        frac_links, faults, wins, shapes = set(), [], [], []

        def groups():
            if rng.random() < 0.6:
                A, B = [fa], [fb]
                if n == 3 and rng.random() < 0.3:
                    B = sorted(set(range(n)) - {fa})
            else:
                g = self.gen_fault(rng, "part", n, focus, fa, fb, frac_links)
                return g["A"], g["B"], g["asym"]
            if rng.random() < 0.5:
                A, B = B, A
            return A, B, int(rng.random() < 0.3)

        for _ in range(rng.choice([0, 1, 1, 2, 2, 3])):
            k = "part" if rng.random() < 0.8 else rng.choice(["lat", "loss", "crash"])
            shape, s, r = self.gen_window(rng, wins)
            shapes.append(shape)
            if k == "part":
                A, B, asym = groups()
                f = {"k": "part", "A": A, "B": B, "asym": asym}
            else:
                f = self.gen_fault(rng, k, n, focus, fa, fb, frac_links)
            f.update(s=s, r=r)
            if rng.random() < 0.1:
                f["cancel"] = rng.choice(["pre", 0, s + 1, max(1, s - 1)])
            faults.append(f)
            wins.append((s, r))
        manual, mtimes = [], []
        for _ in range(rng.choice([0, 1, 1, 2, 2, 3])):
            shape, s, r = self.gen_window(rng, wins + mtimes)
            A, B, asym = groups()
            idx = len(manual)
            manual.append({"op": "part", "t": s, "A": A, "B": B, "asym": asym})
            ends = rng.choice([[], [r], [r], [r], [r, r], [r, r + rng.choice([1, 8, 24])]])
            for e in ends:
                manual.append({"op": "heal", "h": idx, "t": e})
            mtimes.append((s, r))
        alls = []
        every = [t for w in wins + mtimes for t in w if t is not None] or [16]
        for _ in range(rng.choice([0, 1, 1, 1, 2])):
            t = max(1, rng.choice(every) + rng.choice([-8, -1, 0, 0, 1, 8]))
            alls.append(t)
            manual.append({"op": "healall", "t": t})
        # heal calls after their partition call at equal times, heal-all in between at random
        order = {"part": 0, "heal": 2, "healall": rng.choice([1, 3])}
        idxmap, parts = {}, [m for m in manual if m["op"] == "part"]
        manual_sorted = sorted(manual, key=lambda m: (m["t"], order[m["op"]]))
        for j, m in enumerate(manual_sorted):
            if m["op"] == "part":
                idxmap[id(m)] = j
        out = []
        for m in manual_sorted:
            m2 = dict(m)
            if m["op"] == "heal":
                m2["h"] = idxmap[id(manual[m["h"]])]
            out.append(m2)
        pts = self.around([t for w in wins + mtimes for t in w] + alls)
        jobs, nfut, probes = self.workload(rng, "manual", n, cap, pts, focus, fa, fb, frac_links)
        return self.finish("manual", n, cap, nfut, lat, loss, faults, jobs, probes, rng, shapes, out)

    def gen_stack(self, rng):
        """several windows of one kind on one target with endpoints from a three-point grid (equal
        starts, equal ends, zero length, an end meeting a start), for one or two of the five
        effects at a time: down, partition, latency, loss, capacity"""
        n = rng.choice([2, 3])
        cap, lat, loss = self.topology(rng, n)
        focus = rng.randrange(n)
        fa, fb = rng.sample(range(n), 2)
        frac_links, faults, wins, shapes = set(), [], [], []
        s0 = rng.choice([8, 16, 40])
        d = rng.choice([1, 8, 8, 16])
        grid = [s0, s0 + d, s0 + 2 * d]
        effects = rng.sample(["down", "part", "lat", "loss", "cap"], rng.choice([1, 1, 2, 2, 5]))
        for eff in effects:
            for _ in range(rng.choice([2, 3, 3, 4]) if len(effects) < 5 else rng.choice([1, 2])):
                s = rng.choice(grid)
                r = rng.choice([t for t in grid if t >= s])
                if eff == "down":
                    f = {"k": rng.choice(["crash", "pause"]), "e": focus}
                elif eff == "part":
                    A, B = ([fa], [fb]) if rng.random() < 0.5 else ([fb], [fa])
                    f = {"k": "part", "A": A, "B": B, "asym": int(rng.random() < 0.3)}
                elif eff == "lat":
                    f = {"k": "lat", "a": fa, "b": fb, "x": rng.choice([1, 8, 16, 3])}
                elif eff == "loss":
                    f = {"k": "loss", "a": fa, "b": fb, "x": rng.choice([1024, 1024, 0])}
                else:
                    num, den = rng.choice([(1, 2), (1, 2), (1, 4), (3, 4)])
                    f = {"k": "cap", "num": num, "den": den}
                f.update(s=s, r=r)
                if rng.random() < 0.08:
                    f["cancel"] = rng.choice(["pre", 0, s, r])
                    if f["cancel"] != "pre" and f["cancel"] <= 0:
                        f["cancel"] = 0
                faults.append(f)
                wins.append((s, r))
                shapes.append("grid")
        rng.shuffle(faults)
        pts = self.around(grid)
        fam = "cap" if effects == ["cap"] else "stack"
        jobs, nfut, probes = self.workload(rng, fam, n, cap, pts, focus, fa, fb, frac_links)
        return self.finish("stack", n, cap, nfut, lat, loss, faults, jobs, probes, rng, shapes)

    def gen_inflight(self, rng):
        """a generator handler of the target is in flight when the crash / pause hits - sleeping, parked
        on a future, queued at the resource or just granted - and whatever it waits for arrives from
        another entity before, at the edges of, inside and after the window"""
        n = rng.choice([2, 3])
        cap, lat, loss = self.topology(rng, n)
        focus = rng.randrange(n)
        other = rng.choice([e for e in range(n) if e != focus])
        fa, fb = rng.sample(range(n), 2)
        s = rng.choice([24, 32, 40, 64])
        ln = rng.choice([1, 8, 16, 24])
        r = s + ln
        faults, shapes = [], []
        for i in range(rng.choice([1, 1, 2, 3])):
            k = rng.choice(["crash", "pause"])
            if i == 0:
                fs_, fr = s, r
            else:
                fs_ = rng.choice([s, s + 1, s + ln // 2, r, max(0, s - 8)])
                fr = fs_ + rng.choice([0, 1, 8, ln])
            f = {"k": k, "e": focus if rng.random() < 0.85 else other, "s": fs_, "r": fr}
            if k == "crash" and i > 0 and rng.random() < 0.15:
                f["r"] = None
            if rng.random() < 0.1:
                f["cancel"] = rng.choice(["pre", 0, fs_, fs_ + 1])
                if f["cancel"] != "pre" and f["cancel"] <= 0:
                    f["cancel"] = 0
            faults.append(f)
            shapes.append("inflight")
        if rng.random() < 0.3:
            faults.append({"k": "cap", "num": 1, "den": 2, "s": max(0, s - rng.choice([0, 4, 8])), "r": r + rng.choice([0, 8])})
            shapes.append("inflight")
        # when the thing the target's process waits for arrives, relative to the window [s, r]
        arrive = rng.choice([s - 1, s, s + 1, s + ln // 2, r - 1, r, r + 1, r + 8])
        lead = rng.choice([8, 16])
        t_other, t_focus = max(0, s - lead - 8), max(0, s - lead)
        tail = []
        for _ in range(rng.choice([0, 1, 2, 3])):
            tail.append(rng.choice([["emit", 0], ["emit", 1], ["sleep", 0], ["sleep", 8], ["rel"], ["res", 1], ["acq", 1]]))
        mode = rng.choice(["grant", "grant", "future", "future", "sleep", "granted-at-once"])
        nfut = 2
        if mode == "grant":
            # the other entity holds the whole resource and releases it at `arrive`
            jobs = [{"e": other, "t": t_other, "ops": [["acq", cap], ["sleep", max(0, arrive - t_other)], ["rel"]]},
                    {"e": focus, "t": t_focus, "ops": [["acq", rng.choice([1, cap // 2, cap])]] + tail}]
        elif mode == "future":
            jobs = [{"e": focus, "t": t_focus, "ops": [["wait", 0]] + tail},
                    {"e": other, "t": t_other, "ops": [["sleep", max(0, arrive - t_other)], ["res", 0]]}]
            if rng.random() < 0.3:
                jobs.append({"e": other, "t": max(0, arrive - 1), "ops": [["sleep", rng.choice([0, 1, 2])], ["res", 0]]})
        elif mode == "sleep":
            jobs = [{"e": focus, "t": t_focus, "ops": [["sleep", max(0, arrive - t_focus)]] + tail}]
        else:
            # granted without waiting: the continuation for "now" is on the heap when the fault event fires
            jobs = [{"e": focus, "t": rng.choice([s, s, r, arrive]), "ops": [["acq", 1]] + tail}]
        if rng.random() < 0.4:
            jobs.append({"e": rng.randrange(n), "t": rng.choice([s - 1, s, s + 1, r, r + 1]),
                         "ops": [rng.choice([["emit", 0], ["sleep", 1], ["acq", 1], ["res", 1]])]})
        probes = []
        for _ in range(rng.choice([0, 0, 1, 2])):
            a, b = rng.sample(range(n), 2)
            probes.append({"a": a, "b": b, "t": rng.choice([s - 1, s, s + 1, r - 1, r, r + 1, arrive])})
        return self.finish("inflight", n, cap, nfut, lat, loss, faults, jobs, probes, rng, shapes)

    def gen_multinet(self, rng):
        """two or three Network entities over the same workers; partition / latency / loss faults name
        each of them (network_name given, or None = the first one registered), direct partition calls
        and heal_partition() on each; probes through every network"""
        K = rng.choice([2, 2, 3])
        n = rng.choice([2, 3])
        cap, lat, loss = self.topology(rng, n)
        xlat, xloss = [], []
        for _ in range(K - 1):
            _, l2, x2 = self.topology(rng, n)
            xlat.append(l2)
            xloss.append(x2)
        order = list(range(K))
        if rng.random() < 0.5:
            rng.shuffle(order)
        focus = rng.randrange(n)
        fa, fb = rng.sample(range(n), 2)
        frac_links, faults, wins, shapes = set(), [], [], []

        def pick_net():
            return rng.choice([None] + list(range(K)) + list(range(1, K)))

        for _ in range(rng.choice([1, 2, 2, 3, 3, 4, 5])):
            k = rng.choice(["part", "part", "part", "lat", "lat", "loss", "loss", "crash", "pause"])
            shape, s_, r_ = self.gen_window(rng, wins)
            shapes.append(shape)
            f = self.gen_fault(rng, k, n, focus, fa, fb, frac_links)
            f.update(s=s_, r=r_)
            if k in ("part", "lat", "loss"):
                f["net"] = pick_net()
                if rng.random() < 0.03:
                    f["net"] = K + 5                 # a network that does not exist
            elif rng.random() < 0.5:
                f["e"] = n + rng.randrange(K)        # one of the Network entities
            if rng.random() < 0.1:
                f["cancel"] = rng.choice(["pre", 0, max(1, s_ - 1), s_ + 1])
            faults.append(f)
            wins.append((s_, r_))
        manual, mtimes, alls = [], [], []
        for _ in range(rng.choice([0, 0, 1, 1, 2])):
            shape, s_, r_ = self.gen_window(rng, wins + mtimes)
            g = self.gen_fault(rng, "part", n, focus, fa, fb, frac_links)
            if rng.random() < 0.6:
                g["A"], g["B"] = [fa], [fb]
            idx = len(manual)
            manual.append({"op": "part", "t": s_, "A": g["A"], "B": g["B"], "asym": g["asym"], "net": rng.randrange(K)})
            for e in rng.choice([[], [r_], [r_], [r_, r_ + 8]]):
                manual.append({"op": "heal", "h": idx, "t": e})
            mtimes.append((s_, r_))
        every = [t for w in wins + mtimes for t in w if t is not None] or [16]
        for _ in range(rng.choice([0, 0, 1, 1, 2])):
            t = max(1, rng.choice(every) + rng.choice([-8, -1, 0, 0, 1, 8]))
            alls.append(t)
            manual.append({"op": "healall", "t": t, "net": rng.randrange(K)})
        orderk = {"part": 0, "heal": 2, "healall": rng.choice([1, 3])}
        msorted = sorted(manual, key=lambda m: (m["t"], orderk[m["op"]]))
        pos = {id(m): j for j, m in enumerate(msorted)}
        out = []
        for m in msorted:
            m2 = dict(m)
            if m["op"] == "heal":
                m2["h"] = pos[id(manual[m["h"]])]
            out.append(m2)
        pts = self.around([t for w in wins + mtimes for t in w] + alls)
        jobs, nfut, probes = self.workload(rng, "multinet", n, cap, pts, focus, fa, fb, frac_links)
        for pr in probes:
            pr["net"] = rng.randrange(K)
        case = self.finish("multinet", n, cap, nfut, lat, loss, faults, jobs, probes, rng, shapes, out)
        case.update(nets=K, xlat=xlat, xloss=xloss, netorder=order)
        return case

    def gen_rerun(self, rng):
        """run, `sim.control.reset()`, run again under a fault plan of any other family: the first run
        goes to the end or is stopped by a breakpoint (before, inside, after the windows).  The
        workload is stateless (handlers that only sleep and emit; no futures, grants or direct
        partition calls), so the second run has to repeat the first - fault windows included"""
        base = rng.choice(["gate", "net", "mixed", "cap", "cancel", "stack", "multinet", "inflight"])
        case = {"cancel": self.gen_cancel, "stack": self.gen_stack, "multinet": self.gen_multinet,
                "inflight": self.gen_inflight}.get(base, lambda r: self.gen_base(r, base))(rng)
        case["family"] = "rerun"
        case.pop("manual", None)
        case.pop("setcaps", None)             # a resize by the model is entity state that reset() keeps
        case["nfut"] = 0
        for job in case["jobs"]:
            job["ops"] = [op if op[0] in ("sleep", "emit") else rng.choice([["sleep", 1], ["sleep", 8], ["emit", 0], ["emit", 8]])
                          for op in job["ops"]]
        times = [t for f in case["faults"] for t in (f["s"], f["r"]) if t is not None] or [16]
        inside = [(f["s"] + f["r"]) // 2 for f in case["faults"] if f["r"] is not None]
        stop = rng.choice([None, None] + [max(1, rng.choice(times + inside) + rng.choice([-1, 0, 1, 4]))] * 3)
        case["rerun"] = {"stop": stop}
        case["H"] = self.horizon(case)
        return case

    def gen_ghost(self, rng):
        """a plan in which one fault names an entity / link that is not part of the simulation"""
        case = self.gen_base(rng, rng.choice(["gate", "net", "mixed"]))
        case["family"] = "ghost"
        cands = [f for f in case["faults"] if f["k"] != "cap"]
        if not cands:
            f = {"k": "pause", "e": 0, "s": 8, "r": 16}
            case["faults"].append(f)
            cands = [f]
        f = rng.choice(cands)
        if f["k"] in ("crash", "pause"):
            f["e"] = GHOST
        elif f["k"] == "part":
            side = rng.choice(["A", "B"])
            f[side] = sorted(f[side] + [GHOST]) if rng.random() < 0.5 else [GHOST]
        else:
            f[rng.choice(["a", "b"])] = GHOST
        if rng.random() < 0.3:
            f["cancel"] = "pre"
        case["H"] = self.horizon(case)
        return case

    @staticmethod
    def horizon(case):
        ts = [0]
        for f in case["faults"]:
            ts += [f["s"], f["r"] or 0] + [c for c in cancel_points(f) if c != "pre"]
        for m in case.get("manual", []) + case.get("setcaps", []):
            ts.append(m["t"])
        for j in case["jobs"]:
            ts.append(j["t"])
        for p in case["probes"]:
            ts.append(p["t"])
        slack = sum(op[1] for j in case["jobs"] for op in j["ops"] if op[0] in ("sleep", "emit"))
        extra = sum(f["x"] for f in case["faults"] if f["k"] == "lat")
        return max(ts) + slack + extra + 16 + 8

    def nontrivial_key(self, case, impl_out):
        """non-trivial: a fault event was processed and something was observed while a window was open"""
        act, hit = set(), False
        nf = len(case["faults"])
        for line in impl_out:
            w = line.split()
            if line.startswith("F "):
                (act.add if w[3] == "a" else act.discard)(int(w[2]))
                hit = hit or (w[3] == "d" and int(w[2]) >= nf)      # a manual heal was observed
            elif line.startswith("A "):
                act = {f for f in act if f < nf and case["faults"][f]["k"] != "part"}
                hit = True
            elif line.startswith("E "):
                hit = True
            elif act and line[:1] in "JNRC":
                hit = True
        if not hit:
            return None
        return json.dumps({k: v for k, v in case.items() if k not in ("seed", "shapes")}, sort_keys=True)

    def shrink(self, case):
        def with_(**kw):
            c = dict(case)
            c.update(kw)
            c["H"] = self.horizon(c)
            return c
        for key in ("faults", "jobs", "probes"):
            xs = case[key]
            for i in range(len(xs)):
                yield with_(**{key: xs[:i] + xs[i + 1:]})
        man = case.get("manual", [])
        for i, m in enumerate(man):
            if m["op"] == "part":
                # drop the call together with the heals of its handle; renumber the other handles
                keep = [dict(x) for j, x in enumerate(man) if j != i and not (x["op"] == "heal" and x["h"] == i)]
                for x in keep:
                    if x["op"] == "heal" and x["h"] > i:
                        x["h"] -= 1 + sum(1 for j, y in enumerate(man) if i < j < x["h"] and y["op"] == "heal" and y["h"] == i)
                yield with_(manual=keep)
            else:
                keep = [dict(x) for j, x in enumerate(man) if j != i]
                for x in keep:
                    if x["op"] == "heal" and x["h"] > i:
                        x["h"] -= 1
                yield with_(manual=keep)
        if case.get("early"):
            yield with_(early=False)
        if case.get("tracing"):
            yield with_(tracing=False)
        sc = case.get("setcaps", [])
        for i in range(len(sc)):
            yield with_(setcaps=sc[:i] + sc[i + 1:])
        if case.get("rerun") and case["rerun"].get("stop") is not None:
            yield with_(rerun={"stop": None})
        if not man and "manual" in case:
            c = {k: v for k, v in case.items() if k != "manual"}
            yield c
        for j, job in enumerate(case["jobs"]):
            for k in range(len(job["ops"])):
                nj = dict(job)
                nj["ops"] = job["ops"][:k] + job["ops"][k + 1:]
                yield with_(jobs=case["jobs"][:j] + [nj] + case["jobs"][j + 1:])
        for i, f in enumerate(case["faults"]):
            if "cancel" in f:
                nf = {k: v for k, v in f.items() if k != "cancel"}
                yield with_(faults=case["faults"][:i] + [nf] + case["faults"][i + 1:])
                if isinstance(f["cancel"], list) and len(f["cancel"]) > 1:
                    for c in f["cancel"]:
                        yield with_(faults=case["faults"][:i] + [dict(nf, cancel=c)] + case["faults"][i + 1:])
        if case["n"] > 1 and not case["probes"] and all(f["k"] not in ("part", "lat", "loss") for f in case["faults"]):
            used = {j["e"] for j in case["jobs"]} | {f["e"] for f in case["faults"] if "e" in f}
            if max(used | {0}) < case["n"] - 1:
                m = case["n"] - 1
                yield with_(n=m, lat=[r[:m] for r in case["lat"][:m]], loss=[r[:m] for r in case["loss"][:m]])

    def mutate(self, case, rng):
        c = json.loads(json.dumps(case))
        ends = [t for f in c["faults"] for t in (f["s"], f["r"]) if t is not None] or [8]
        for _ in range(rng.randint(1, 3)):
            k = rng.random()
            if k < 0.35 and c["faults"]:
                f = rng.choice(c["faults"])
                if rng.random() < 0.5:
                    f["s"] = max(0, rng.choice(ends) + rng.choice([-1, 0, 1]))
                elif f["r"] is not None:
                    f["r"] = rng.choice(ends) + rng.choice([-1, 0, 1])
                if f["r"] is not None and f["r"] < f["s"]:
                    f["r"] = f["s"]
            elif k < 0.5 and c["faults"] and len(c["faults"]) < 6:
                c["faults"].append(dict(rng.choice(c["faults"])))
            elif k < 0.7 and c["jobs"]:
                rng.choice(c["jobs"])["t"] = max(0, rng.choice(ends) + rng.choice([-8, -1, 0, 1]))
            elif k < 0.85 and c["probes"]:
                rng.choice(c["probes"])["t"] = max(0, rng.choice(ends) + rng.choice([-1, 0, 1]))
            elif k < 0.92 and c.get("manual"):
                m = rng.choice(c["manual"])
                if m["op"] != "part":
                    m["t"] = max(1, rng.choice(ends) + rng.choice([-1, 0, 1, 8]))
            elif c["faults"]:
                f = rng.choice(c["faults"])
                if "cancel" in f and rng.random() < 0.4:
                    del f["cancel"]
                else:
                    e = f["r"] if f["r"] is not None else f["s"] + 8
                    f["cancel"] = rng.choice(["pre", 0, max(1, f["s"] - 1), max(1, f["s"]), f["s"] + 1, max(1, e), e + 1])
        c["H"] = self.horizon(c)
        return c

    # ------------------------------------------------------------------ implementation
    def run_impl(self, case):
        try:
            out = run_real(case)
        except Watchdog:
            out = ["IMPL-WATCHDOG"]
        self._stash(case, out)
        return out

    def _stash(self, case, out):
        """remember the transcript for `model_block` (which only receives the case): in the harness
        process in a memo, from a pool worker through a file in a directory private to this run"""
        key = case_key(case)
        if os.getpid() == self._pid:
            self._memo[key] = out
            if len(self._memo) > 8192:
                self._memo.pop(next(iter(self._memo)))
            return
        try:
            d = self._dir()
            tmp = d / f"{key}.{os.getpid()}.tmp"
            tmp.write_text("\n".join(out))
            os.replace(tmp, d / f"{key}.txt")
        except OSError:
            pass

    def _dir(self):
        d = SCHED_DIR / str(self._pid)
        if not d.exists():
            d.mkdir(parents=True, exist_ok=True)
        return d

    def _cleanup(self):
        if os.getpid() == self._pid:
            shutil.rmtree(SCHED_DIR / str(self._pid), ignore_errors=True)

    def impl_transcript(self, case):
        """the implementation transcript for a case: from the memo / the file a pool worker left /
        a fresh in-process run (deterministic)"""
        key = case_key(case)
        if key in self._memo:
            return self._memo[key]
        p = SCHED_DIR / str(self._pid) / f"{key}.txt"
        if p.exists():
            try:
                out = p.read_text().split("\n")
                p.unlink()
                return out
            except OSError:
                pass
        return core.run_impl_safe(self, case)

    # ------------------------------------------------------------------ model / judge
    def model_block(self, case, variant):
        return self.model_block_from_impl(case, variant, self.impl_transcript(case))

    def model_block_from_impl(self, case, variant, impl):
        """the case plus the schedule of processed events the real engine produced (GUIDE rule 8)"""
        body = case_lines(case)
        for line in impl:
            if line.startswith("IMPL-"):
                continue
            head, _ = split_line(line)
            body.append("pop " + head)
        return ("model", body)

    def judge_block(self, case, impl_out):
        if impl_out and impl_out[0].startswith("IMPL-"):
            return None
        body = case_lines(case)
        for line in impl_out:
            body.append("obs " + line)
        return ("judge qres" if case.get("family") == "qres" else "judge", body)


THEOREMS = [
    "HappyModel.C06.effect_iff_active",
    "HappyModel.C06.blocked_iff_covering_window_active",
    "HappyModel.C06.down_iff_window_active",
    "HappyModel.C06.all_ended_restores_base",
    "HappyModel.C06.crashed_executes_nothing",
    "HappyModel.C06.no_process_of_down_entity_advances",
    "HappyModel.C06.process_advances_only_at_own_events",
    "HappyModel.C06.others_ungated",
    "HappyModel.C06.restart_resumes",
    "HappyModel.C06.cancelled_fault_is_noop",
    "HappyModel.C06.cancel_before_activation_prevents",
    "HappyModel.C06.cancel_is_silent",
    "HappyModel.C06.heal_all_ends_every_partition",
    "HappyModel.C06.stale_heal_is_noop",
    "HappyModel.C06.winv_unique",
    "HappyModel.C06.active_iff_in_window",
    "HappyModel.C06.in_window_of_active",
    "HappyModel.C06.active_of_in_window",
    "HappyModel.C06.up_from_restart_time",
    "HappyModel.C06.delivery_at_restart_time_runs",
    "HappyModel.C06.winv_healall",
    "HappyModel.C06.capacity_tracks_live_configuration",
    "HappyModel.C06.setcap_sets_base",
    "HappyModel.C06.inv_at",
    "HappyModel.C06.active_of_inside",
    "HappyModel.C06.inside_of_active",
]
C06.theorems = THEOREMS
PROPERTY = C06()
