"""C06 — injected faults act exactly during their windows and isolate only their target.

Correspondence: a real `Simulation` with a real `FaultSchedule` (CrashNode, PauseNode,
NetworkPartition, InjectLatency, InjectPacketLoss, ReduceCapacity), a real `Network` with one
`NetworkLink` per ordered pair of workers, a real `Resource`, and small harness entities (workers
with generator handlers, a sink).  Every processed event is observed through the public
`sim.control.on_event` hook; the sequence of processed events is the *schedule* that is handed to the
Lean model (`HappyModel/C06`) together with the case (GUIDE rule 8), and the model has to reproduce
what each of them did (activity tokens, probe fate, effective settings).  The Lean Spec predicate
(`HappyModel/C06/Spec.lean`) judges the implementation's own transcript against the fault plan.

All times in a case are integer *ticks* of 1/512 s = 1 953 125 ns, so every float the code computes
(`Instant.from_seconds`, `extra_ms / 1000.0`, latency sums, capacity factors) is exact.
"""
from __future__ import annotations

import atexit
import hashlib
import json
import os
import random
import shutil
from pathlib import Path

from hv import core

TICK = 1_953_125          # ns
CAPS = 1024               # capacity / loss scale in the protocol
SCHED_DIR = Path(os.environ.get("HV_C06_TMP", "/tmp/hv-c06-sched"))


def case_key(case) -> str:
    return hashlib.sha256(json.dumps(case, sort_keys=True).encode()).hexdigest()[:24]


class Watchdog(Exception):
    pass


def _preload():
    """import the simulator in the harness process, before the fork pool exists: sixteen workers
    importing it at once under load took longer than the per-case timeout"""
    import happysimulator.components.network.link  # noqa: F401
    import happysimulator.components.network.network  # noqa: F401
    import happysimulator.components.resource  # noqa: F401
    import happysimulator.core.simulation  # noqa: F401
    import happysimulator.distributions.constant  # noqa: F401
    import happysimulator.faults.network_faults  # noqa: F401
    import happysimulator.faults.node_faults  # noqa: F401
    import happysimulator.faults.resource_faults  # noqa: F401
    import happysimulator.faults.schedule  # noqa: F401


_preload()


# --------------------------------------------------------------------------- implementation run


def run_real(case):
    """Drive the real code; returns the transcript (list of lines)."""
    from happysimulator.components.network.link import NetworkLink
    from happysimulator.components.network.network import Network
    from happysimulator.components.resource import Resource
    from happysimulator.core.entity import Entity
    from happysimulator.core.event import Event, ProcessContinuation
    from happysimulator.core.sim_future import SimFuture
    from happysimulator.core.simulation import Simulation
    from happysimulator.core.temporal import Instant
    from happysimulator.distributions.constant import ConstantLatency
    from happysimulator.faults.network_faults import InjectLatency, InjectPacketLoss, NetworkPartition
    from happysimulator.faults.node_faults import CrashNode, PauseNode
    from happysimulator.faults.resource_faults import ReduceCapacity
    from happysimulator.faults.schedule import FaultSchedule

    random.seed(case.get("seed", 0))
    n = case["n"]
    U = 1.0 / 512.0
    cur: list[str] = []          # activity tokens of the event being processed
    jobs = case["jobs"]
    probes = case["probes"]
    futs = [SimFuture() for _ in range(case.get("nfut", 0))]
    res = Resource("res", case["cap"])

    class Sink(Entity):
        def handle_event(self, ev):
            cur.append("got")
            return None

    sink = Sink("sink")

    qres = case.get("family") == "qres"

    class Worker(Entity):
        def handle_event(self, ev):
            if ev.event_type == "probe":
                cur.append("recv")
                return None
            return self.run_job(ev.context["metadata"]["job"])

        def run_job(self, j):
            cur.append("enter")
            grants = []
            for k, op in enumerate(jobs[j]["ops"]):
                kind = op[0]
                if kind == "sleep":
                    yield op[1] * U
                    cur.append(f"w{k}")
                elif kind == "emit":
                    e = Event(self.now, "emit", target=sink)
                    e.context["metadata"].update(job=j, k=k)
                    cur.append(f"e{k}")
                    yield op[1] * U, [e]
                    cur.append(f"w{k}")
                elif kind == "wait":
                    yield futs[op[1]]
                    cur.append(f"w{k}")
                elif kind == "res":
                    futs[op[1]].resolve(None)
                    cur.append(f"r{k}")
                elif kind == "acq":
                    try:
                        fut = res.acquire(op[1])
                    except ValueError:
                        cur.append(f"x{k}")
                        continue
                    g = yield fut
                    grants.append(g)
                    cur.append(f"w{k}")
                elif kind == "rel":
                    if grants:
                        g = grants.pop(0)
                        try:
                            g.release()
                            cur.append(f"l{k}")
                        except ValueError:
                            cur.append(f"X{k}")
                    else:
                        cur.append(f"n{k}")
            cur.append("done")
            return None

    if qres:
        # queue-fronted target: the same generator runs as `handle_queued_event` behind the
        # resource's internal Queue + QueueDriver + worker adapter (one job in service at a time)
        from happysimulator.components.queued_resource import QueuedResource

        class QWorker(QueuedResource):
            def __init__(self, name):
                super().__init__(name)
                self.busy = 0

            def has_capacity(self):
                return self.busy < 1

            def handle_queued_event(self, ev):
                self.busy += 1
                yield from Worker.run_job(self, ev.context["metadata"]["job"])
                self.busy -= 1
                return None

        workers = [QWorker(f"w{i}") for i in range(n)]
    else:
        workers = [Worker(f"w{i}") for i in range(n)]
    net = Network("net")
    links = {}
    pairs = [(a, b) for a in range(n) for b in range(n) if a != b]
    for (a, b) in pairs:
        lk = NetworkLink(f"l{a}{b}", latency=ConstantLatency(case["lat"][a][b] * U),
                         packet_loss_rate=case["loss"][a][b] / float(CAPS))
        net.add_link(workers[a], workers[b], lk)
        links[(a, b)] = lk

    def ename(e):
        return "net" if e == n else f"w{e}"

    class Tagged:
        """public `Fault` protocol wrapper that remembers which events belong to which fault"""

        def __init__(self, inner):
            self.inner, self.events = inner, []

        def generate_events(self, ctx):
            self.events = self.inner.generate_events(ctx)
            return self.events

    fs = FaultSchedule()
    tagged, handles = [], []
    for f in case["faults"]:
        k, s, r = f["k"], f["s"] * U, (None if f["r"] is None else f["r"] * U)
        if k == "crash":
            obj = CrashNode(ename(f["e"]), at=s, restart_at=r)
        elif k == "pause":
            obj = PauseNode(ename(f["e"]), start=s, end=r)
        elif k == "part":
            obj = NetworkPartition([f"w{x}" for x in f["A"]], [f"w{x}" for x in f["B"]], start=s, end=r,
                                   asymmetric=bool(f["asym"]))
        elif k == "lat":
            obj = InjectLatency(f"w{f['a']}", f"w{f['b']}", extra_ms=f["x"] * 1000.0 / 512.0, start=s, end=r)
        elif k == "loss":
            obj = InjectPacketLoss(f"w{f['a']}", f"w{f['b']}", loss_rate=f["x"] / float(CAPS), start=s, end=r)
        elif k == "cap":
            obj = ReduceCapacity("res", factor=f["num"] / float(f["den"]), start=s, end=r)
        else:
            raise ValueError(k)
        t = Tagged(obj)
        tagged.append(t)
        handles.append(fs.add(t))

    H = case["H"]
    sim = Simulation(entities=workers + [sink, net, res], fault_schedule=fs, end_time=Instant(H * TICK))
    fmap = {}
    for fid, t in enumerate(tagged):
        for idx, ev in enumerate(t.events):
            fmap[id(ev)] = (fid, "a" if idx == 0 else "d")

    evs = []
    for j, job in enumerate(jobs):
        e = Event(Instant(job["t"] * TICK), "job", target=workers[job["e"]])
        e.context["metadata"]["job"] = j
        evs.append(e)
    for p, pr in enumerate(probes):
        e = Event(Instant(pr["t"] * TICK), "probe", target=net)
        e.context["metadata"].update(source=f"w{pr['a']}", destination=f"w{pr['b']}", probe=p)
        evs.append(e)
    cmap = {}
    for fid, f in enumerate(case["faults"]):
        c = f.get("cancel", -1)
        if c == 0:
            handles[fid].cancel()
        elif c > 0:
            ce = Event.once(Instant(c * TICK), "cancel", (lambda h: (lambda e: h.cancel()))(handles[fid]), daemon=True)
            cmap[id(ce)] = fid
            evs.append(ce)
    sim.schedule(evs)

    def scaled(x):
        v = x * CAPS
        iv = int(v)
        return str(iv) if iv == v else "frac"

    def settings(now):
        P = "".join("1" if net.is_partitioned(f"w{a}", f"w{b}") else "0" for (a, b) in pairs) or "-"
        L = " ".join(str(links[p].latency.get_latency(now).nanoseconds) for p in pairs)
        X = " ".join(scaled(links[p].packet_loss_rate) for p in pairs)
        return f"P {P} L {L} X {X} C {scaled(res.capacity)} {scaled(res.available)}".replace("  ", " ")

    out = []
    count = [0]
    snap = {"part": 0, "routed": 0, "drop": {p: 0 for p in pairs}, "sent": {p: 0 for p in pairs}}

    def on_event(ev):
        count[0] += 1
        if count[0] > 5000:
            raise Watchdog()
        t = ev.time.nanoseconds
        toks = " ".join(cur) if cur else "-"
        del cur[:]
        key = id(ev)
        if key in fmap:
            fid, ad = fmap[key]
            out.append(f"F {t} {fid} {ad} | {settings(ev.time)}")
        elif key in cmap:
            out.append(f"C {t} {cmap[key]}")
        elif ev.event_type == "job" and qres:
            # report what reaches the worker logic (or is dropped at the resource); the enqueue
            # of an accepted event and the queue/driver plumbing are not activity of the handler
            j = ev.context["metadata"]["job"]
            w = workers[jobs[j]["e"]]
            if ev.target is w:
                acc = w.stats_accepted
                if acc == snap.setdefault("acc", {}).get(id(w), 0):
                    out.append(f"J {t} {j} a | {toks}")
                snap["acc"][id(w)] = acc
            else:
                out.append(f"J {t} {j} {'c' if isinstance(ev, ProcessContinuation) else 'a'} | {toks}")
        elif ev.event_type == "job":
            j = ev.context["metadata"]["job"]
            out.append(f"J {t} {j} {'c' if isinstance(ev, ProcessContinuation) else 'a'} | {toks}")
        elif ev.event_type == "emit":
            md = ev.context["metadata"]
            out.append(f"S {t} {md['job']} {md['k']} | {toks}")
        elif ev.event_type == "probe":
            md = ev.context["metadata"]
            p = md["probe"]
            pr = probes[p]
            pair = (pr["a"], pr["b"])
            lk = links[pair]
            if ev.target is net and not isinstance(ev, ProcessContinuation):
                if net.events_dropped_partition != snap["part"]:
                    fate = "part"
                elif lk.packets_dropped != snap["drop"][pair]:
                    fate = "loss"
                elif net.events_routed != snap["routed"]:
                    fate = f"fly {lk.latency.get_latency(ev.time).nanoseconds}"
                else:
                    fate = "-"
                out.append(f"N {t} {p} s | {fate} | {settings(ev.time)}")
            elif ev.target is net:
                fate = "fwd" if lk.packets_sent != snap["sent"][pair] else "-"
                out.append(f"N {t} {p} h | {fate}")
            else:
                out.append(f"R {t} {p} | {toks}")
            snap["part"], snap["routed"] = net.events_dropped_partition, net.events_routed
            snap["drop"][pair], snap["sent"][pair] = lk.packets_dropped, lk.packets_sent
        elif not qres:
            out.append(f"U {t} {ev.event_type}")

    sim.control.on_event(on_event)
    sim.run()
    out.append(f"Z | {settings(Instant(H * TICK))} | pending 0")
    return out


# --------------------------------------------------------------------------- case -> protocol


def case_lines(case):
    """the case in the driver's input language (times in ns)"""
    n = case["n"]
    L = [f"n {n}", f"cap {case['cap']}"]
    for a in range(n):
        for b in range(n):
            if a != b:
                L.append(f"link {a} {b} {case['lat'][a][b] * TICK} {case['loss'][a][b]}")
    for f in case["faults"]:
        k = f["k"]
        s = f["s"] * TICK
        r = "none" if f["r"] is None else str(f["r"] * TICK)
        c = f.get("cancel", -1)
        cs = "x" if c >= 0 else "o"
        if k in ("crash", "pause"):
            L.append(f"fault {cs} {s} {r} {k} {f['e']}")
        elif k == "part":
            L.append(f"fault {cs} {s} {r} part {int(bool(f['asym']))} {' '.join(map(str, f['A']))} / {' '.join(map(str, f['B']))}")
        elif k == "lat":
            L.append(f"fault {cs} {s} {r} lat {f['a']} {f['b']} {f['x'] * TICK}")
        elif k == "loss":
            L.append(f"fault {cs} {s} {r} loss {f['a']} {f['b']} {f['x']}")
        elif k == "cap":
            L.append(f"fault {cs} {s} {r} cap {f['num']} {f['den']}")
    for job in case["jobs"]:
        ops = []
        for op in job["ops"]:
            if op[0] in ("sleep", "emit"):
                ops.append(f"{op[0]} {op[1] * TICK}")
            elif op[0] == "rel":
                ops.append("rel 0")
            else:
                ops.append(f"{op[0]} {op[1]}")
        L.append(f"job {job['e']} " + " ".join(ops))
    for pr in case["probes"]:
        L.append(f"probe {pr['a']} {pr['b']}")
    return L


def split_line(line):
    """'F 1 2 a | x | y' -> ('F 1 2 a', ['x', 'y'])"""
    parts = [p.strip() for p in line.split("|")]
    return parts[0], parts[1:]


class C06(core.Property):
    id = "C06"
    driver = "drv-c06"
    lake_targets = ["HappyProofs.C06.Props", "drv-c06"]
    audit_imports = ["HappyProofs.C06.Props"]
    lean_files = ["HappyModel/C06/*.lean", "HappyProofs/C06/*.lean", "HappyModel/Proto.lean", "Driver/C06.lean"]
    theorems = []
    quick_cases = 2400
    thorough_cases = 60000
    case_timeout_s = 20
    rule = ("fault plans of 1-5 faults (crash, pause, partition sym/asym, +latency, +loss, capacity factor) on 1-3 workers, "
            "the Network entity and one Resource; windows shaped relative to earlier ones (identical, nested, containing, "
            "staggered, disjoint, same start, same end, abutting, zero length, permanent crash), 15% cancelled handles (before "
            "the run or at a time before the start); 0-4 generator jobs of 1-6 ops (sleep, emit, wait/resolve future, "
            "acquire/release) and 0-8 probes through the Network, placed on / 1 tick before / 1 tick after window endpoints; "
            "families gate / net / cap / mixed in rotation; non-trivial = some job, probe or delivery was processed while a "
            "window was open; distinct = distinct case content")
    trusted_base = [
        "hv/props/c06.py harness entities (Worker generator, Sink), observation through the public sim.control.on_event hook, "
        "is_partitioned / link.latency / link.packet_loss_rate / resource.capacity / resource.available, Network and link counters",
        "fault events are identified by wrapping each fault in an object implementing the public Fault protocol",
        "the schedule of processed events is taken from the implementation run (the engine's own ordering is C01/C02's subject)",
        "one NetworkLink object per ordered pair of workers (faults act on link objects)",
    ]
    assumptions = [
        "window activity is read off the processed fault events (activated and not yet deactivated); the judge separately "
        "checks that every fault event of a non-cancelled fault is processed exactly once at its configured time and none of a cancelled one",
        "a process dropped by the crash gate is lost (crash and pause share one code path); a process whose wake-up falls after "
        "the restart survives the window",
        "resource.available is judged as <= capacity - (grants whose holder has resumed): grants made to a process that has not "
        "resumed yet are not visible in the activity log",
        "probe fate is judged only when the effective loss rate is 0 or 1 (no RNG in the comparison)",
        "cancellation is exercised before activation only (the property's wording)",
    ]
    hypotheses = [
        "WF tr: each fault event is processed at most once, an activation before its deactivation (engine exactly-once, time order, start <= end)",
        "Legit c tr: the schedule contains only events of scheduled, not-cancelled faults (cancelled events are never delivered: C01)",
    ]
    partial_theorems = {}

    def __init__(self):
        self._memo = {}
        self._pid = os.getpid()
        shutil.rmtree(SCHED_DIR / str(self._pid), ignore_errors=True)
        atexit.register(self._cleanup)

    # ------------------------------------------------------------------ generation
    GRID = [8 * i for i in range(1, 33)]

    def gen_window(self, rng, prev):
        """a window [s, r] in ticks, shaped relative to an earlier window of the plan"""
        g = self.GRID
        if prev and rng.random() < 0.8:
            ps, pr = rng.choice(prev)
            pr = ps + 64 if pr is None else pr
            shape = rng.choice(["identical", "nested", "staggered", "disjoint", "same-start", "same-end", "abut", "contain"])
            d = rng.choice([1, 8, 16, 24])
            if shape == "identical":
                s, r = ps, pr
            elif shape == "nested":
                s, r = ps + d, max(ps + d, pr - d)
            elif shape == "contain":
                s, r = max(0, ps - d), pr + d
            elif shape == "staggered":
                s, r = ps + d, pr + d
            elif shape == "disjoint":
                s, r = pr + d, pr + d + rng.choice([8, 32])
            elif shape == "same-start":
                s, r = ps, pr + rng.choice([-8, 8, 16])
            elif shape == "same-end":
                s, r = max(0, ps + rng.choice([-8, 8])), pr
            else:
                s, r = pr, pr + rng.choice([8, 24])
            if r < s:
                r = s
            return shape, s, r
        s = rng.choice(g[:20])
        r = s + rng.choice([0, 1, 8, 16, 40, 80])
        return "fresh", s, r

    def generate(self, rng: random.Random, i: int, tier: str) -> dict:
        fam = ["gate", "net", "cap", "mixed"][i % 4]
        n = rng.choice([1, 2, 3]) if fam in ("gate", "cap") else rng.choice([2, 3, 3])
        cap = rng.choice([4, 8, 16])
        lat = [[rng.choice([0, 1, 4, 8]) if a != b else 0 for b in range(n)] for a in range(n)]
        loss = [[(1024 if rng.random() < 0.08 else 0) if a != b else 0 for b in range(n)] for a in range(n)]
        kinds = {"gate": ["crash", "pause", "crash", "pause", "part"],
                 "net": ["part", "part", "lat", "lat", "loss", "loss", "crash"],
                 "cap": ["cap", "cap", "cap", "pause"],
                 "mixed": ["crash", "pause", "part", "lat", "loss", "cap"]}[fam]
        nf = rng.choice([1, 2, 2, 3, 3, 4, 5])
        faults, wins, shapes = [], [], []
        focus = rng.randrange(n)                       # most node faults hit the same entity
        fa, fb = (rng.sample(range(n), 2) if n >= 2 else (0, 0))
        frac_links = set()
        for _ in range(nf):
            k = rng.choice(kinds)
            if n < 2 and k in ("part", "lat", "loss"):
                k = "crash"
            shape, s, r = self.gen_window(rng, wins)
            shapes.append(shape)
            f = {"k": k, "s": s, "r": r}
            if k in ("crash", "pause"):
                e = focus if rng.random() < 0.7 else rng.randrange(n)
                if rng.random() < 0.07:
                    e = n                                # the Network entity itself
                f["e"] = e
                if k == "crash" and rng.random() < 0.12:
                    f["r"] = None
            elif k == "part":
                ws = list(range(n))
                rng.shuffle(ws)
                cut = rng.randint(1, n - 1)
                A, B = sorted(ws[:cut]), sorted(ws[cut:])
                if rng.random() < 0.5 and n == 3:
                    B = B[:1] if len(B) > 1 else B
                if rng.random() < 0.5:
                    A, B = B, A
                f.update(A=A, B=B, asym=int(rng.random() < 0.35))
            elif k in ("lat", "loss"):
                if rng.random() < 0.7:
                    a, b = fa, fb
                else:
                    a, b = rng.sample(range(n), 2)
                if rng.random() < 0.2:
                    a, b = b, a
                if k == "lat":
                    f.update(a=a, b=b, x=rng.choice([1, 8, 16, 3]))
                else:
                    x = rng.choice([1024, 1024, 1024, 0, 512, 256])
                    if x not in (0, 1024):
                        frac_links.add((a, b))
                    f.update(a=a, b=b, x=x)
            else:
                num, den = rng.choice([(1, 2), (1, 2), (1, 4), (3, 4)])
                f.update(num=num, den=den)
            if rng.random() < 0.15:
                f["cancel"] = 0 if (s == 0 or rng.random() < 0.5) else rng.choice([1, max(1, s - 1), max(1, s // 2)])
                if f["cancel"] >= s:
                    f["cancel"] = 0
            faults.append(f)
            wins.append((f["s"], f["r"]))
        # times of interest: window endpoints and their neighbours
        pts = sorted({max(0, t + d) for (s, r) in wins for t in (s, r) if t is not None for d in (-9, -1, 0, 1, 7)})
        pts = pts or [8]

        def tpick():
            return rng.choice(pts) if rng.random() < 0.85 else rng.choice(self.GRID)

        jobs, nfut, waited = [], rng.choice([0, 1, 2]), set()
        njobs = {"gate": rng.choice([1, 2, 3, 4]), "net": rng.choice([0, 1]), "cap": rng.choice([2, 3, 4]),
                 "mixed": rng.choice([1, 2, 3])}[fam]
        for _ in range(njobs):
            e = focus if rng.random() < 0.6 else rng.randrange(n)
            t = max(0, tpick() - rng.choice([0, 0, 8, 16, 24]))
            ops = []
            for _ in range(rng.choice([1, 2, 3, 4, 6])):
                r = rng.random()
                if fam == "cap" and r < 0.55 or r < 0.2:
                    if rng.random() < 0.6:
                        ops.append(["acq", rng.choice([1, cap // 4, cap // 2, 3 * cap // 4, cap])])
                    else:
                        ops.append(["rel"])
                elif r < 0.5:
                    ops.append(["sleep", rng.choice([0, 1, 8, 8, 16, 24, 40])])
                elif r < 0.7:
                    ops.append(["emit", rng.choice([0, 1, 8, 16])])
                elif r < 0.85 and nfut:
                    fu = rng.randrange(nfut)
                    if fu in waited:
                        ops.append(["res", fu])
                    else:
                        waited.add(fu)
                        ops.append(["wait", fu])
                elif nfut:
                    ops.append(["res", rng.randrange(nfut)])
                else:
                    ops.append(["sleep", 8])
            jobs.append({"e": e, "t": t, "ops": ops})
        probes = []
        if n >= 2:
            npr = {"gate": rng.choice([0, 1, 2]), "net": rng.choice([3, 5, 8]), "cap": 0, "mixed": rng.choice([1, 3, 5])}[fam]
            for _ in range(npr):
                if rng.random() < 0.6:
                    a, b = fa, fb
                    if rng.random() < 0.3:
                        a, b = b, a
                else:
                    a, b = rng.sample(range(n), 2)
                if (a, b) in frac_links:
                    continue
                probes.append({"a": a, "b": b, "t": tpick()})
        case = {"family": fam, "n": n, "cap": cap, "nfut": nfut, "lat": lat, "loss": loss, "faults": faults,
                "jobs": jobs, "probes": probes, "seed": rng.randrange(1 << 30), "shapes": shapes}
        case["H"] = self.horizon(case)
        return case

    @staticmethod
    def horizon(case):
        ts = [0]
        for f in case["faults"]:
            ts += [f["s"], f["r"] or 0, f.get("cancel", 0)]
        for j in case["jobs"]:
            ts.append(j["t"])
        for p in case["probes"]:
            ts.append(p["t"])
        slack = sum(op[1] for j in case["jobs"] for op in j["ops"] if op[0] in ("sleep", "emit"))
        extra = sum(f["x"] for f in case["faults"] if f["k"] == "lat")
        return max(ts) + slack + extra + 16 + 8

    def nontrivial_key(self, case, impl_out):
        """non-trivial: a fault event was processed and something was observed while a window was open"""
        act, hit = 0, False
        for line in impl_out:
            if line.startswith("F "):
                act += 1 if line.split()[3] == "a" else -1
            elif act > 0 and line[:1] in "JNR":
                hit = True
        if not hit:
            return None
        return json.dumps({k: v for k, v in case.items() if k not in ("seed", "shapes")}, sort_keys=True)

    def shrink(self, case):
        def with_(**kw):
            c = dict(case)
            c.update(kw)
            c["H"] = self.horizon(c)
            return c
        for key in ("faults", "jobs", "probes"):
            xs = case[key]
            for i in range(len(xs)):
                yield with_(**{key: xs[:i] + xs[i + 1:]})
        for j, job in enumerate(case["jobs"]):
            for k in range(len(job["ops"])):
                nj = dict(job)
                nj["ops"] = job["ops"][:k] + job["ops"][k + 1:]
                yield with_(jobs=case["jobs"][:j] + [nj] + case["jobs"][j + 1:])
        for i, f in enumerate(case["faults"]):
            if "cancel" in f:
                nf = {k: v for k, v in f.items() if k != "cancel"}
                yield with_(faults=case["faults"][:i] + [nf] + case["faults"][i + 1:])
        if case["n"] > 1 and not case["probes"] and all(f["k"] not in ("part", "lat", "loss") for f in case["faults"]):
            used = {j["e"] for j in case["jobs"]} | {f["e"] for f in case["faults"] if "e" in f}
            if max(used | {0}) < case["n"] - 1:
                m = case["n"] - 1
                yield with_(n=m, lat=[r[:m] for r in case["lat"][:m]], loss=[r[:m] for r in case["loss"][:m]])

    def mutate(self, case, rng):
        c = json.loads(json.dumps(case))
        ends = [t for f in c["faults"] for t in (f["s"], f["r"]) if t is not None] or [8]
        for _ in range(rng.randint(1, 3)):
            k = rng.random()
            if k < 0.35 and c["faults"]:
                f = rng.choice(c["faults"])
                if rng.random() < 0.5:
                    f["s"] = max(0, rng.choice(ends) + rng.choice([-1, 0, 1]))
                elif f["r"] is not None:
                    f["r"] = rng.choice(ends) + rng.choice([-1, 0, 1])
                if f["r"] is not None and f["r"] < f["s"]:
                    f["r"] = f["s"]
                if f.get("cancel", -1) >= f["s"]:
                    f["cancel"] = 0
            elif k < 0.5 and c["faults"] and len(c["faults"]) < 6:
                c["faults"].append(dict(rng.choice(c["faults"])))
            elif k < 0.7 and c["jobs"]:
                rng.choice(c["jobs"])["t"] = max(0, rng.choice(ends) + rng.choice([-8, -1, 0, 1]))
            elif k < 0.85 and c["probes"]:
                rng.choice(c["probes"])["t"] = max(0, rng.choice(ends) + rng.choice([-1, 0, 1]))
            elif c["faults"]:
                f = rng.choice(c["faults"])
                if "cancel" in f:
                    del f["cancel"]
                else:
                    f["cancel"] = 0
        c["H"] = self.horizon(c)
        return c

    # ------------------------------------------------------------------ implementation
    def run_impl(self, case):
        try:
            out = run_real(case)
        except Watchdog:
            out = ["IMPL-WATCHDOG"]
        self._stash(case, out)
        return out

    def _stash(self, case, out):
        """remember the transcript for `model_block` (which only receives the case): in the harness
        process in a memo, from a pool worker through a file in a directory private to this run"""
        key = case_key(case)
        if os.getpid() == self._pid:
            self._memo[key] = out
            if len(self._memo) > 256:
                self._memo.pop(next(iter(self._memo)))
            return
        try:
            d = self._dir()
            tmp = d / f"{key}.{os.getpid()}.tmp"
            tmp.write_text("\n".join(out))
            os.replace(tmp, d / f"{key}.txt")
        except OSError:
            pass

    def _dir(self):
        d = SCHED_DIR / str(self._pid)
        if not d.exists():
            d.mkdir(parents=True, exist_ok=True)
        return d

    def _cleanup(self):
        if os.getpid() == self._pid:
            shutil.rmtree(SCHED_DIR / str(self._pid), ignore_errors=True)

    def impl_transcript(self, case):
        """the implementation transcript for a case: from the memo / the file a pool worker left /
        a fresh in-process run (deterministic)"""
        key = case_key(case)
        if key in self._memo:
            return self._memo[key]
        p = SCHED_DIR / str(self._pid) / f"{key}.txt"
        if p.exists():
            try:
                out = p.read_text().split("\n")
                p.unlink()
                return out
            except OSError:
                pass
        return core.run_impl_safe(self, case)

    # ------------------------------------------------------------------ model / judge
    def model_block(self, case, variant):
        impl = self.impl_transcript(case)
        body = case_lines(case)
        for line in impl:
            if line.startswith("IMPL-"):
                continue
            head, _ = split_line(line)
            body.append("pop " + head)
        return ("model", body)

    def judge_block(self, case, impl_out):
        if impl_out and impl_out[0].startswith("IMPL-"):
            return None
        body = case_lines(case)
        for line in impl_out:
            body.append("obs " + line)
        return ("judge qres" if case.get("family") == "qres" else "judge", body)


THEOREMS = [
    "HappyModel.C06.effect_iff_active",
    "HappyModel.C06.blocked_iff_covering_window_active",
    "HappyModel.C06.down_iff_window_active",
    "HappyModel.C06.all_ended_restores_base",
    "HappyModel.C06.crashed_executes_nothing",
    "HappyModel.C06.no_process_of_down_entity_advances",
    "HappyModel.C06.process_advances_only_at_own_events",
    "HappyModel.C06.others_ungated",
    "HappyModel.C06.restart_resumes",
    "HappyModel.C06.cancelled_fault_is_noop",
    "HappyModel.C06.inv_at",
    "HappyModel.C06.active_of_inside",
    "HappyModel.C06.inside_of_active",
]
C06.theorems = THEOREMS
PROPERTY = C06()
