"""C19 extension family `outbox` — OutboxRelay (components/microservice/outbox_relay.py).

Clause: every written entry is relayed to the downstream entity exactly once, in entry-id (write) order,
by a relay event stamped not in the past (the downstream receives it at its stamp), and the public counters
add up (entries_written = entries_relayed + pending_count = total_entries).

The real OutboxRelay runs inside a real Simulation with harness entities: an actor that calls write() /
prime_poll() at scripted instants, `nudge` events (non-poll events targeted at the outbox: auto-priming) and
a downstream sink that records every `outbox_relay` event it receives.  handle_event of the outbox is wrapped
only to log which generator segment of which poll event ran when and which events it handed to the engine.
That schedule is replayed through the Lean transition system `HappyModel.C19.Outbox` (GUIDE rule 8) and the
Lean Spec `judge` judges the implementation's own transcript.

Transcript lines:  `<t ns> <action> => <observations> | <W> <R> <P> <T> <C>`
  actions       write | prime | nudge | poll <ticket> | resume <ticket> | recv | fin
  observations  id <k> | poll <ticket> <stamp> | none | start | emit <k> <stamp> | done | got <k> <stamp> | fin
  counters      stats.entries_written, stats.entries_relayed, pending_count, total_entries, stats.poll_cycles

DEFECT (fixes/C19-outbox-double-relay.*): on the unpatched tree `_handle_poll` clears `_poll_scheduled` when
it starts and marks its batch entry by entry around relay-latency yields; a non-poll event (or a second
prime_poll()) during those yields starts a second poll chain that relays the not-yet-marked entries again.
Until the orchestrator applies the patch the default generator must not raise that alarm on /repo:
RESTRICT_UNTIL_FIXED = True keeps every script with relay_latency > 0 to a single poll chain (exactly one
priming call, placed so that no poll can be suspended when it arrives); with relay_latency = 0 (polls are
atomic) every priming style is generated.  Set it to False once the patch is in.
"""
from __future__ import annotations

import json
import os
from collections.abc import Generator

FAMILY = "outbox"
SLOTS = 2
RESTRICT_UNTIL_FIXED = os.environ.get("HV_C19_OUTBOX_UNRESTRICTED", "") == ""   # see the module docstring

G = 125_000_000          # time grid: 0.125 s (exact in float seconds)
UNKNOWN = 999999

THEOREMS = [
    "HappyModel.C19.Outbox.outbox_relays_each_entry_once_in_order",
    "HappyModel.C19.Outbox.outbox_relayed_prefix",
    "HappyModel.C19.Outbox.outbox_quiescent_all_relayed",
    "HappyModel.C19.Outbox.legacy_outbox_double_relay_witness",
    "HappyModel.C19.Outbox.judge_rejects_bad_traces",
]
RULE = ("family outbox (2/20): OutboxRelay (batch 1/2/3/100, poll interval 0.125–1 s, relay latency 0–0.5 s) in a real Simulation; "
        "≤10 entries written in bursts on a 0.125 s grid (on poll instants and inside latency yields), priming by prime_poll(), by "
        "non-poll events, both, repeated, storms of non-poll events during the yields; bounded by end_time (15 % stop early, not quiescent); "
        "non-trivial when the sink received a relay event"
        + ("; RESTRICTED until fixes/C19-outbox-double-relay.diff is applied: with relay latency > 0 only one priming call" if RESTRICT_UNTIL_FIXED else ""))
TRUSTED = [
    "hv/props/c19_outbox.py harness entities (actor calling write()/prime_poll(), sink logging received outbox_relay events) and the "
    "tracing wrapper around OutboxRelay.handle_event that records which generator segment ran when and which events it handed to the engine",
    "outbox: the engine delivers relay events in stamp order, FIFO among equal stamps (C01); the model's `recv` pops its FIFO of sent events",
]
ASSUMPTIONS = [
    "outbox: the poll loop has to be primed by the user (prime_poll() or any event sent to the outbox) — API contract; 'never relayed' is judged "
    "at a quiescent end only: a poll cycle that started with no other cycle in flight after the last write, relayed fewer than batch_size entries "
    "and finished, no cycle in flight and no relay event in the heap at the end",
    "outbox: times on a 0.125 s grid, so float seconds in the component are exact",
]
HYPOTHESES = [
    "outbox theorems: cfg.legacy = false (the tree after fixes/C19-outbox-double-relay.diff); schedules are arbitrary (any number of poll events, "
    "nudges, primes, resumes at any time)",
]
PARTIAL = {}


# ------------------------------------------------------------------------------------------ harness


class _Harness:
    def __init__(self, case):
        from happysimulator.components.microservice.outbox_relay import OutboxRelay
        from happysimulator.core.entity import Entity
        from happysimulator.core.event import Event
        from happysimulator.core.simulation import Simulation
        from happysimulator.core.temporal import Instant

        H = self
        self.case = case
        self.lines = []
        self.tickets = {}      # id(poll event) -> ticket (creation order)
        self.keep = []
        self.watchdog = 0

        class Sink(Entity):
            def handle_event(self, ev):
                if ev.event_type == "outbox_relay":
                    md = ev.context.get("metadata", {})
                    H.log("recv", f"got {md.get('entry_id')} {ev.time.nanoseconds}")
                return []

        class TOutbox(OutboxRelay):
            """the real relay; handle_event is wrapped only to log which segment ran when"""

            def handle_event(self, event):
                H.tick()
                if event.event_type == f"_outbox_poll::{self.name}":
                    p = H.tickets.get(id(event), UNKNOWN)
                    return H.traced(super().handle_event(event), p)
                res = super().handle_event(event)
                if isinstance(res, Generator):
                    return H.traced(res, UNKNOWN, "nudge")
                H.log("nudge", H.fmt(res, final=True, cycle=False))
                return res

        class Actor(Entity):
            def handle_event(self, ev):
                op = ev.context["op"]
                if op[1] == "w":
                    for _ in range(op[2]):
                        k = H.ob.write({"n": len(H.lines)})
                        H.log("write", f"id {k}")
                    return []
                if op[1] == "prime":
                    pe = H.ob.prime_poll()
                    H.log("prime", H.fmt([pe], final=True, cycle=False))
                    return [pe]
                return []

        self.sink = Sink("sink")
        self.ob = TOutbox("ob", self.sink, poll_interval=case["interval_s"], batch_size=case["batch"],
                          relay_latency=case["lat_s"])
        self.actor = Actor("actor")
        self.sim = Simulation(end_time=Instant(case["end_ns"]), entities=[self.sink, self.ob, self.actor])
        for op in case["ops"]:
            if op[1] == "nudge":
                self.sim.schedule(Event(time=Instant(op[0]), event_type="nudge", target=self.ob))
            else:
                self.sim.schedule(Event(time=Instant(op[0]), event_type="op", target=self.actor, context={"op": op}))

    def tick(self):
        self.watchdog += 1
        if self.watchdog > 20000:
            raise RuntimeError("delivery watchdog")

    def counters(self):
        ob, st = self.ob, self.ob.stats
        return f"{st.entries_written} {st.entries_relayed} {ob.pending_count} {ob.total_entries} {st.poll_cycles}"

    def log(self, act, out):
        self.lines.append(" ".join(f"{self.ob.now.nanoseconds} {act} => {out} | {self.counters()}".split()))

    def fmt(self, evs, final, cycle=True):
        """what a segment handed to the engine: relay events, then (when the handler finished) the next poll event"""
        if evs is None:
            evs = []
        elif not isinstance(evs, list):
            evs = [evs]
        toks, polls = [], []
        for ev in evs:
            if ev.event_type == "outbox_relay":
                md = ev.context.get("metadata", {})
                toks.append(f"emit {md.get('entry_id')} {ev.time.nanoseconds}")
            elif ev.event_type.startswith("_outbox_poll::"):
                p = len(self.tickets)
                self.tickets[id(ev)] = p
                self.keep.append(ev)
                polls.append(f"poll {p} {ev.time.nanoseconds}")
            else:
                toks.append("other")
        if final:
            if cycle:
                toks.append("done")
            toks += polls if polls else ["none"]
        else:
            toks += polls
        return " ".join(toks)

    def traced(self, g, p, first_label=None):
        label = first_label or f"poll {p}"
        pre = "" if first_label else "start "
        if not isinstance(g, Generator):
            self.log(label, pre + self.fmt(g, final=True))
            return g
        return self._traced(g, p, label, pre)

    def _traced(self, g, p, label, pre):
        sent = None
        while True:
            try:
                y = g.send(sent)
            except StopIteration as e:
                self.log(label, pre + self.fmt(e.value, final=True))
                return e.value
            side = y[1] if isinstance(y, tuple) else []
            self.log(label, pre + self.fmt(side, final=False))
            label, pre = f"resume {p}", ""
            sent = yield y
            self.tick()

    def run(self):
        self.sim.run()
        self.lines.append(" ".join(f"{self.case['end_ns']} fin => fin | {self.counters()}".split()))
        return list(self.lines)


def run_impl(case):
    return _Harness(case).run()


# ------------------------------------------------------------------------------------------ blocks


def _ns(seconds):
    from happysimulator.core.temporal import Duration
    return Duration.from_seconds(seconds).nanoseconds


def model_block(case, variant, impl_out):
    sched = [l.split(" => ")[0] for l in impl_out if " => " in l]
    v = "current" if variant == "current" else "repaired"
    return (f"outbox {case['batch']} {_ns(case['interval_s'])} {_ns(case['lat_s'])} {v}", sched)


def judge_block(case, impl_out):
    if impl_out and impl_out[0].startswith("IMPL-"):
        return None
    return (f"judge-outbox {case['batch']}", [l for l in impl_out if " => " in l])


def nontrivial_key(case, impl_out):
    if any(" recv => got " in l for l in impl_out):
        return json.dumps(case, sort_keys=True)
    return None


# ------------------------------------------------------------------------------------------ generation


def _finish(case):
    ops = sorted(case["ops"], key=lambda o: o[0])     # stable: same-instant ops keep their order
    nw = sum(o[2] for o in ops if o[1] == "w")
    b = case["batch"]
    cyc = -(-nw // b) + 2
    per = _grid(case["interval_s"]) + min(b, max(nw, 1)) * _grid(case["lat_s"])
    last = max([o[0] for o in ops], default=0)
    case["ops"] = ops
    case["end_ns"] = last + cyc * per + case.get("extra_cycles", 0) * per + G // 2    # off the grid: nothing lands on it
    if case.get("short_end") is not None:
        # the bounded run stops early: entries still pending, possibly a cycle inside its yields (not a quiescent end)
        case["end_ns"] = last + case["short_end"] * G + G // 2
    return case


def _grid(seconds):
    return int(round(seconds * 1_000_000_000))


def generate(rng, tier):
    batch = rng.choice([1, 2, 2, 3, 3, 100])
    interval = rng.choice([0.125, 0.25, 0.5, 0.5, 1.0])
    lat = rng.choice([0.0, 0.0, 0.125, 0.125, 0.25, 0.5])
    nbursts = rng.choice([1, 2, 3, 4])
    span = rng.choice([4, 8, 16, 24])                  # script length in grid steps
    ops = []
    budget = 10
    for _ in range(nbursts):
        n = min(budget, rng.choice([1, 1, 2, 3, 4, 5]))
        if n <= 0:
            break
        budget -= n
        ops.append([rng.randrange(span + 1) * G, "w", n])
    ops.sort(key=lambda o: o[0])
    first_w = ops[0][0]
    single_chain = RESTRICT_UNTIL_FIXED and lat > 0
    if single_chain:
        # exactly one priming call, at or after the first write was processed (ops at one instant run in list
        # order and before any poll event created during the run), so that the chain never dies and no poll
        # can be suspended when the call arrives
        t = first_w + rng.choice([0, 0, 1, 2, 5]) * G
        ops.append([t, rng.choice(["prime", "nudge"])])
        style = "single"
    else:
        style = rng.choice(["prime", "nudge", "both", "prime2", "storm", "storm"])
        t0 = max(0, first_w + rng.choice([-2, -1, 0, 0, 0, 1, 2]) * G)
        if style in ("prime", "both", "prime2", "storm"):
            ops.append([t0, "prime"])
        if style in ("nudge", "both"):
            ops.append([t0 + rng.choice([0, 0, 1, 3]) * G, "nudge"])
        if style == "prime2":
            ops.append([t0 + rng.choice([0, 0, 1, 2, 3]) * G, "prime"])
        if style == "storm":
            # repeated non-poll events (and sometimes another prime_poll()) while polls are in their yields
            for _ in range(rng.choice([2, 4, 8])):
                ops.append([(t0 // G + rng.randrange(span + 8)) * G, "nudge"])
            if rng.random() < 0.4:
                ops.append([(t0 // G + rng.randrange(span + 8)) * G, "prime"])
        if rng.random() < 0.3:
            ops.append([rng.randrange(span + 1) * G, "nudge"])
    case = {"family": FAMILY, "batch": batch, "interval_s": interval, "lat_s": lat, "style": style, "ops": ops,
            "extra_cycles": rng.choice([0, 0, 1, 3])}
    if rng.random() < 0.15:
        case["short_end"] = rng.choice([0, 1, 2, 3, 5, 8])
    return _finish(case)


def shrink(case):
    ops = case["ops"]
    for i in range(len(ops)):
        yield _finish(dict(case, ops=ops[:i] + ops[i + 1:]))
    for i, o in enumerate(ops):
        if o[1] == "w" and o[2] > 1:
            yield _finish(dict(case, ops=ops[:i] + [[o[0], "w", o[2] - 1]] + ops[i + 1:]))
    if case.get("extra_cycles"):
        yield _finish(dict(case, extra_cycles=0))
    if case.get("short_end") is not None:
        yield _finish(dict(case, short_end=None))


def mutate(case, rng):
    ops = [list(o) for o in case["ops"]]
    if RESTRICT_UNTIL_FIXED and case["lat_s"] > 0:
        # only the writes move / grow: the single priming call stays where it is
        ws = [o for o in ops if o[1] == "w"]
        if not ws:
            return case
        first = min(o[0] for o in ws)
        o = rng.choice(ws)
        if rng.random() < 0.5 and o[0] != first:
            o[0] = max(first, o[0] + rng.choice([-1, 1, 2]) * G)
        else:
            o[2] = max(1, min(6, o[2] + rng.choice([-1, 1])))
        return _finish(dict(case, ops=ops))
    r = rng.random()
    if r < 0.35 and ops:
        o = rng.choice(ops)
        o[0] = max(0, o[0] + rng.choice([-2, -1, 1, 2, 4]) * G)
    elif r < 0.7:
        ops.append([rng.randrange(30) * G, rng.choice(["nudge", "nudge", "prime"])])
    else:
        ops.append([rng.randrange(30) * G, "w", rng.choice([1, 2, 3])])
    return _finish(dict(case, ops=ops))
