"""C14 — storage engines behave like a map under any flushes, compactions and overlap.

Correspondence: a real `LSMTree` (optionally with a real `WriteAheadLog`) runs inside a real
`Simulation`; worker entities execute generated scripts of put/delete/get/scan generators through a
tracing wrapper that logs which operation advanced at every generator segment.  That log is the
schedule fed to the Lean model (`HappyModel/C14`), which replays the same operations as a segment
transition system; transcripts (every operation's first/last segment index and result, final
`get_sync` of every key, SSTable/keys per level) are diffed.  The Lean Spec (`HappyModel/C14/Spec.lean`)
judges the implementation's own observations: every get/scan result must be the value of a write
that is not overwritten by a write completed before the read began.

Further families (`c14_store.py`): a real `BTree` (orders 3–5; scrambled insertion orders, sweeps of overwrites
that hit separator / median keys at the moment a full node is split, deletes, re-inserts; sequential clients
and clients overlapping in simulated time), a real `KVStore` without capacity limit, and a real
`TransactionManager` over either of them or over a real `LSMTree` (memtable 1–3, so that commits flush and compact and
reads pay page-read latencies while other transactions commit) (2–5 transactions at READ_COMMITTED / SNAPSHOT_ISOLATION /
SERIALIZABLE, with write-skew, r-w-cycle, lost-update, long-reader and insert-under-reader patterns — commits that create
keys the store did not hold when an older transaction took its snapshot — whose commit calls are 0–20 µs apart, i.e. inside
the 10 µs commit latency).  Same schedule-replay technique; the Lean Spec judges the store observations with the
clause above plus `delete` flags and `size`, and the transaction observations with: committed SERIALIZABLE
transactions are equivalent to some serial order (permutations enumerated), SNAPSHOT_ISOLATION transactions read
from one prefix of the commit order.
"""
from __future__ import annotations

import atexit
import hashlib
import json
import os
import random
import shutil

from hv import core

# One case runs in well under a millisecond; the fork pool costs more than it saves and, on a loaded
# machine, stalls workers past case_timeout_s (observed: spurious IMPL-TIMEOUT).  hv/core.py reads
# this variable at call time; every ./check process runs a single property.
import os as _os
_os.environ.setdefault("HV_SERIAL", "1")
from hv.props import c14_impl as I
from hv.props import c14_store as S

KEYSETS = [
    ["k13", "k15", "k49", "k84"], ["k45", "k67", "k86", "k97"], ["k39", "k54", "k75", "k82"],
    ["k28", "k32", "k54", "k86"], ["k00", "k01", "k86"], ["k15", "k49", "k84"], ["k80", "k88", "k94"],
    ["k01", "k17", "k27", "k34", "k65"], ["k11", "k43", "k53", "k82", "k85"],
    ["a", "b", "c"], ["a", "b", "c", "d"], ["a", "b", "c", "d", "e"],
]


def gen_strategy(rng):
    r = rng.random()
    if r < 0.4:
        return ["st", rng.choice([1, 2, 2, 3])]
    if r < 0.7:
        return ["lv", rng.choice([1, 2, 3]), rng.choice([1, 2]), rng.choice([1, 2, 3])]
    return ["fifo", rng.choice([1, 2, 3, 4])]


def gen_wal(rng, force=False):
    r = rng.random()
    if not force and r < 0.4:
        return None
    return rng.choice([["every"], ["batch", rng.choice([1, 2, 3])], ["periodic", rng.choice([200, 1500, 4000])]])


def gen_deep(rng, wal_force):
    """one writer pushing data down to the deepest levels (tombstones over older values below), one reader"""
    keys = rng.choice(KEYSETS)
    nk = len(keys)
    hot = rng.sample(range(nk), k=2)
    ops, v = [], 0
    for _ in range(rng.choice([10, 14, 18])):
        k = rng.choice(hot) if rng.random() < 0.8 else rng.randrange(nk)
        if rng.random() < 0.3 and ops:
            ops.append(["del", k])
        else:
            v += 1
            ops.append(["put", k, v])
    lat = {"r": rng.choice([500, 1000]), "w": rng.choice([1000, 2000]), "ww": 100, "ws": rng.choice([300, 1000])}
    reader = []
    for _ in range(rng.choice([3, 6])):
        reader.append(["sleep", rng.choice([250, lat["w"], 2 * lat["w"] + 20, 5 * lat["w"]])])
        reader.append(["get", rng.choice(hot)] if rng.random() < 0.8 else ["scan", 0, nk])
    strat = rng.choice([["st", 1], ["st", 2], ["lv", 1, 1, 1], ["lv", 1, 2, 1], ["fifo", 1], ["fifo", 2]])
    return {"family": "lsm", "keys": keys, "mem": 1, "levels": rng.choice([3, 4]), "strategy": strat,
            "wal": gen_wal(rng, wal_force), "lat": lat,
            "workers": [{"start": 0, "ops": ops}, {"start": rng.choice([0, 1000, 4000]), "ops": reader}]}


def gen_burst(rng, wal_force):
    """several writers hit one key almost simultaneously (several frozen memtables / flushes in flight), a reader polls"""
    keys = rng.choice(KEYSETS)
    nk = len(keys)
    hot = rng.randrange(nk)
    lat = {"r": rng.choice([500, 1000]), "w": rng.choice([2000, 3000]), "ww": rng.choice([50, 100]), "ws": rng.choice([300, 1000])}
    workers, v = [], 0
    for w in range(rng.choice([2, 3])):
        ops = []
        for _ in range(rng.choice([1, 2, 3])):
            if rng.random() < 0.3:
                ops.append(["sleep", rng.choice([0, 10, 20, 250])])
            if rng.random() < 0.2:
                ops.append(["del", hot])
            else:
                v += 1
                ops.append(["put", hot if rng.random() < 0.85 else rng.randrange(nk), v])
        workers.append({"start": rng.choice([0, 5, 12, 20, 30, 250, 500]), "ops": ops})
    reader = []
    for _ in range(rng.choice([6, 10])):
        reader.append(["sleep", rng.choice([10, 100, 250, 500])])
        reader.append(["get", hot] if rng.random() < 0.85 else ["scan", 0, nk])
    workers.append({"start": rng.choice([0, 30, 250]), "ops": reader})
    return {"family": "lsm", "keys": keys, "mem": rng.choice([1, 1, 2]), "levels": rng.choice([2, 3]), "strategy": gen_strategy(rng),
            "wal": gen_wal(rng, wal_force), "lat": lat, "workers": workers}


def gen_lsm_case(rng, tier, wal_force=False):
    r0 = rng.random()
    if r0 < 0.15:
        return gen_deep(rng, wal_force)
    if r0 < 0.3:
        return gen_burst(rng, wal_force)
    keys = rng.choice(KEYSETS)
    nk = len(keys)
    hot = rng.sample(range(nk), k=min(nk, rng.choice([2, 3, nk])))
    nw = rng.choice([2, 2, 3, 4])
    lat = {"r": rng.choice([500, 1000, 2000]), "w": rng.choice([1000, 2000, 3000]),
           "ww": rng.choice([50, 100, 400]), "ws": rng.choice([300, 1000, 2500])}
    total = rng.choice([6, 10, 16, 24, 30]) if tier == "quick" else rng.choice([6, 12, 20, 30, 40])
    workers = []
    val = [0]
    span = lat["w"] * rng.choice([2, 4, 8])
    for w in range(nw):
        n = max(1, total // nw + rng.choice([-1, 0, 1]))
        writer = rng.random() < 0.5
        ops = []
        for _ in range(n):
            r = rng.random()
            k = rng.choice(hot) if rng.random() < 0.85 else rng.randrange(nk)
            if rng.random() < 0.25:
                ops.append(["sleep", rng.choice([0, 10, 250, lat["w"], lat["w"] + 10, 2 * lat["r"], 2 * lat["w"] + 20])])
            wp = 0.75 if writer else 0.3
            if r < wp * 0.72:
                val[0] += 1
                ops.append(["put", k, val[0]])
            elif r < wp:
                ops.append(["del", k])
            elif r < wp + (1 - wp) * 0.8:
                ops.append(["get", k])
            else:
                lo = rng.randrange(nk)
                ops.append(["scan", lo, rng.randint(lo, nk)])
        workers.append({"start": rng.choice([0, 0, 10, 250, 1000]) + rng.randrange(0, span + 1, 250), "ops": ops})
    return {"family": "lsm", "keys": keys, "mem": rng.choice([1, 1, 2, 2, 3]), "levels": rng.choice([2, 2, 3, 4]),
            "strategy": gen_strategy(rng), "wal": gen_wal(rng, wal_force), "lat": lat, "workers": workers}


def declared_ops(case):
    out = []
    for w, wk in enumerate(case["workers"]):
        for j, op in enumerate(wk["ops"]):
            if op[0] != "sleep":
                out.append((w * 100 + j, op))
    return out


def config_lines(case):
    body = [f"cfg {len(case['keys'])} {case['mem']} {case['levels']}", "strat " + " ".join(map(str, case["strategy"]))]
    wal = case.get("wal")
    body.append("wal none" if not wal else ("wal periodic" if wal[0] == "periodic" else "wal " + " ".join(map(str, wal))))
    for m, k in I.fp_table(case["keys"]):
        body.append(f"fp {m} {k}")
    for opid, op in declared_ops(case):
        body.append(f"op {opid} " + " ".join(map(str, op)))
    return body


_OBS: dict = {}
_MAIN_PID = os.getpid()
_SPOOL = f"/tmp/hv-c14-sched-{_MAIN_PID}"


def _cleanup():
    if os.getpid() == _MAIN_PID:
        shutil.rmtree(_SPOOL, ignore_errors=True)


atexit.register(_cleanup)


def _key(case, crash_at):
    return json.dumps(case, sort_keys=True) + f"|{crash_at}"


def remember(case, crash_at, rec):
    """called by run_impl: keep the schedule the real run produced, for model_block.  In a pool worker the
    parent cannot see our memory, so the schedule is spooled to a per-run directory."""
    k = _key(case, crash_at)
    val = (list(rec.sched), list(rec.oracle))
    if os.getpid() == _MAIN_PID:
        _OBS[k] = val
    else:
        os.makedirs(_SPOOL, exist_ok=True)
        with open(os.path.join(_SPOOL, hashlib.sha1(k.encode()).hexdigest()), "w") as f:
            json.dump(val, f)


def observe(case, crash_at=None):
    """schedule + oracle of the real run (deterministic; cached per case, else re-run here)"""
    key = _key(case, crash_at)
    if key not in _OBS:
        if len(_OBS) > 20000:
            _OBS.clear()
        p = os.path.join(_SPOOL, hashlib.sha1(key.encode()).hexdigest())
        if os.path.exists(p):
            with open(p) as f:
                a, b = json.load(f)
            os.unlink(p)
            _OBS[key] = (a, b)
        else:
            if case.get("family", "lsm") in ("lsm", "crash"):
                rec, _lsm, _wal = I.run_lsm(case, crash_at=crash_at)
            else:
                rec, _tail = run_other(case)
            _OBS[key] = (list(rec.sched), list(rec.oracle))
    return _OBS[key]


def run_other(case):
    fam = case["family"]
    if fam == "txn":
        return S.run_txn(case)
    return S.run_store(case)


def sched_lines(sched, oracle):
    body = []
    if oracle:
        body.append("oracle " + " ".join(map(str, oracle)))
    for i in range(0, len(sched), 200):
        body.append("sched " + " ".join(map(str, sched[i:i + 200])))
    return body


class C14(core.Property):
    id = "C14"
    driver = "drv-c14"
    lake_targets = ["HappyProofs.C14.Props", "drv-c14"]
    audit_imports = ["HappyProofs.C14.Props"]
    lean_files = ["HappyModel/C14/*.lean", "HappyProofs/C14/*.lean", "HappyModel/Proto.lean", "Driver/C14.lean"]
    theorems = []
    quick_cases = 3000
    thorough_cases = 60000
    case_timeout_s = 20
    rule = ("five families, 45 % lsm / 15 % btree-sequential / 10 % btree-concurrent / 5 % kv / 25 % txn. "
            "btree: one client (≤ ~80 ops: 2–6 rounds of scrambled puts over 5–12 keys — strides, reversed, outside-in, random — "
            "with interleaved get/scan/size, then deletes) or 2–4 overlapping clients (writers growing the tree while readers sit in "
            "their page-read latency), orders 3–5; non-trivial when the tree reached depth ≥ 2. kv: 1–3 overlapping clients, 2–5 keys. "
            "txn: 2–5 transactions over 2–4 hot keys on a KVStore (36 %), an order-3/4 BTree (34 %, filler keys make commits split nodes) or an "
            "LSMTree without WAL (30 %, memtable 1–3, 2–3 levels, every compaction strategy: commits flush and compact, reads walk SSTables), "
            "isolation levels mixed or uniform, patterns write-skew / r-w cycle / lost update / long reader vs committing writers / random "
            "programs, commit calls 0,1,2,5,9,10,11,20,100 µs apart; in half of the cases 0–2 hot keys are absent from the initial store, and 22 % of "
            "the cases are insert-under-reader programs (1–2 early readers that read an existing key, sleep, then read 1–2 keys that a transaction "
            "beginning in between has INSERTED next to overwrites of existing keys; optionally a third transaction overwrites the new key again and "
            "a late reader begins after the insert); non-trivial when ≥ 2 clients and ≥ 1 commit. "
            "family lsm: 2–4 workers run scripts (≤40 ops in total) of put/delete/get/scan over 3–5 keys on a real LSMTree "
            "(memtable size 1–3, 2–4 levels, size-tiered / leveled / FIFO compaction, optional WAL with every sync policy, "
            "key names chosen so that the real bloom filters have false positives), start offsets and sleeps on a 250 µs grid "
            "against 0.5–3 ms SSTable latencies so that operations overlap flushes and compactions; a case is non-trivial when "
            "at least one SSTable exists at the end and some read overlaps some write in segment order; distinct = distinct case content")
    trusted_base = [
        "hv/props/c14_impl.py (worker entities, tracing wrapper that records one schedule entry per generator segment)",
        "the engine's choice of interleaving is an input to the model (its ordering rule is C01/C02)",
        "bloom filter answers enter the model as a table computed with the real SSTable bloom filter",
        "SyncPeriodic.should_sync answers are recorded and fed to the model (float time arithmetic not modelled)",
        "hv/props/c14_store.py (worker entities for BTree / KVStore / TransactionManager); the B-tree node structure compared with the "
        "model is read from the private BTree._root (the judge uses public results only)",
    ]
    assumptions = [
        "values written by puts are pairwise distinct in generated cases (a returned value names its write)",
        "a value returned by the implementation that is not a plain non-negative int (an object nobody wrote: a copied tombstone sentinel, a "
        "wrapped or stringified value) crosses the protocol as the reserved number 999999999 (c14_impl.vtok), which no workload writes, so the "
        "Spec reports it under its own clauses (value never written / invented value)",
        "operation intervals are measured in executed generator segments (a refinement of simulated time)",
        "page counts: every SSTable has < 16 keys, so every flush/compaction write costs one page (equal latencies)",
        "B-tree / KVStore keys are k00..k11 (index order = string order); transaction values are pairwise distinct and differ from "
        "the initial values; every transaction slot is begun once and used by one client",
        "serial-order search enumerates all permutations of the committed transactions (≤ 5 per case)",
    ]
    hypotheses = [
        "flushes_install_in_start_order (abs_flush_install): the SSTable being installed belongs to the oldest frozen memtable; "
        "holds in the engine because every flush write costs one page (equal latencies, FIFO ties)",
        "frozen memtable identities are pairwise distinct (abs_flush_install)",
        "Uniq: keys of every source SSTable are pairwise distinct (abs_compact_partial)",
        "3 ≤ order (btree_refines_map, btree_sorted; BTree.__init__ rejects smaller orders)",
        "ok / ok_put / get_put (serializable_commit_order, snapshot_reads_consistent): the store obeys the map laws; discharged for the "
        "KVStore dict (kv_laws), for every B-tree of order ≥ 3 satisfying the search-tree invariant (bt_laws, btOk_built) and for every LSM tree "
        "without WAL and with ≥ 2 levels built by put_sync from the empty tree (lsm_laws, lsmOk_built: put_sync is the segments of put run "
        "back to back on a quiescent tree)",
        "DistinctS / KeysBelow (store_read_regular, btree_read_regular, kv_read_regular, final_reads_regular): operation ids and put values "
        "pairwise distinct, written keys < nkeys (used only for the upper bound of the size clause); the store starts as an empty B-tree of "
        "order ≥ 3 or an empty KVStore. NO hypothesis on the schedule",
        "WFProg (txn_trace_satisfies_spec*): operation ids distinct; per slot the begin comes first and once, nothing follows its commit/abort",
        "SlotSeq (txn_trace_satisfies_spec*; decidable companion slotSeqB, slotSeq_of_B): whenever a segment of an operation is executed, the "
        "operations of the same slot declared before it are done — one client per transaction; operations of different transactions "
        "interleave arbitrarily",
        "Quiesced (txn_trace_satisfies_spec*): every operation that started has completed when the schedule ends (a run that stops between "
        "the two segments of a successful commit has applied writes that the transcript does not report as committed)",
        "NoRC (txn_trace_satisfies_spec_lsm): no transaction of the program is READ_COMMITTED (over the LSM store a READ_COMMITTED get suspended "
        "across a commit of its key returns the old cell; the judge has no clause for such reads); cfg.wal = none, 2 ≤ max_levels",
    ]
    partial_theorems = {
        "read_regular (hypotheses, not gaps)": "read_regular / deleted_stay_deleted / scan_sorted_live are proved for the model over every schedule of "
                               "segments (HappyModel.C14.read_regular: judgeOps of the model's own observations = none; read_regular_sem is the same in terms "
                               "of the ghost log of memtable inserts) under explicit hypotheses: InOrder (flushes install in start order — every flush that "
                               "installs belongs to the oldest frozen memtable; holds in the engine because every flush write costs one page), DistinctPuts "
                               "(operation ids and put values pairwise distinct), 2 <= max_levels. abs_compact (install step of a compaction) is proved under "
                               "CompactPre, and compactPre_run proves CompactPre for every suspended compaction of every run (SSTables sorted, levels >= 1 "
                               "key-disjoint, one compaction in flight, tombstones dropped only at the deepest level). Not covered by a theorem: that the "
                               "implementation runs the model's segments (checked by comparison on every case).",
        "btree_read_regular / txn_trace_satisfies_spec (run level; hypotheses and remaining gaps)": "PROVED at run level, unbounded: "
                               "(a) SM.SR.store_read_regular / btree_read_regular / kv_read_regular — for every workload (DistinctS, KeysBelow), an empty "
                               "B-tree of any order >= 3 or an empty KVStore and EVERY schedule of generator segments, judgeStore (reads, scans, delete flags, "
                               "sizes) of the observations of stepS under runFrames is none; final_reads_regular covers the get_sync/size observations the "
                               "harness appends; store_refines_log: get_sync after any run is the newest ghost-log write per key and the tree invariant holds. "
                               "(b) SM.txn_trace_satisfies_spec (_kv, _btree, _gen) — for every program (WFProg), initial contents, KVStore or B-tree of order "
                               ">= 3 and every schedule with SlotSeq and Quiesced, judgeTxn (own writes, final store = committed writes in commit order, "
                               "serializable reads, snapshot reads; READ_COMMITTED as the judge has it: own-write and final-store clauses only) of the "
                               "observation tobsOf of stepT under runFrames is none; reads suspended in the store's get while other transactions commit (and, "
                               "for the B-tree, split nodes) are covered. The proof goes machine facts (machFacts_run: timed ghost log + Inv/Inv2 along the "
                               "run) -> observation facts (txnFacts_of_run) -> judge (judgeTxn_of_facts: the commit order itself is the serial witness). "
                               "NOT proved: (1) LSM-backed transactions whose get is suspended at a page read while another transaction commits (the atomic "
                               "theorems cover lsm_get_first_segment / lsm_get_quiescent; the clause is checked by the judge on every case); (2) obsOfS / "
                               "extraOfS / tobsOf are proof-side mirrors of DriverStore.judgeStoreMode / judgeTxnMode without the text layer (parsing of the "
                               "transcript lines is executable glue, as obsOf is for the LSM family); (3) runs that are not Quiesced and schedules that "
                               "interleave the operations of one transaction are outside the transaction theorem (the harness runs one client per slot and "
                               "drains the simulation); (4) that the implementation runs the model's segments (checked by comparison on every case). "
                               "LSM-backed transactions (gap 1), state after the final proof round: the machine layer is re-proved without the one-segment-get "
                               "hypothesis (SM.LM.machFacts_run / txn_trace_satisfies_spec_side: for ANY store obeying the map laws, judgeTxn of the run's "
                               "transcript is none provided a side invariant J of manager+frames is supplied with (J1) a read completing in its first segment and "
                               "(J2) a suspended read that completes return fetchVal of the state at that segment, (J3) J is preserved by every segment under the "
                               "run invariant, (J4) J holds initially). The LSM ingredients of such a J are proved: putSync_rb / applyWrites_rb (the reader "
                               "invariant RB of a get suspended at a page read survives put_sync — insert, flush, compaction back to back — and a whole commit "
                               "application; the cells it may still return grow exactly by the cells the commit wrote to its key) and sv_commit (for a "
                               "SNAPSHOT_ISOLATION / SERIALIZABLE reader each such cell is as good as the current value: undoing the commit log to the snapshot "
                               "gives the same result). NOT done: instantiating J for Store.lsm (obligations J1-J4, i.e. txn_trace_satisfies_spec_lsm itself) — "
                               "J3 needs the case analysis of stepT per operation kind with 'an in-flight reader has another slot than a starting operation'. "
                               "READ_COMMITTED readers over the LSM store are a genuine exception to 'result = fetchVal at completion': a get suspended across a "
                               "commit of its key returns the OLD cell; the judge has no clause for READ_COMMITTED reads, so this is not a violation, but the "
                               "LSM theorem will need NoRC or a weaker read_res for rc. Quiesced: if the schedule stops between the two segments of a successful "
                               "commit, the commit frame has b but no e, judgeTxnMode drops it (completed operations only), the TObs has commit = none, the "
                               "commit order lacks it while the final store has its writes, and judgeTxn answers txn/final/store-is-not-the-committed-writes "
                               "(when the writes are visible in keys < nkeys) — so Quiesced cannot be dropped for the final-store clause; it could be weakened "
                               "to 'no commit frame is at .fin' (reads, writes and begins may be cut anywhere), which machFacts_of_rinv uses only in commit_ev/done_e. "
                               "UPDATE (last step): J is instantiated — SM.LM.txn_trace_satisfies_spec_lsm is PROVED: LSM tree without WAL, >= 2 levels, any "
                               "compaction strategy and bloom table, every program with WFProg and NoRC (no READ_COMMITTED transaction), every schedule with "
                               "SlotSeq and Quiesced, including gets suspended at page reads across other transactions' commits (side invariant LJ: store "
                               "lsmOk between segments, every in-flight read carries RB with allowed cells SV; lj_step is obligation 3). Remaining for the LSM "
                               "store: READ_COMMITTED readers (see above), trees with a WAL (the transaction family uses none).",
    }

    def generate(self, rng: random.Random, i: int, tier: str) -> dict:
        m = i % 20
        if m < 9:
            return gen_lsm_case(rng, tier)
        if m < 12:
            return S.gen_btree_seq(rng, tier)
        if m < 14:
            return S.gen_btree_conc(rng, tier)
        if m < 15:
            return S.gen_kv(rng, tier)
        return S.gen_txn(rng, tier)

    # ------------------------------------------------------------------ implementation
    def run_impl(self, case):
        if case.get("family", "lsm") != "lsm":
            rec, tail = run_other(case)
            remember(case, None, rec)
            return S.op_lines(rec) + tail
        rec, lsm, _wal = I.run_lsm(case)
        remember(case, None, rec)
        return I.op_lines(rec) + I.final_lines(case, lsm)

    # ------------------------------------------------------------------ model / judge
    def model_block(self, case, variant):
        sched, oracle = observe(case)
        fam = case.get("family", "lsm")
        if fam != "lsm":
            return ("txn" if fam == "txn" else "store", S.config_lines(case) + sched_lines(sched, []))
        return ("lsm", config_lines(case) + sched_lines(sched, oracle))

    def judge_other(self, case, impl_out):
        fam = case["family"]
        body = S.config_lines(case)
        n = 0
        for line in impl_out:
            t = line.split()
            if t[0] == "op":
                body.append(f"obs {t[1]} {t[2]} {t[3]} {t[4]}")
                n = max(n, int(t[2]) + 1, (int(t[3]) + 1) if t[3] != "x" else 0)
            elif t[0] == "final":
                if fam == "txn":
                    body.append(line)
                else:
                    # the final get_sync of every key is a read that begins after everything else
                    for k, v in enumerate(t[1:]):
                        body.append(f"op {9000 + k} get {k}")
                        body.append(f"obs {9000 + k} {n + 1} {n + 1} {v}")
            elif t[0] == "size" and fam != "txn":
                body.append("op 9900 size")
                body.append(f"obs 9900 {n + 1} {n + 1} {t[1]}")
        return ("judge-txn" if fam == "txn" else "judge-store", body)

    def judge_block(self, case, impl_out):
        if not impl_out or impl_out[0].startswith("IMPL-"):
            return None
        if case.get("family", "lsm") != "lsm":
            return self.judge_other(case, impl_out)
        body = config_lines(case)
        n = 0
        for line in impl_out:
            t = line.split()
            if t[0] == "op":
                body.append(f"obs {t[1]} {t[2]} {t[3]} {t[4]}")
                n = max(n, int(t[2]) + 1, (int(t[3]) + 1) if t[3] != "x" else 0)
            elif t[0] == "final":
                # the final get_sync of every key is a read that begins after everything else
                for k, v in enumerate(t[1:]):
                    body.append(f"op {9000 + k} get {k}")
                    body.append(f"obs {9000 + k} {n + 1} {n + 1} {v}")
        return ("judge-lsm", body)

    def nontrivial_key(self, case, impl_out):
        fam = case.get("family", "lsm")
        if fam != "lsm":
            if not impl_out or impl_out[0].startswith("IMPL-"):
                return None
            if fam == "btree":
                ok = any(l.startswith("shape ") and int(l.split()[1]) >= 2 for l in impl_out)
            elif fam == "txn":
                ok = any(l.startswith("stats ") and int(l.split()[1]) >= 1 for l in impl_out) and len(case["workers"]) >= 2
            else:
                ok = True
            return json.dumps(case, sort_keys=True) if ok else None
        reads, writes, tables = [], [], False
        kinds = dict(declared_ops(case))
        for line in impl_out:
            t = line.split()
            if t[0] == "op" and t[3] != "x":
                (reads if kinds[int(t[1])][0] in ("get", "scan") else writes).append((int(t[2]), int(t[3])))
            elif t[0] == "levels":
                tables = any(not x.startswith("0:") for x in t[1:])
        if tables and any(rb <= we and wb <= re for rb, re in reads for wb, we in writes):
            return json.dumps(case, sort_keys=True)
        return None

    def shrink(self, case):
        ws = case["workers"]
        for i in range(len(ws)):
            if len(ws) > 1:
                c = dict(case)
                c["workers"] = ws[:i] + ws[i + 1:]
                yield c
        # chunks of operations first (long single-client scripts), then single operations
        for i, w in enumerate(ws):
            n = len(w["ops"])
            sizes = [z for z in (n // 2, n // 4, n // 8) if z >= 2]
            for z in sizes + [1]:
                for j in range(0, n, z):
                    c = dict(case)
                    c["workers"] = [dict(x) for x in ws]
                    c["workers"][i]["ops"] = w["ops"][:j] + w["ops"][j + z:]
                    yield c
        for i, w in enumerate(ws):
            if w["start"] > 0:
                c = dict(case)
                c["workers"] = [dict(x) for x in ws]
                c["workers"][i]["start"] = 0
                yield c

    def mutate(self, case, rng):
        c = json.loads(json.dumps(case))
        for _ in range(rng.randint(1, 3)):
            w = rng.choice(c["workers"])
            r = rng.random()
            if r < 0.35:
                steps = [-1, 1, 2, -2, 5, 10, -10] if c.get("family") == "txn" else [-250, 250, -1000, 1000, 10]
                w["start"] = max(0, w["start"] + rng.choice(steps))
            elif r < 0.6 and w["ops"]:
                w["ops"].insert(rng.randrange(len(w["ops"])), ["sleep", rng.choice([0, 1, 5, 10, 11] if c.get("family") == "txn" else [0, 10, 250, 1000, 2010])])
            elif r < 0.8 and len(w["ops"]) > 1:
                del w["ops"][rng.randrange(len(w["ops"]))]
            elif "keys" in c:
                w["ops"].append(["get", rng.randrange(len(c["keys"]))])
            elif c["family"] != "txn":
                w["ops"].append(["get", rng.randrange(c["nkeys"])])
        return c


THEOREMS = [
    "HappyModel.C14.BT.btree_refines_map",
    "HappyModel.C14.BT.btree_sorted",
    "HappyModel.C14.BT.map_lookup_upsert",
    "HappyModel.C14.BT.map_lookup_erase",
    "HappyModel.C14.SM.serializable_commit_order",
    "HappyModel.C14.SM.snapshot_reads_consistent",
    "HappyModel.C14.SM.kv_laws",
    "HappyModel.C14.SM.bt_laws",
    "HappyModel.C14.SM.serializable_commit_order_kv",
    "HappyModel.C14.SM.serializable_commit_order_btree",
    "HappyModel.C14.SM.snapshot_reads_consistent_btree",
    "HappyModel.C14.putSync_spec",
    "HappyModel.C14.SM.lsm_laws",
    "HappyModel.C14.SM.lsmOk_init",
    "HappyModel.C14.SM.lsmOk_built",
    "HappyModel.C14.SM.serializable_commit_order_lsm",
    "HappyModel.C14.SM.snapshot_reads_consistent_lsm",
    "HappyModel.C14.SM.lsm_get_first_segment",
    "HappyModel.C14.SM.lsm_get_quiescent",
    "HappyModel.C14.SM.stepT_state",
    "HappyModel.C14.SM.readAdvance_fetch",
    "HappyModel.C14.abs_put",
    "HappyModel.C14.abs_delete",
    "HappyModel.C14.abs_flush_start",
    "HappyModel.C14.abs_flush_install",
    "HappyModel.C14.abs_compact_partial",
    "HappyModel.C14.abs_compact",
    "HappyModel.C14.lsm_inv_run",
    "HappyModel.C14.compactPre_run",
    "HappyModel.C14.abs_compact_run",
    "HappyModel.C14.compactions_exclusive",
    "HappyModel.C14.abs_step",
    "HappyModel.C14.abs_refines_log",
    "HappyModel.C14.read_regular_sem",
    "HappyModel.C14.judge_of_facts",
    "HappyModel.C14.read_regular",
    "HappyModel.C14.SM.sok_laws",
    "HappyModel.C14.SM.SR.rinv_step",
    "HappyModel.C14.SM.SR.store_refines_log",
    "HappyModel.C14.SM.SR.store_read_regular",
    "HappyModel.C14.SM.SR.btree_read_regular",
    "HappyModel.C14.SM.SR.kv_read_regular",
    "HappyModel.C14.SM.SR.final_reads_regular",
    "HappyModel.C14.SM.judgeTxn_of_facts",
    "HappyModel.C14.SM.txnFacts_of_mach",
    "HappyModel.C14.SM.txnFacts_of_run",
    "HappyModel.C14.SM.machFacts_run",
    "HappyModel.C14.SM.slotSeq_of_B",
    "HappyModel.C14.SM.txn_trace_of_mach",
    "HappyModel.C14.SM.txn_trace_satisfies_spec_gen",
    "HappyModel.C14.SM.txn_trace_satisfies_spec",
    "HappyModel.C14.SM.txn_trace_satisfies_spec_kv",
    "HappyModel.C14.SM.txn_trace_satisfies_spec_btree",
    "HappyModel.C14.SM.LM.machFacts_run",
    "HappyModel.C14.SM.LM.txn_trace_satisfies_spec_side",
    "HappyModel.C14.SM.LM.putSync_rb",
    "HappyModel.C14.SM.LM.applyWrites_rb",
    "HappyModel.C14.SM.LM.sv_commit",
    "HappyModel.C14.SM.LM.lj_step",
    "HappyModel.C14.SM.LM.txn_trace_satisfies_spec_lsm",
]
C14.theorems = THEOREMS
PROPERTY = C14()
