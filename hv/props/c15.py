"""C15 — durably acknowledged writes survive a crash at any point.

Correspondence: the C14 LSM workloads with a real `WriteAheadLog` under every sync policy.  One case
= one workload + one crash index k: the real simulation is run until exactly k generator segments
have executed (a crash between any two segments of any operations, including in the middle of a
flush or a compaction), then `crash()`, `recover_from_crash()`, read every key, `recover_from_crash()`
again, read, `crash()` + `recover_from_crash()` again, read.  The Lean model (`HappyModel/C14` + crash
/ recover in `Lsm.lean`, driver `HappyModel/C15/Driver.lean`) replays the same schedule prefix and
the same crash; transcripts are diffed.  The Lean Spec (`HappyModel/C15/Spec.lean`, `judgeCrashAck`) judges the
implementation's own reads against the write history.  Which writes count as durable is decided from what the
clients were told, not only from the log's own `synced_up_to`: a write whose `append` was told "sync now" by the
sync policy and went on after the sync latency (observed through recording subclasses of the real policies), and
under SyncEveryWrite every write whose `put()` / `delete()` returned, is durable — with every write of a smaller
sequence number (an fsync covers the entries appended before it).
A second family (`crashes`, 30 % of the cases) is a SEQUENCE of crashes on one tree and one log: 2–3 phases, each its own
worker scripts in a fresh `Simulation` over the same `LSMTree` / `WriteAheadLog` objects (operations in flight at a crash
are abandoned), each ended by crash / recover / read / recover / read / crash / recover / read.  The first crash usually
loses an unsynced tail or an append in flight, so the surviving log has a gap in its sequence numbers; later phases write,
flush (with other writers' entries fsynced during the flush's SSTable write latency) and compact over the recovered state.
Every phase is judged (`judgePhases`): the reads after the previous crash cycle are the durable baseline (one synthetic
completed durable write per key), values of earlier phases that are not in the baseline must not come back.
Quick tier samples crash indices per workload — always including the indices just after a write's last segment,
all of them for the sync-overlap bursts (writers whose fsyncs overlap) — thorough enumerates every index.
"""
from __future__ import annotations

import json
import random

from hv import core

# One case runs in well under a millisecond; the fork pool costs more than it saves and, on a loaded
# machine, stalls workers past case_timeout_s (observed: spurious IMPL-TIMEOUT).  hv/core.py reads
# this variable at call time; every ./check process runs a single property.
import os as _os
_os.environ.setdefault("HV_SERIAL", "1")
from hv.props import c14_impl as I
from hv.props.c14 import KEYSETS, config_lines, declared_ops, gen_lsm_case, gen_strategy, observe, remember, sched_lines, C14


def reads(case, lsm):
    out = []
    for k in case["keys"]:
        v = lsm.get_sync(k)
        out.append(I.vtok(v))
    return " ".join(out)


def gen_sync_overlap(rng, tier):
    """concurrent writers whose WAL appends reach their sync decision while another append's fsync is still in
    flight: start offsets and pauses are fractions of the sync latency; memtables mostly large enough that no flush
    moves the data to an SSTable, so an acknowledged write lives in the log only"""
    keys = rng.choice(KEYSETS)
    nk = len(keys)
    ws = rng.choice([300, 1000, 2500])
    ww = rng.choice([50, 100, 400])
    lat = {"r": rng.choice([500, 1000]), "w": rng.choice([1000, 2000]), "ww": ww, "ws": ws}
    gaps = [0, 10, ww, ws // 4, ws // 2, ws - 10, ws, ws + 10, ww + ws // 2]
    r = rng.random()
    wal = ["every"] if r < 0.6 else (["batch", rng.choice([1, 2, 2, 3])] if r < 0.85 else ["periodic", rng.choice([200, ws, 4000])])
    workers, v, t = [], 0, rng.choice([0, 0, 250, 1000])
    written = []
    for w in range(rng.choice([2, 2, 3, 4])):
        ops = []
        for j in range(rng.choice([1, 1, 2, 3])):
            if j or rng.random() < 0.3:
                ops.append(["sleep", rng.choice(gaps)])
            k = rng.randrange(nk)
            if written and rng.random() < 0.25:
                ops.append(["del", rng.choice(written)])
            else:
                v += 1
                ops.append(["put", k, v])
                written.append(k)
        workers.append({"start": t, "ops": ops})
        t += rng.choice(gaps)
    if rng.random() < 0.3:
        workers.append({"start": t + rng.choice([ws, 3 * ws]), "ops": [["get", rng.randrange(nk)], ["scan", 0, nk]]})
    return {"family": "crash", "keys": keys, "mem": rng.choice([1, 2, 4, 8, 8]), "levels": rng.choice([2, 3]),
            "strategy": gen_strategy(rng), "wal": wal, "lat": lat, "workers": workers}


def ack_points(base, sched):
    """crash indices right after the last segment of every write (its put()/delete() has just returned) and one
    and two segments later"""
    kinds = dict(declared_ops(base))
    last = {}
    for i, opid in enumerate(sched):
        last[opid] = i
    out = set()
    for opid, i in last.items():
        if kinds.get(opid, ["?"])[0] in ("put", "del"):
            out |= {i + 1, i + 2, i + 3}
    return {k for k in out if k <= len(sched)}


def config_lines_phases(case):
    body = config_lines(dict(case, workers=[]))
    for opid, op in I.phase_ops(case):
        body.append(f"op {opid} " + " ".join(map(str, op)))
    return body


def run_crashes(case):
    """-> (transcript lines, rec, bounds) of a multi-crash case"""
    out = []

    def on_crash(p, rec, lsm, wal, first):
        done = I.sync_done_ops(rec)
        out.append(f"phase {p}")
        mine = [opid for opid in sorted(rec.ops) if opid // 1000 == p]
        for opid in mine:
            op, b, e, r = rec.ops[opid][:4]
            out.append(f"op {opid} {b} {'x' if e is None else e} {'x' if r is None else r}")
        for opid in mine:
            e = rec.ops[opid]
            if e[0][0] in ("put", "del"):
                out.append(f"w {opid} {e[4]} {e[1]} {'x' if e[2] is None else e[2]} {1 if opid in done else 0}")
        out.append(f"synced {wal.synced_up_to}")
        out.append(f"appended {wal.stats.writes}")
        lsm.crash()
        lsm.recover_from_crash()
        out.append("r1 " + reads(case, lsm))
        out.append(f"walsize {wal.size}")
        lsm.recover_from_crash()
        out.append("r2 " + reads(case, lsm))
        lsm.crash()
        lsm.recover_from_crash()
        out.append("r3 " + reads(case, lsm))
        summ = {d["level"]: (d["sstables"], d["total_keys"]) for d in lsm.level_summary}
        out.append("levels " + " ".join(f"{summ.get(i, (0, 0))[0]}:{summ.get(i, (0, 0))[1]}" for i in range(case["levels"])))

    rec, bounds = I.run_phases(case, on_crash)
    return out, rec, bounds


_PH: dict = {}


def observe_phases(case):
    """(global schedule, oracle, phase bounds) of the real multi-crash run (deterministic; cached)"""
    key = json.dumps(case, sort_keys=True)
    if key not in _PH:
        if len(_PH) > 5000:
            _PH.clear()
        _out, rec, bounds = run_crashes(case)
        _PH[key] = (list(rec.sched), list(rec.oracle), bounds)
    return _PH[key]


def _phase_flush_overlap(rng, nk, p, lat):
    """one writer fills the memtable with distinct keys (a flush starts and spends its SSTable write latency), one or
    two others write — and get their WAL entries fsynced — while that flush is in flight: the flush's truncation
    bound lies below entries that so far live only in the log and the new memtable"""
    v = [1000 * p]

    def nv():
        v[0] += 1
        return v[0]

    ks = list(range(nk))
    rng.shuffle(ks)
    a = []
    for k in ks[:rng.choice([2, 3, nk])]:
        a.append(["put", k, nv()])
        if rng.random() < 0.3:
            a.append(["sleep", rng.choice([0, 10, lat["ww"]])])
    workers = [{"start": 0, "ops": a}]
    t_fill = len(a) * (lat["ww"] + 100)
    for _ in range(rng.choice([1, 1, 2])):
        ops = []
        for j in range(rng.choice([1, 2, 3])):
            if j and rng.random() < 0.5:
                ops.append(["sleep", rng.choice([0, 10, lat["ww"], lat["ws"] // 2])])
            ops.append(["put", rng.randrange(nk), nv()] if rng.random() < 0.85 else ["del", rng.randrange(nk)])
        workers.append({"start": rng.choice([t_fill // 2, t_fill, t_fill + lat["w"] // 4, t_fill + lat["w"] // 2, t_fill + lat["ws"]]), "ops": ops})
    return workers


def _phase_workers(rng, tier, nk, p, lat):
    """worker scripts of one phase over `nk` keys, values made distinct across phases"""
    r = rng.random()
    if r < 0.45:
        return _phase_flush_overlap(rng, nk, p, lat)
    if r < 0.6:
        src = gen_sync_overlap(rng, tier)
    else:
        src = gen_lsm_case(rng, tier, wal_force=True)
    ws = json.loads(json.dumps(src["workers"]))
    for w in ws:
        for op in w["ops"]:
            if op[0] in ("put", "del", "get"):
                op[1] %= nk
            elif op[0] == "scan":
                op[1] %= nk
                op[2] = min(max(op[2], op[1]), nk)
            if op[0] == "put":
                op[2] += 1000 * p
    return ws


def gen_crashes_base(rng, tier):
    """2–3 phases on one tree: the first crash usually loses something (an unsynced SyncOnBatch / SyncPeriodic tail or
    an append in flight), which leaves a gap in the WAL sequence numbers; later phases write on, flush and compact
    over the recovered state and crash again"""
    base = gen_sync_overlap(rng, tier) if rng.random() < 0.3 else gen_lsm_case(rng, tier, wal_force=True)
    nk = len(base["keys"])
    if rng.random() < 0.5:
        base["wal"] = rng.choice([["batch", 2], ["batch", 3], ["periodic", rng.choice([1500, 4000])], ["batch", 2]])
    if rng.random() < 0.6:
        base["mem"] = rng.choice([2, 2, 3, 3, 4, 6])
    if rng.random() < 0.5:
        # fsync faster than an SSTable write: writes issued during a flush are durable before the flush installs
        base["lat"] = dict(base["lat"], ws=rng.choice([100, 300]), w=rng.choice([2000, 3000]))
    phases = [{"workers": base["workers"], "crash": None}]
    for p in range(1, rng.choice([2, 2, 3])):
        phases.append({"workers": _phase_workers(rng, tier, nk, p, base["lat"]), "crash": None})
    case = {k: v for k, v in base.items() if k != "workers"}
    case["family"] = "crashes"
    case["phases"] = phases
    return case


def pick_crashes(rng, base, dense):
    """choose the crash index of every phase in turn (each phase's length depends on the earlier crash points)"""
    case = json.loads(json.dumps(base))
    for p in range(len(case["phases"])):
        probe = dict(case, phases=case["phases"][:p + 1])
        probe["phases"][p] = dict(probe["phases"][p], crash=None)
        sched, _, bounds = observe_phases(probe)
        first, last = bounds[p]
        n = last - first
        kinds = dict(I.phase_ops(case))
        lastseg = {}
        for i in range(first, last):
            lastseg[sched[i]] = i - first
        acks = sorted({i + d for opid, i in lastseg.items() if kinds.get(opid, ["?"])[0] in ("put", "del") for d in (1, 2, 3) if i + d <= n})
        firstseg = {}
        for i in range(last - 1, first - 1, -1):
            firstseg[sched[i]] = i - first
        # 1–2 segments into a write: its WAL entry is appended but its sync has not completed — a crash here loses it
        # and leaves a gap in the sequence numbers of the surviving log
        inflight = sorted({i + d for opid, i in firstseg.items() if kinds.get(opid, ["?"])[0] in ("put", "del") for d in (1, 2) if i + d <= n})
        r = rng.random()
        lastphase = p == len(case["phases"]) - 1
        if n == 0 or r < 0.15:
            k = None                                   # the phase runs to its end (an unsynced tail may remain)
        elif not lastphase and r < 0.6 and inflight:
            k = rng.choice(inflight)
        elif r < (0.5 if lastphase else 0.75) and acks:
            k = rng.choice(acks)
        else:
            k = rng.randint(1, n)
        case["phases"][p]["crash"] = k
    return case


class C15(core.Property):
    id = "C15"
    driver = "drv-c15"
    lake_targets = ["HappyProofs.C15.Props", "HappyProofs.C15.MultiFull", "HappyProofs.C15.MultiFullEx", "drv-c15"]
    audit_imports = ["HappyProofs.C15.Props", "HappyProofs.C15.MultiFull"]
    lean_files = ["HappyModel/C14/*.lean", "HappyModel/C15/*.lean", "HappyProofs/C14/*.lean", "HappyProofs/C15/*.lean",
                  "HappyModel/Proto.lean", "Driver/C15.lean"]
    theorems = []
    quick_cases = 3000
    thorough_cases = 60000
    case_timeout_s = 20
    rule = ("family crash: a C14 LSM workload (2–4 workers, ≤40 put/delete/get/scan over 3–5 keys, memtable 1–3, 2–4 levels, "
            "every compaction strategy) with a real WriteAheadLog under SyncEveryWrite / SyncOnBatch(1–3) / SyncPeriodic, and a crash "
            "index k = number of generator segments executed before crash(); 30 % of the workloads are sync-overlap bursts (2–4 writers, "
            "1–3 writes each, start offsets and pauses 0 / 10 µs / write latency / ¼, ½, 1 sync latency ± 10 µs apart so that an append "
            "reaches its sync decision while another append's fsync is in flight; memtable 1–8; 60 % SyncEveryWrite); quick: 6 sampled k "
            "per workload (always 0-th, last and random ones) plus the indices 1–3 segments after the last segment of a write (its "
            "acknowledgement) — all of them for the bursts, 4 sampled otherwise; thorough: every k of every workload. family crashes (30 %): "
            "2–3 phases over one tree and log (first phase as above, often re-drawn to SyncOnBatch(2–3) / SyncPeriodic, memtable 2–6, fsync "
            "faster than an SSTable write; later phases: 45 % flush-overlap scripts — one writer fills the memtable with distinct keys, 1–2 others "
            "write 1–3 entries 0.5–1 fill times / ¼–½ flush latencies later —, else sync-overlap bursts or general scripts, values offset by "
            "1000·phase); 10 crash-index vectors per workload (40 in thorough): per phase 15 % run to the end, non-final phases 45 % 1–2 segments "
            "into a write (append in flight: lossy crash, sequence gap), else 1–3 segments after a write's last segment or uniform; non-trivial when at least one WAL sync had completed and at least one "
            "write was started before the crash; distinct = distinct (workload, k)")
    trusted_base = C14.trusted_base + [
        "WAL sequence number of a write = wal.stats.writes + 1 read just before the operation starts (public API)",
        "sync decisions are observed through the SyncPolicy object handed to the WriteAheadLog (recording subclasses of the three "
        "real policies, hv/props/c14_impl.py make_policy)",
    ]
    assumptions = [
        "values written by puts are pairwise distinct in generated cases",
        "a value returned by the implementation that is not a plain non-negative int (an object nobody wrote: a copied tombstone sentinel, a "
        "wrapped or stringified value) crosses the protocol as the reserved number 999999999 (c14_impl.vtok), which no workload writes, so the "
        "Spec reports it under its own clauses (value never written / invented value)",
        "a write is durable iff its WAL sequence number ≤ wal.synced_up_to at the crash, or ≤ the sequence number of a write whose sync "
        "the clients saw complete (the sync policy answered 'sync now' inside that write and the write went on after the sync latency; "
        "under SyncEveryWrite also: its put()/delete() returned) — an fsync covers every entry appended before it",
        "operations in flight at a crash are abandoned (their generators are never resumed); a later phase of a multi-crash case runs in a "
        "fresh Simulation over the same LSMTree / WriteAheadLog objects, 100 s of simulated time after the previous phase began",
        "multi-crash cases: the reads after a crash cycle are the durable baseline of the next phase (they are served from the surviving log "
        "or from SSTables; the third read of every cycle — after a second crash + recover — checks exactly that)",
    ]
    hypotheses = [
        "multi_crash_spec_full_proved, per phase: InOrder and syncsInOrderB along the phase's schedule from the system the phase starts from; a "
        "phase schedules only operations that had not started before it (operations in flight at a crash are abandoned — true of the harness: "
        "every phase runs new worker scripts in a fresh Simulation); operation ids < 900000 (the id space of the baseline records)",
        "syncsInOrderB (sync_done_durable, acked_every_sync_done, ack_bound_le_synced, crash_spec_ack): sync completions happen in the order of "
        "their WAL sequence numbers — WriteAheadLog.append sets synced_up_to := its own sequence number after the sync latency, which is "
        "monotone only then; holds in the engine because every sync costs the same latency and equal times are served first-in first-out "
        "(a schedule violating it is exhibited in Props.lean: ackBound exceeds synced)",
        "trunc_bound_lt_pending: the sequence number is pending (appended, not yet applied to a memtable) or not yet handed out, and >= 1",
    ]
    partial_theorems = {
        "crash_spec (hypotheses, not gaps)": "durable_survive, no_resurrection, no_invention and recover_idempotent are proved for the model for every workload, "
                                   "sync policy, schedule and crash index (HappyModel.C15.crash_spec / crash_spec_at_every_index: judgeCrash of the model's own "
                                   "crash observations = none; crash_facts_run, durable_survive, no_resurrection are the same in terms of the operations of the run) "
                                   "under explicit hypotheses: a WAL is configured (cfg.wal = some p, any policy p), InOrder (flushes install in start order), "
                                   "DistinctPuts (operation ids and put values pairwise distinct), 2 <= max_levels. The run invariant is WInv (WalInv.lean): every "
                                   "memtable insert is still in the log or already in an installed SSTable with sequence number <= the truncation point, and a "
                                   "flush's bound is below every pending sequence number. Not covered by a theorem: that the implementation runs the model's "
                                   "segments (checked by comparison on every case and every crash index).",
        "crash_spec_ack (hypotheses, not gaps)": "the Spec the check evaluates is judgeCrashAck: durability judged from acknowledgements (a write whose append was told "
                                   "to sync and went on after the sync latency, and under SyncEveryWrite every write whose put()/delete() returned, is durable together "
                                   "with every write of a smaller sequence number) as well as from synced_up_to. crash_spec_ack / crash_spec_ack_at_every_index: the "
                                   "model's own observations satisfy it for every workload, policy, schedule and crash index under the crash_spec hypotheses plus "
                                   "syncsInOrderB; sync_done_durable / acked_every_sync_done: every such write has sequence number <= synced_up_to in the model.",
        "multi_crash_spec_full (hypotheses, not gaps)": "sequences of crashes (HappyModel/C15/Phases.lean, judgePhases): multi_crash_spec_full_proved (MultiFull.lean) proves "
                                   "the statement multi_crash_spec_full in full — the model's own observations of every phase of every sequence of crashes satisfy the "
                                   "whole predicate judgePhases (durable_survive, no_resurrection, no_invention, recover_idempotent, baseline and earlier-phase values), "
                                   "for every workload, policy, number of phases and schedule, with flushes and compactions installing after a crash, lossy crashes "
                                   "(sequence gaps), abandoned operations, stuck _compacting / _wal_pending. Hypotheses per phase, from the system the phase starts from: "
                                   "InOrder, syncsInOrderB, a phase schedules only operations that had not started before it (in-flight operations are abandoned), "
                                   "operation ids below the baseline id space, a WAL is configured, 2 <= max_levels, DistinctPuts. Proof: the dead frames are dropped by a "
                                   "simulation lemma (run_live), the run invariants are generalised to a recovered state (SysInvB with exclusivity <=, LInvB / WInvB with "
                                   "base events that have no frame: one per surviving log entry and per SSTable entry; linvB_step, winvB_run), recovered_casesB gives the "
                                   "per-key facts, later_phase_judgeB the judge link and the hand-over to the next phase. multi_crash_spec_partial (ghost-log-free proof "
                                   "under NoInstall) and the state-level / all-phases lemmas (crash_keeps_nextSeq, crash_wal, flushInstall_keeps_newer, "
                                   "phase_recover_idempotent, phase_no_invention, idle_phase_after) remain as independent results. Not covered by a theorem: that the "
                                   "implementation runs the model's segments (compared after every crash of every case).",
        "no_invention": "state level (HappyModel.C15.no_invention): a recovered cell is the cell of a surviving log entry of that key or is held by an SSTable; "
                        "run level: crash_facts_run gives a started put of the workload for every recovered value.",
    }

    def __init__(self):
        self._queue = []

    def generate(self, rng: random.Random, i: int, tier: str) -> dict:
        if not self._queue and rng.random() < 0.3:
            base = gen_crashes_base(rng, tier)
            for _ in range(10 if tier == "quick" else 40):
                self._queue.append(pick_crashes(rng, base, tier != "quick"))
            self._queue.reverse()
        if not self._queue:
            overlap = rng.random() < 0.3
            base = gen_sync_overlap(rng, tier) if overlap else gen_lsm_case(rng, tier, wal_force=True)
            base["family"] = "crash"
            sched, _ = observe(dict(base, crash=None))
            n = len(sched)
            if tier == "thorough":
                ks = list(range(n + 1))
            else:
                ks = {0 if rng.random() < 0.1 else rng.randint(1, max(1, n)), n} | {rng.randint(0, n) for _ in range(5)}
                acks = sorted(ack_points(base, sched))
                # densely after acknowledgements: all of them for the sync-overlap workloads, a sample otherwise
                ks |= set(acks if overlap and len(acks) <= 24 else rng.sample(acks, k=min(len(acks), 4)))
                ks = sorted(ks)
            for k in ks:
                self._queue.append(dict(base, crash=k))
            self._queue.reverse()
        return self._queue.pop()

    # ------------------------------------------------------------------ implementation
    def run_impl(self, case):
        if case.get("family") == "crashes":
            out, rec, bounds = run_crashes(case)
            _PH[json.dumps(case, sort_keys=True)] = (list(rec.sched), list(rec.oracle), bounds)
            return out
        k = case.get("crash")
        rec, lsm, wal = I.run_lsm(case, crash_at=k)
        remember(case, k, rec)
        out = I.op_lines(rec)
        done = I.sync_done_ops(rec)
        for opid in sorted(rec.ops):
            e = rec.ops[opid]
            if e[0][0] in ("put", "del"):
                out.append(f"w {opid} {e[4]} {e[1]} {'x' if e[2] is None else e[2]} {1 if opid in done else 0}")
        out.append(f"synced {wal.synced_up_to}")
        out.append(f"appended {wal.stats.writes}")
        lsm.crash()
        lsm.recover_from_crash()
        out.append("r1 " + reads(case, lsm))
        out.append(f"walsize {wal.size}")
        lsm.recover_from_crash()
        out.append("r2 " + reads(case, lsm))
        lsm.crash()
        lsm.recover_from_crash()
        out.append("r3 " + reads(case, lsm))
        summ = {d["level"]: (d["sstables"], d["total_keys"]) for d in lsm.level_summary}
        out.append("levels " + " ".join(f"{summ.get(i, (0, 0))[0]}:{summ.get(i, (0, 0))[1]}" for i in range(case["levels"])))
        return out

    # ------------------------------------------------------------------ model / judge
    def model_block(self, case, variant):
        if case.get("family") == "crashes":
            sched, oracle, bounds = observe_phases(case)
            body = config_lines_phases(case)
            if oracle:
                body.append("oracle " + " ".join(map(str, oracle)))
            for first, last in bounds:
                body += sched_lines(sched[first:last], [])
                body.append("crashpoint")
            return ("crashes", body)
        sched, oracle = observe(case, crash_at=case.get("crash"))
        return ("crash", config_lines(case) + sched_lines(sched, oracle))

    def model_postprocess(self, case, out):
        return out

    def judge_block(self, case, impl_out):
        if not impl_out or impl_out[0].startswith("IMPL-"):
            return None
        if case.get("family") == "crashes":
            body = config_lines_phases(case)
            for line in impl_out:
                if line.split()[0] in ("phase", "w", "synced", "r1", "r2", "r3"):
                    body.append(line)
            return ("judge-crashes", body)
        body = config_lines(case)
        for line in impl_out:
            if line.split()[0] in ("w", "synced", "r1", "r2", "r3"):
                body.append(line)
        return ("judge-crash", body)

    def run_impl_lines_for_diff(self, out):
        return out

    def nontrivial_key(self, case, impl_out):
        if case.get("family") == "crashes":
            # at least two crashes, a write started in the last phase, and a sync completed somewhere
            nph = sum(1 for l in impl_out if l.startswith("phase "))
            last = max((i for i, l in enumerate(impl_out) if l.startswith("phase ")), default=0)
            ok = nph >= 2 and any(l.startswith("w ") for l in impl_out[last:]) and any(l.startswith("synced ") and l != "synced 0" for l in impl_out)
            return json.dumps(case, sort_keys=True) if ok else None
        synced = 0
        nw = 0
        for line in impl_out:
            t = line.split()
            if t[0] == "synced":
                synced = int(t[1])
            elif t[0] == "w":
                nw += 1
        if synced > 0 and nw > 0:
            return json.dumps(case, sort_keys=True)
        return None

    def shrink(self, case):
        if case.get("family") == "crashes":
            phs = case["phases"]
            if len(phs) > 1:
                yield dict(case, phases=phs[:-1])
            for p, ph in enumerate(phs):
                sub = dict(case, workers=ph["workers"])
                for c in C14.shrink(self, sub):
                    c2 = dict(case)
                    c2["phases"] = [dict(x) for x in phs]
                    c2["phases"][p]["workers"] = c["workers"]
                    yield c2
                k = ph.get("crash")
                for k2 in ([k - 1, k // 2] if k else []):
                    c2 = dict(case)
                    c2["phases"] = [dict(x) for x in phs]
                    c2["phases"][p]["crash"] = k2
                    yield c2
            return
        for c in C14.shrink(self, case):
            yield c
        k = case.get("crash")
        if k:
            for k2 in (k - 1, k // 2):
                c = dict(case)
                c["crash"] = k2
                yield c

    def mutate(self, case, rng):
        if case.get("family") == "crashes":
            c = json.loads(json.dumps(case))
            ph = rng.choice(c["phases"])
            if rng.random() < 0.6:
                ph["crash"] = max(0, (ph["crash"] if ph["crash"] is not None else 20) + rng.choice([-3, -1, 1, 2, 5]))
            else:
                sub = C14.mutate(self, dict(c, workers=ph["workers"]), rng)
                ph["workers"] = sub["workers"]
            return c
        c = C14.mutate(self, case, rng)
        if c.get("crash") is not None and rng.random() < 0.5:
            c["crash"] = max(0, c["crash"] + rng.choice([-3, -1, 1, 2, 5]))
        return c


THEOREMS = [
    "HappyModel.C15.crash_recover_read",
    "HappyModel.C15.durable_survive_partial",
    "HappyModel.C15.no_invention",
    "HappyModel.C15.recover_idempotent",
    "HappyModel.C15.recover_crash_idempotent",
    "HappyModel.C15.trunc_bound_lt_pending",
    "HappyModel.C15.winv_step",
    "HappyModel.C15.crash_invariants",
    "HappyModel.C15.crash_facts_run",
    "HappyModel.C15.durable_survive",
    "HappyModel.C15.no_resurrection",
    "HappyModel.C15.judgeCrash_of_facts",
    "HappyModel.C15.crash_spec",
    "HappyModel.C15.crash_spec_at_every_index",
    "HappyModel.C15.syncDoneRun_fst",
    "HappyModel.C15.sync_done_durable",
    "HappyModel.C15.acked_every_sync_done",
    "HappyModel.C15.ack_bound_le_synced",
    "HappyModel.C15.crash_spec_ack",
    "HappyModel.C15.crash_spec_ack_at_every_index",
    "HappyModel.C15.crash_keeps_nextSeq",
    "HappyModel.C15.crash_wal",
    "HappyModel.C15.flushInstall_keeps_newer",
    "HappyModel.C15.flushInstall_wal_sub",
    "HappyModel.C15.recovered_is_durable",
    "HappyModel.C15.phase_recover_idempotent",
    "HappyModel.C15.phase_no_invention",
    "HappyModel.C15.idle_phase_keeps_baseline",
    "HappyModel.C15.idle_phase_after",
    "HappyModel.C15.multi_crash_first_phase",
    "HappyModel.C15.multi_crash_first_of_runPhases",
    "HappyModel.C15.noInstall_of_B",
    "HappyModel.C15.pinv_run",
    "HappyModel.C15.later_phase_facts",
    "HappyModel.C15.kstart_next",
    "HappyModel.C15.judgePhase_of_facts",
    "HappyModel.C15.later_phase_judge",
    "HappyModel.C15.judgePhases_later",
    "HappyModel.C15.kstart_first",
    "HappyModel.C15.multi_crash_spec_partial",
    "HappyModel.C15.run_live",
    "HappyModel.C14.sysInvB_step",
    "HappyModel.C14.linvB_step",
    "HappyModel.C15.winvB_run",
    "HappyModel.C15.recovered_casesB",
    "HappyModel.C15.later_phase_judgeB",
    "HappyModel.C15.multi_crash_spec_full_proved",
]
C15.theorems = THEOREMS
PROPERTY = C15()
