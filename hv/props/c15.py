"""C15 — durably acknowledged writes survive a crash at any point.

Correspondence: the C14 LSM workloads with a real `WriteAheadLog` under every sync policy.  One case
= one workload + one crash index k: the real simulation is run until exactly k generator segments
have executed (a crash between any two segments of any operations, including in the middle of a
flush or a compaction), then `crash()`, `recover_from_crash()`, read every key, `recover_from_crash()`
again, read, `crash()` + `recover_from_crash()` again, read.  The Lean model (`HappyModel/C14` + crash
/ recover in `Lsm.lean`, driver `HappyModel/C15/Driver.lean`) replays the same schedule prefix and
the same crash; transcripts are diffed.  The Lean Spec (`HappyModel/C15/Spec.lean`, `judgeCrashAck`) judges the
implementation's own reads against the write history.  Which writes count as durable is decided from what the
clients were told, not only from the log's own `synced_up_to`: a write whose `append` was told "sync now" by the
sync policy and went on after the sync latency (observed through recording subclasses of the real policies), and
under SyncEveryWrite every write whose `put()` / `delete()` returned, is durable — with every write of a smaller
sequence number (an fsync covers the entries appended before it).
Quick tier samples crash indices per workload — always including the indices just after a write's last segment,
all of them for the sync-overlap bursts (writers whose fsyncs overlap) — thorough enumerates every index.
"""
from __future__ import annotations

import json
import random

from hv import core

# One case runs in well under a millisecond; the fork pool costs more than it saves and, on a loaded
# machine, stalls workers past case_timeout_s (observed: spurious IMPL-TIMEOUT).  hv/core.py reads
# this variable at call time; every ./check process runs a single property.
import os as _os
_os.environ.setdefault("HV_SERIAL", "1")
from hv.props import c14_impl as I
from hv.props.c14 import KEYSETS, config_lines, declared_ops, gen_lsm_case, gen_strategy, observe, remember, sched_lines, C14


def reads(case, lsm):
    out = []
    for k in case["keys"]:
        v = lsm.get_sync(k)
        out.append("-" if v is None else str(v))
    return " ".join(out)


def gen_sync_overlap(rng, tier):
    """concurrent writers whose WAL appends reach their sync decision while another append's fsync is still in
    flight: start offsets and pauses are fractions of the sync latency; memtables mostly large enough that no flush
    moves the data to an SSTable, so an acknowledged write lives in the log only"""
    keys = rng.choice(KEYSETS)
    nk = len(keys)
    ws = rng.choice([300, 1000, 2500])
    ww = rng.choice([50, 100, 400])
    lat = {"r": rng.choice([500, 1000]), "w": rng.choice([1000, 2000]), "ww": ww, "ws": ws}
    gaps = [0, 10, ww, ws // 4, ws // 2, ws - 10, ws, ws + 10, ww + ws // 2]
    r = rng.random()
    wal = ["every"] if r < 0.6 else (["batch", rng.choice([1, 2, 2, 3])] if r < 0.85 else ["periodic", rng.choice([200, ws, 4000])])
    workers, v, t = [], 0, rng.choice([0, 0, 250, 1000])
    written = []
    for w in range(rng.choice([2, 2, 3, 4])):
        ops = []
        for j in range(rng.choice([1, 1, 2, 3])):
            if j or rng.random() < 0.3:
                ops.append(["sleep", rng.choice(gaps)])
            k = rng.randrange(nk)
            if written and rng.random() < 0.25:
                ops.append(["del", rng.choice(written)])
            else:
                v += 1
                ops.append(["put", k, v])
                written.append(k)
        workers.append({"start": t, "ops": ops})
        t += rng.choice(gaps)
    if rng.random() < 0.3:
        workers.append({"start": t + rng.choice([ws, 3 * ws]), "ops": [["get", rng.randrange(nk)], ["scan", 0, nk]]})
    return {"family": "crash", "keys": keys, "mem": rng.choice([1, 2, 4, 8, 8]), "levels": rng.choice([2, 3]),
            "strategy": gen_strategy(rng), "wal": wal, "lat": lat, "workers": workers}


def ack_points(base, sched):
    """crash indices right after the last segment of every write (its put()/delete() has just returned) and one
    and two segments later"""
    kinds = dict(declared_ops(base))
    last = {}
    for i, opid in enumerate(sched):
        last[opid] = i
    out = set()
    for opid, i in last.items():
        if kinds.get(opid, ["?"])[0] in ("put", "del"):
            out |= {i + 1, i + 2, i + 3}
    return {k for k in out if k <= len(sched)}


class C15(core.Property):
    id = "C15"
    driver = "drv-c15"
    lake_targets = ["HappyProofs.C15.Props", "drv-c15"]
    audit_imports = ["HappyProofs.C15.Props"]
    lean_files = ["HappyModel/C14/*.lean", "HappyModel/C15/*.lean", "HappyProofs/C14/*.lean", "HappyProofs/C15/*.lean",
                  "HappyModel/Proto.lean", "Driver/C15.lean"]
    theorems = []
    quick_cases = 3000
    thorough_cases = 60000
    case_timeout_s = 20
    rule = ("family crash: a C14 LSM workload (2–4 workers, ≤40 put/delete/get/scan over 3–5 keys, memtable 1–3, 2–4 levels, "
            "every compaction strategy) with a real WriteAheadLog under SyncEveryWrite / SyncOnBatch(1–3) / SyncPeriodic, and a crash "
            "index k = number of generator segments executed before crash(); 30 % of the workloads are sync-overlap bursts (2–4 writers, "
            "1–3 writes each, start offsets and pauses 0 / 10 µs / write latency / ¼, ½, 1 sync latency ± 10 µs apart so that an append "
            "reaches its sync decision while another append's fsync is in flight; memtable 1–8; 60 % SyncEveryWrite); quick: 6 sampled k "
            "per workload (always 0-th, last and random ones) plus the indices 1–3 segments after the last segment of a write (its "
            "acknowledgement) — all of them for the bursts, 4 sampled otherwise; thorough: every k of every workload; non-trivial when at least one WAL sync had completed and at least one "
            "write was started before the crash; distinct = distinct (workload, k)")
    trusted_base = C14.trusted_base + [
        "WAL sequence number of a write = wal.stats.writes + 1 read just before the operation starts (public API)",
        "sync decisions are observed through the SyncPolicy object handed to the WriteAheadLog (recording subclasses of the three "
        "real policies, hv/props/c14_impl.py make_policy)",
    ]
    assumptions = [
        "values written by puts are pairwise distinct in generated cases",
        "a write is durable iff its WAL sequence number ≤ wal.synced_up_to at the crash, or ≤ the sequence number of a write whose sync "
        "the clients saw complete (the sync policy answered 'sync now' inside that write and the write went on after the sync latency; "
        "under SyncEveryWrite also: its put()/delete() returned) — an fsync covers every entry appended before it",
        "the simulation is not continued after crash() (in-flight generators are abandoned)",
    ]
    hypotheses = [
        "syncsInOrderB (sync_done_durable, acked_every_sync_done, ack_bound_le_synced, crash_spec_ack): sync completions happen in the order of "
        "their WAL sequence numbers — WriteAheadLog.append sets synced_up_to := its own sequence number after the sync latency, which is "
        "monotone only then; holds in the engine because every sync costs the same latency and equal times are served first-in first-out "
        "(a schedule violating it is exhibited in Props.lean: ackBound exceeds synced)",
        "trunc_bound_lt_pending: the sequence number is pending (appended, not yet applied to a memtable) or not yet handed out, and >= 1",
    ]
    partial_theorems = {
        "crash_spec (hypotheses, not gaps)": "durable_survive, no_resurrection, no_invention and recover_idempotent are proved for the model for every workload, "
                                   "sync policy, schedule and crash index (HappyModel.C15.crash_spec / crash_spec_at_every_index: judgeCrash of the model's own "
                                   "crash observations = none; crash_facts_run, durable_survive, no_resurrection are the same in terms of the operations of the run) "
                                   "under explicit hypotheses: a WAL is configured (cfg.wal = some p, any policy p), InOrder (flushes install in start order), "
                                   "DistinctPuts (operation ids and put values pairwise distinct), 2 <= max_levels. The run invariant is WInv (WalInv.lean): every "
                                   "memtable insert is still in the log or already in an installed SSTable with sequence number <= the truncation point, and a "
                                   "flush's bound is below every pending sequence number. Not covered by a theorem: that the implementation runs the model's "
                                   "segments (checked by comparison on every case and every crash index).",
        "crash_spec_ack (hypotheses, not gaps)": "the Spec the check evaluates is judgeCrashAck: durability judged from acknowledgements (a write whose append was told "
                                   "to sync and went on after the sync latency, and under SyncEveryWrite every write whose put()/delete() returned, is durable together "
                                   "with every write of a smaller sequence number) as well as from synced_up_to. crash_spec_ack / crash_spec_ack_at_every_index: the "
                                   "model's own observations satisfy it for every workload, policy, schedule and crash index under the crash_spec hypotheses plus "
                                   "syncsInOrderB; sync_done_durable / acked_every_sync_done: every such write has sequence number <= synced_up_to in the model.",
        "no_invention": "state level (HappyModel.C15.no_invention): a recovered cell is the cell of a surviving log entry of that key or is held by an SSTable; "
                        "run level: crash_facts_run gives a started put of the workload for every recovered value.",
    }

    def __init__(self):
        self._queue = []

    def generate(self, rng: random.Random, i: int, tier: str) -> dict:
        if not self._queue:
            overlap = rng.random() < 0.3
            base = gen_sync_overlap(rng, tier) if overlap else gen_lsm_case(rng, tier, wal_force=True)
            base["family"] = "crash"
            sched, _ = observe(dict(base, crash=None))
            n = len(sched)
            if tier == "thorough":
                ks = list(range(n + 1))
            else:
                ks = {0 if rng.random() < 0.1 else rng.randint(1, max(1, n)), n} | {rng.randint(0, n) for _ in range(5)}
                acks = sorted(ack_points(base, sched))
                # densely after acknowledgements: all of them for the sync-overlap workloads, a sample otherwise
                ks |= set(acks if overlap and len(acks) <= 24 else rng.sample(acks, k=min(len(acks), 4)))
                ks = sorted(ks)
            for k in ks:
                self._queue.append(dict(base, crash=k))
            self._queue.reverse()
        return self._queue.pop()

    # ------------------------------------------------------------------ implementation
    def run_impl(self, case):
        k = case.get("crash")
        rec, lsm, wal = I.run_lsm(case, crash_at=k)
        remember(case, k, rec)
        out = I.op_lines(rec)
        done = I.sync_done_ops(rec)
        for opid in sorted(rec.ops):
            e = rec.ops[opid]
            if e[0][0] in ("put", "del"):
                out.append(f"w {opid} {e[4]} {e[1]} {'x' if e[2] is None else e[2]} {1 if opid in done else 0}")
        out.append(f"synced {wal.synced_up_to}")
        out.append(f"appended {wal.stats.writes}")
        lsm.crash()
        lsm.recover_from_crash()
        out.append("r1 " + reads(case, lsm))
        out.append(f"walsize {wal.size}")
        lsm.recover_from_crash()
        out.append("r2 " + reads(case, lsm))
        lsm.crash()
        lsm.recover_from_crash()
        out.append("r3 " + reads(case, lsm))
        summ = {d["level"]: (d["sstables"], d["total_keys"]) for d in lsm.level_summary}
        out.append("levels " + " ".join(f"{summ.get(i, (0, 0))[0]}:{summ.get(i, (0, 0))[1]}" for i in range(case["levels"])))
        return out

    # ------------------------------------------------------------------ model / judge
    def model_block(self, case, variant):
        sched, oracle = observe(case, crash_at=case.get("crash"))
        return ("crash", config_lines(case) + sched_lines(sched, oracle))

    def model_postprocess(self, case, out):
        return out

    def judge_block(self, case, impl_out):
        if not impl_out or impl_out[0].startswith("IMPL-"):
            return None
        body = config_lines(case)
        for line in impl_out:
            if line.split()[0] in ("w", "synced", "r1", "r2", "r3"):
                body.append(line)
        return ("judge-crash", body)

    def run_impl_lines_for_diff(self, out):
        return out

    def nontrivial_key(self, case, impl_out):
        synced = 0
        nw = 0
        for line in impl_out:
            t = line.split()
            if t[0] == "synced":
                synced = int(t[1])
            elif t[0] == "w":
                nw += 1
        if synced > 0 and nw > 0:
            return json.dumps(case, sort_keys=True)
        return None

    def shrink(self, case):
        for c in C14.shrink(self, case):
            yield c
        k = case.get("crash")
        if k:
            for k2 in (k - 1, k // 2):
                c = dict(case)
                c["crash"] = k2
                yield c

    def mutate(self, case, rng):
        c = C14.mutate(self, case, rng)
        if c.get("crash") is not None and rng.random() < 0.5:
            c["crash"] = max(0, c["crash"] + rng.choice([-3, -1, 1, 2, 5]))
        return c


THEOREMS = [
    "HappyModel.C15.crash_recover_read",
    "HappyModel.C15.durable_survive_partial",
    "HappyModel.C15.no_invention",
    "HappyModel.C15.recover_idempotent",
    "HappyModel.C15.recover_crash_idempotent",
    "HappyModel.C15.trunc_bound_lt_pending",
    "HappyModel.C15.winv_step",
    "HappyModel.C15.crash_invariants",
    "HappyModel.C15.crash_facts_run",
    "HappyModel.C15.durable_survive",
    "HappyModel.C15.no_resurrection",
    "HappyModel.C15.judgeCrash_of_facts",
    "HappyModel.C15.crash_spec",
    "HappyModel.C15.crash_spec_at_every_index",
    "HappyModel.C15.syncDoneRun_fst",
    "HappyModel.C15.sync_done_durable",
    "HappyModel.C15.acked_every_sync_done",
    "HappyModel.C15.ack_bound_le_synced",
    "HappyModel.C15.crash_spec_ack",
    "HappyModel.C15.crash_spec_ack_at_every_index",
]
C15.theorems = THEOREMS
PROPERTY = C15()
