"""C15 — durably acknowledged writes survive a crash at any point.

Correspondence: the C14 LSM workloads with a real `WriteAheadLog` under every sync policy.  One case
= one workload + one crash index k: the real simulation is run until exactly k generator segments
have executed (a crash between any two segments of any operations, including in the middle of a
flush or a compaction), then `crash()`, `recover_from_crash()`, read every key, `recover_from_crash()`
again, read, `crash()` + `recover_from_crash()` again, read.  The Lean model (`HappyModel/C14` + crash
/ recover in `Lsm.lean`, driver `HappyModel/C15/Driver.lean`) replays the same schedule prefix and
the same crash; transcripts are diffed.  The Lean Spec (`HappyModel/C15/Spec.lean`) judges the
implementation's own reads against the write history with sync-completion marks.
Quick tier samples crash indices per workload, thorough enumerates every index.
"""
from __future__ import annotations

import json
import random

from hv import core

# One case runs in well under a millisecond; the fork pool costs more than it saves and, on a loaded
# machine, stalls workers past case_timeout_s (observed: spurious IMPL-TIMEOUT).  hv/core.py reads
# this variable at call time; every ./check process runs a single property.
import os as _os
_os.environ.setdefault("HV_SERIAL", "1")
from hv.props import c14_impl as I
from hv.props.c14 import config_lines, declared_ops, gen_lsm_case, observe, remember, sched_lines, C14


def reads(case, lsm):
    out = []
    for k in case["keys"]:
        v = lsm.get_sync(k)
        out.append("-" if v is None else str(v))
    return " ".join(out)


class C15(core.Property):
    id = "C15"
    driver = "drv-c15"
    lake_targets = ["HappyProofs.C15.Props", "drv-c15"]
    audit_imports = ["HappyProofs.C15.Props"]
    lean_files = ["HappyModel/C14/*.lean", "HappyModel/C15/*.lean", "HappyProofs/C14/*.lean", "HappyProofs/C15/*.lean",
                  "HappyModel/Proto.lean", "Driver/C15.lean"]
    theorems = []
    quick_cases = 3000
    thorough_cases = 60000
    case_timeout_s = 20
    rule = ("family crash: a C14 LSM workload (2–4 workers, ≤40 put/delete/get/scan over 3–5 keys, memtable 1–3, 2–4 levels, "
            "every compaction strategy) with a real WriteAheadLog under SyncEveryWrite / SyncOnBatch(1–3) / SyncPeriodic, and a crash "
            "index k = number of generator segments executed before crash(); quick: 6 sampled k per workload (always 0-th, last and "
            "random ones), thorough: every k of every workload; non-trivial when at least one WAL sync had completed and at least one "
            "write was started before the crash; distinct = distinct (workload, k)")
    trusted_base = C14.trusted_base + [
        "WAL sequence number of a write = wal.stats.writes + 1 read just before the operation starts (public API)",
    ]
    assumptions = [
        "values written by puts are pairwise distinct in generated cases",
        "a write is durable iff its WAL sequence number ≤ wal.synced_up_to at the crash",
        "the simulation is not continued after crash() (in-flight generators are abandoned)",
    ]
    hypotheses = [
        "trunc_bound_lt_pending: the sequence number is pending (appended, not yet applied to a memtable) or not yet handed out, and >= 1",
    ]
    partial_theorems = {
        "crash_spec (hypotheses, not gaps)": "durable_survive, no_resurrection, no_invention and recover_idempotent are proved for the model for every workload, "
                                   "sync policy, schedule and crash index (HappyModel.C15.crash_spec / crash_spec_at_every_index: judgeCrash of the model's own "
                                   "crash observations = none; crash_facts_run, durable_survive, no_resurrection are the same in terms of the operations of the run) "
                                   "under explicit hypotheses: a WAL is configured (cfg.wal = some p, any policy p), InOrder (flushes install in start order), "
                                   "DistinctPuts (operation ids and put values pairwise distinct), 2 <= max_levels. The run invariant is WInv (WalInv.lean): every "
                                   "memtable insert is still in the log or already in an installed SSTable with sequence number <= the truncation point, and a "
                                   "flush's bound is below every pending sequence number. Not covered by a theorem: that the implementation runs the model's "
                                   "segments (checked by comparison on every case and every crash index).",
        "no_invention": "state level (HappyModel.C15.no_invention): a recovered cell is the cell of a surviving log entry of that key or is held by an SSTable; "
                        "run level: crash_facts_run gives a started put of the workload for every recovered value.",
    }

    def __init__(self):
        self._queue = []

    def generate(self, rng: random.Random, i: int, tier: str) -> dict:
        if not self._queue:
            base = gen_lsm_case(rng, tier, wal_force=True)
            base["family"] = "crash"
            sched, _ = observe(dict(base, crash=None))
            n = len(sched)
            if tier == "thorough":
                ks = list(range(n + 1))
            else:
                ks = sorted({0 if rng.random() < 0.1 else rng.randint(1, max(1, n)), n} | {rng.randint(0, n) for _ in range(5)})
            for k in ks:
                self._queue.append(dict(base, crash=k))
            self._queue.reverse()
        return self._queue.pop()

    # ------------------------------------------------------------------ implementation
    def run_impl(self, case):
        k = case.get("crash")
        rec, lsm, wal = I.run_lsm(case, crash_at=k)
        remember(case, k, rec)
        out = I.op_lines(rec)
        for opid in sorted(rec.ops):
            e = rec.ops[opid]
            if e[0][0] in ("put", "del"):
                out.append(f"w {opid} {e[4]} {e[1]} {'x' if e[2] is None else e[2]}")
        out.append(f"synced {wal.synced_up_to}")
        out.append(f"appended {wal.stats.writes}")
        lsm.crash()
        lsm.recover_from_crash()
        out.append("r1 " + reads(case, lsm))
        out.append(f"walsize {wal.size}")
        lsm.recover_from_crash()
        out.append("r2 " + reads(case, lsm))
        lsm.crash()
        lsm.recover_from_crash()
        out.append("r3 " + reads(case, lsm))
        summ = {d["level"]: (d["sstables"], d["total_keys"]) for d in lsm.level_summary}
        out.append("levels " + " ".join(f"{summ.get(i, (0, 0))[0]}:{summ.get(i, (0, 0))[1]}" for i in range(case["levels"])))
        return out

    # ------------------------------------------------------------------ model / judge
    def model_block(self, case, variant):
        sched, oracle = observe(case, crash_at=case.get("crash"))
        return ("crash", config_lines(case) + sched_lines(sched, oracle))

    def model_postprocess(self, case, out):
        return out

    def judge_block(self, case, impl_out):
        if not impl_out or impl_out[0].startswith("IMPL-"):
            return None
        body = config_lines(case)
        for line in impl_out:
            if line.split()[0] in ("w", "synced", "r1", "r2", "r3"):
                body.append(line)
        return ("judge-crash", body)

    def run_impl_lines_for_diff(self, out):
        return out

    def nontrivial_key(self, case, impl_out):
        synced = 0
        nw = 0
        for line in impl_out:
            t = line.split()
            if t[0] == "synced":
                synced = int(t[1])
            elif t[0] == "w":
                nw += 1
        if synced > 0 and nw > 0:
            return json.dumps(case, sort_keys=True)
        return None

    def shrink(self, case):
        for c in C14.shrink(self, case):
            yield c
        k = case.get("crash")
        if k:
            for k2 in (k - 1, k // 2):
                c = dict(case)
                c["crash"] = k2
                yield c

    def mutate(self, case, rng):
        c = C14.mutate(self, case, rng)
        if c.get("crash") is not None and rng.random() < 0.5:
            c["crash"] = max(0, c["crash"] + rng.choice([-3, -1, 1, 2, 5]))
        return c


THEOREMS = [
    "HappyModel.C15.crash_recover_read",
    "HappyModel.C15.durable_survive_partial",
    "HappyModel.C15.no_invention",
    "HappyModel.C15.recover_idempotent",
    "HappyModel.C15.recover_crash_idempotent",
    "HappyModel.C15.trunc_bound_lt_pending",
    "HappyModel.C15.winv_step",
    "HappyModel.C15.crash_invariants",
    "HappyModel.C15.crash_facts_run",
    "HappyModel.C15.durable_survive",
    "HappyModel.C15.no_resurrection",
    "HappyModel.C15.judgeCrash_of_facts",
    "HappyModel.C15.crash_spec",
    "HappyModel.C15.crash_spec_at_every_index",
]
C15.theorems = THEOREMS
PROPERTY = C15()
