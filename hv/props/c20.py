"""C20 — sketches keep one-sided guarantees and merge like the union of their inputs.

Correspondence: the real `BloomFilter`, `CountMinSketch`, `HyperLogLog`, `TopK`, `ReservoirSampler`,
`MerkleTree` and `TDigest` objects from /repo are driven through generated streams; the same streams
go to the Lean model (`HappyModel/C20`) together with the *real* hash values of the items used
(obtained by calling the sketch's own `_hash` helper), transcripts are diffed; the Lean Spec
predicates (`HappyModel/C20/Spec.lean`) judge the implementation's own outputs.
"""
from __future__ import annotations

import copy
import decimal
import fractions
import json
import random
import struct

from hv import core

# ----------------------------------------------------------------------------- item / key pools

KINDS = ["str", "int", "tuple", "mixed", "pyeq", "pyeq"]


class _ReprItem(str):
    """a str subclass with its own repr: equal (and hash-equal) to the plain string, serialised differently"""

    def __repr__(self):
        return f"S({str.__repr__(self)})"


# Item palette of kind "pyeq": pairwise DISTINCT serialisations (repr), many of them EQUAL (and hash-equal) under
# Python's ==: 1 / 1.0 / True / Decimal('1') / Decimal('1.0') / Decimal('1.00') / Fraction(1) / (1+0j),
# 0 / 0.0 / False / -0.0 / Decimal('0'), (1,) / (1.0,) / (True,), (0,) / (0.0,) / (-0.0,), frozenset built in two orders
# ({0, 8} / {8, 0}), 'a' / a str subclass with its own repr, 2 / 2.0, 10**20 / 1e20, (1,'a') / (1.0,'a'),
# frozenset({1}) / ({1.0}) / ({True}); controls that are NOT equal although they look alike: 'a' / b'a', 1 / '1'.
# The small ids are the most collision-rich (generators draw small ids most often).
PAL = [1, 1.0, True, 0, 0.0, False, -0.0, decimal.Decimal("1"), (1,), (1.0,), decimal.Decimal("1.0"), (True,),
       fractions.Fraction(1), complex(1, 0), decimal.Decimal("0"), (0,), (0.0,), (-0.0,), frozenset([0, 8]), frozenset([8, 0]),
       "a", b"a", _ReprItem("a"), "1", 2, 2.0, 10**20, 1e20, (1, "a"), (1.0, "a"), decimal.Decimal("1.00"),
       frozenset([1]), frozenset([1.0]), frozenset([True]),
       "", (), b"", frozenset()]          # falsy but not None (like 0 / 0.0 / False / -0.0 / Decimal('0') above)
assert len({repr(v) for v in PAL}) == len(PAL)
FALSY_IDS = [i for i, v in enumerate(PAL) if not v]
# ==-class of a palette id (dict identity: equal and hash-equal)
PAL_CLS = [min(u for u in range(len(PAL)) if PAL[u] == PAL[v] and hash(PAL[u]) == hash(PAL[v])) for v in range(len(PAL))]
assert all((PAL[u] == PAL[v]) == (PAL_CLS[u] == PAL_CLS[v]) for u in range(len(PAL)) for v in range(len(PAL)))
assert len(set(PAL_CLS)) < len(PAL) // 2


def item_of(kind: str, i: int):
    """Python item for item id `i`.  For every kind but "pyeq" distinct ids give items that are distinct under `==`;
    for "pyeq" distinct ids give distinct serialisations, ids < len(PAL) collide under == as listed in PAL_CLS."""
    if kind == "pyeq":
        return PAL[i] if 0 <= i < len(PAL) else f"pq-{i}"
    if kind == "str":
        return f"item-{i}"
    if kind == "int":
        return i * 7919 - 50
    if kind == "tuple":
        return (i, f"t{i % 3}")
    return [f"m{i}", i * 31 + 1000003, (i, "z")][i % 3]


def ident_id(fam_kind: str, item_kind: str, i: int) -> int:
    """the id under which the MODEL (and the judge's true counts) sees item id `i`: which items a sketch treats as one.
    Bloom / Count-Min / HyperLogLog hash the serialisation (repr) and a reservoir stores the objects themselves: every id is
    its own item.  TopK keeps a dict keyed by the item: Python-equal spellings (1, 1.0, True) are ONE item."""
    if item_kind == "pyeq" and fam_kind == "topk" and 0 <= i < len(PAL):
        return PAL_CLS[i]
    return i


def spelling(v):
    """identity of an object as a reservoir must preserve it: type and serialisation"""
    return (type(v).__name__, repr(v))


# Merkle keys: the model works on ranks, so the pool is sorted with Python's string order.
KEYS = sorted({"", "a", "a:", "a:1", "aa", "ab", "b", "k1", "k10", "k2", "key", "key:", "z", "zz", "é", "~",
               "0", "00", "1", "10", "2", "A", "B", "a|b", "a b", "user:1", "user:10", "user:2", "x" * 40, "K"})
class _ReprStr(str):
    """a str subclass with its own repr: equal to the plain string, serialised differently"""

    def __repr__(self):
        return f"S({str.__repr__(self)})"


class _PlainStr(str):
    """a str subclass that inherits repr: equal to the plain string and serialised identically"""


# Value palette of the Merkle family.  Index = value id in a case.  The first 16 are the original
# plain values (pairwise distinct under == and under repr).  The rest add
#   * values that are EQUAL under Python's == but serialised (repr) differently: 1 / 1.0 / True /
#     Decimal(1), 0 / 0.0 / -0.0 / False, 1.5 / Fraction(3, 2), 10**20 / 1e20, (1, 2) / (1.0, 2.0),
#     b"b" / bytearray(b"b"), "v" / a str subclass with its own repr, [1] / [1.0] / [True], {"n": 1} / {"n": 1.0};
#   * a value equal AND serialised identically but of another type (str subclass inheriting repr);
#   * MUTABLE values (list, dict, bytearray): the harness can change the stored object in place and
#     publish it with update(key, same_object) — op "mupd".
# Two notions of identity, both computed here from the objects themselves:
#   RID[v]  serialisation class (= what MerkleTree hashes: repr(value)) — the tree's own notion;
#   EID[v]  Python-equality class.
VALS = [0, 1, 2, -1, "0", "1", "v", "", 1.5, (1, 2), "a:1", 10**20, "x|y", b"b", 3, 4,
        1.0, True, 0.0, False, [3], [3, 33], [], {"n": 1}, {"n": 2}, {"n": 1.0}, bytearray(b"b"), (1.0, 2.0),
        [1], [1.0], 1e20, decimal.Decimal("1"), _ReprStr("v"), _PlainStr("v"), -0.0, fractions.Fraction(3, 2),
        bytearray(b"bc"), [True], {"n": 1, "m": 0}]
NPLAIN = 16
assert len({repr(v) for v in VALS[:NPLAIN]}) == NPLAIN
RID = [min(u for u in range(len(VALS)) if repr(VALS[u]) == repr(VALS[v])) for v in range(len(VALS))]
EID = [min(u for u in range(len(VALS)) if VALS[u] == VALS[v]) for v in range(len(VALS))]
# == is an equivalence on the palette (no NaN, no partial comparisons), and equal serialisation implies ==
assert all((VALS[u] == VALS[v]) == (EID[u] == EID[v]) for u in range(len(VALS)) for v in range(len(VALS)))
assert all(EID[RID[v]] == EID[v] for v in range(len(VALS)))
MUTABLE = (list, dict, bytearray)
MUT_GROUPS = [[v for v in range(len(VALS)) if type(VALS[v]) is t] for t in MUTABLE]
EQ_GROUPS = [g for g in ([v for v in range(len(VALS)) if EID[v] == e and RID[v] == v] for e in sorted(set(EID))) if len(g) > 1]


def make_val(v):
    """a fresh Python object for value id v (mutable kinds are never shared between keys or trees)"""
    return copy.deepcopy(VALS[v]) if isinstance(VALS[v], MUTABLE) else VALS[v]


def set_in_place(obj, target):
    """change the mutable object `obj` so that it equals `target` (same type), keeping its identity"""
    if isinstance(obj, dict):
        obj.clear()
        obj.update(target)
    else:
        obj[:] = target


def okey(x: float) -> int:
    """order-preserving integer key of a finite double (−0.0 and +0.0 both map to 0)"""
    b = struct.unpack(">q", struct.pack(">d", x))[0]
    return b if b >= 0 else -(b & 0x7FFFFFFFFFFFFFFF)


class Scripted:
    """stand-in for `random.Random` inside ReservoirSampler: every draw comes from the case"""

    def __init__(self, vs):
        self.vs, self.i = list(vs), 0

    def _next(self):
        v = self.vs[self.i] if self.i < len(self.vs) else 0
        self.i += 1
        return v

    def randint(self, a, b):
        return a + self._next() % (b - a + 1)

    def random(self):
        return (self._next() % 64) / 64


MERGEABLE = ("bloom", "cms", "hll")


def _mk(family, cfg):
    from happysimulator.sketching.bloom_filter import BloomFilter
    from happysimulator.sketching.count_min_sketch import CountMinSketch
    from happysimulator.sketching.hyperloglog import HyperLogLog

    if family == "bloom":
        return BloomFilter(size_bits=cfg[0], num_hashes=cfg[1], seed=cfg[2])
    if family == "cms":
        return CountMinSketch(width=cfg[0], depth=cfg[1], seed=cfg[2])
    return HyperLogLog(precision=cfg[0], seed=cfg[1])


def feed_via_collector(sketch, adds):
    """route `adds` = [(item, count)] into `sketch` the way an application does: as events through a real Simulation
    into a SketchCollector entity wrapping the sketch (value and weight extracted from the event context)"""
    from happysimulator.components.sketching.sketch_collector import SketchCollector
    from happysimulator.core.event import Event
    from happysimulator.core.simulation import Simulation
    from happysimulator.core.temporal import Instant

    weighted = any(c != 1 for _, c in adds)
    col = SketchCollector("col", sketch, value_extractor=lambda e: e.context["item"],
                          weight_extractor=(lambda e: e.context["w"]) if weighted else None)
    sim = Simulation(end_time=Instant((len(adds) + 2) * 1000), entities=[col])
    for i, (it, c) in enumerate(adds):
        sim.schedule(Event(time=Instant((i + 1) * 1000), event_type="item", target=col, context={"item": it, "w": c}))
    sim.run()
    return col


def _hash_row(family, sk, cfg, item):
    """the real hash values the sketch uses for `item` (same helper the sketch calls), asked of a FRESH sketch per item:
    the table must be a function of the item alone, whatever the sketch remembers of earlier calls"""
    sk = _mk(family, cfg)
    if family == "bloom":
        return [sk._hash(item, i) for i in range(cfg[1])]
    if family == "cms":
        return [sk._hash(item, r) for r in range(cfg[1])]
    return [sk._hash(item)]


def _state(family, sk):
    if family == "bloom":
        bits = [p for p in range(sk.size_bits) if (sk._bits[p // 64] >> (p % 64)) & 1]
        return " ".join(map(str, bits))
    if family == "cms":
        return " ".join(str(c) for row in sk._counters for c in row)
    return " ".join(f"{i}:{v}" for i, v in enumerate(sk._registers) if v)


def _query(family, sk, item):
    if family == "bloom":
        return 1 if sk.contains(item) else 0
    return sk.estimate(item)


def j(xs):
    return " ".join(str(x) for x in xs)


class C20(core.Property):
    id = "C20"
    driver = "drv-c20"
    lake_targets = ["HappyProofs.C20.Props", "drv-c20"]
    audit_imports = ["HappyProofs.C20.Props"]
    lean_files = ["HappyModel/C20/*.lean", "HappyProofs/C20/*.lean", "HappyModel/Proto.lean", "Driver/C20.lean"]
    theorems = []  # filled from THEOREMS below
    quick_cases = 2100
    thorough_cases = 40000
    case_timeout_s = 30
    variants = ["current", "repaired"]     # Merkle only: hash the serialisation (code that exists) / a canonical form
    rule = ("seven families (bloom, cms, hll, topk, reservoir, merkle, tdigest), round-robin; streams of 0–200 weighted adds "
            "(skewed / uniform / colliding-by-construction / single item / empty; counts 0, 1, large, occasionally negative), "
            "small dimensions (Bloom 1–128 bits, CMS 1–16×1–5, HLL p=4–16, TopK k=1–8, reservoir 1–8), every split point reachable; "
            "family seq (2 of every 9 cases): a *program* over 2–4 sketches of one kind (Count-Min, Bloom, HyperLogLog, TopK, reservoir, t-digest in turn; "
            "12 % with one differently configured register) — ≤40 add / merge / clear operations shaped as window aggregation (merge a window into an aggregate that "
            "may still be empty, then clear or keep filling the window), merge chains a→b→c with the early links changed afterwards, fan-in, or random (self-merge "
            "for the three mergeable kinds); every sketch is observed after every operation; "
            "item kinds str / int / tuple / mixed (pairwise distinct under ==) and, one case in three, the Python-equality palette: 34 items with pairwise distinct "
            "serialisations of which many are equal and hash-equal (1 / 1.0 / True / Decimal('1') / Decimal('1.0') / Decimal('1.00') / Fraction(1) / (1+0j), "
            "0 / 0.0 / False / -0.0 / Decimal('0'), (1,) / (1.0,) / (True,), (0,) / (0.0,) / (-0.0,), frozenset({0, 8}) / frozenset({8, 0}), 'a' / str subclass with its own repr, "
            "2 / 2.0, 10**20 / 1e20, frozenset({1}) / ({1.0}) / ({True}); controls 'a' / b'a', 1 / '1'), small ids drawn most often, used by every sketch family; "
            "seq programs of Bloom / Count-Min / TopK run 60 % (palette) or 25 % (other kinds) in own-question mode: snapshots read the state only and membership / "
            "frequency questions are explicit `look r x` operations — a prelude of questions to the fresh sketches (lookups before inserts), questions to a merge target about "
            "what the source held, random questions, and at the end every register is asked about every item of its logical stream — so merged sketches have different "
            "question histories; a quarter of the Bloom / Count-Min / HyperLogLog / TopK cases (half with the palette) feed the stream to the sketch as events through a real Simulation into a "
            "SketchCollector entity (value / weight extracted from the event context), palette streams then include falsy items (0, 0.0, False, -0.0, Decimal('0'), '', (), b'', frozenset()); "
            "every Merkle diff point reads in a per-case order — root hashes first, a.diff(b) first (b only an argument, nothing of it read since its last update / remove), b.diff(a) first, or "
            "alternating; Merkle replica scripts (40 %) pass each key as a plain str, a str subclass inheriting repr or a str subclass with its own repr, changing from use to use; "
            "Merkle family: half the cases use the plain palette (16 values distinct under == and repr), half are replica scripts over the full palette — values equal under == but serialised "
            "differently (1 / 1.0 / True / Decimal(1), 0 / 0.0 / -0.0 / False, 1.5 / Fraction(3,2), 10**20 / 1e20, (1,2) / (1.0,2.0), b'b' / bytearray(b'b'), 'v' / str subclass with its own repr, "
            "[1] / [1.0] / [True], {'n':1} / {'n':1.0}), a str subclass inheriting repr, and mutable records (lists, dicts, bytearrays) that are changed IN PLACE (object obtained with get()) and "
            "published with update(key, same_object); updates with an equal object, with an ==-equal differently serialised value, with new values, removals; the other replica follows with a fresh equal "
            "object (60 %); a diff in both directions after every operation, judged against the logical maps; "
            "a case is non-trivial when it has ≥2 accepted adds (sketches) or ≥1 differing key (Merkle) or ≥1 add and ≥1 merge (seq); distinct = distinct case content")
    trusted_base = [
        "hv/props/c20.py adapters (drive the real sketch objects, canonical transcript)",
        "collector cases: the adapter builds the Simulation, the SketchCollector (value_extractor / weight_extractor reading the event context) and the item events; the sketch is then "
        "observed exactly like a directly fed one",
        "item identity is computed by the adapter from the palette objects themselves: serialisation (repr) for Bloom / Count-Min / HyperLogLog / reservoir, "
        "the ==-and-hash class for TopK (ident_id); the hash table of an item is asked of a FRESH sketch per item (a sketch-internal memo cannot leak into the model's table)",
        "private attributes read for state equality: BloomFilter._bits, CountMinSketch._counters, HyperLogLog._registers "
        "(no public accessor exists); hash tables obtained from the sketches' own _hash helpers",
        "ReservoirSampler._rng replaced by a scripted generator (the draws are inputs of the model)",
        "SHA-256 / builtin hash() behave as fixed functions within one process (PYTHONHASHSEED=0)",
        "Merkle keys are mapped to their rank in the sorted key pool (Python str order = Nat order on ranks)",
        "Merkle values cross as serialisation ids (palette index of the first value with the same repr) and, for cases judged under Python equality, a table id -> ==-class computed by the adapter with == on the palette objects; "
        "the model's hash tables come from the module's own _hash_leaf / _hash_children applied to the logical maps (the real trees are not consulted for the model)",
        "t-digest doubles cross as order-preserving integer keys (okey); no float arithmetic on the Lean side",
        "t-digest tie: after quantile() (which flushes) the adapter reads the private TDigest._centroids (mean, count) and the public min / max / item_count and ships them "
        "as the digest the Lean quantile model walks over",
        "seq family: the reference sketch of a register (`w<i>` lines: a fresh sketch of the same configuration fed with the register's logical stream by add() only) "
        "is built by the adapter; the logical stream is recomputed on the Lean side (`logical`) for the one-sided bounds, the TopK / reservoir / t-digest clauses",
    ]
    assumptions = [
        "what counts as 'the same item' is the sketch's own notion: Bloom / Count-Min / HyperLogLog hash repr(item), so 1, 1.0 and True are three items (add(1) does not make "
        "contains(1.0) true — observation: under a uniform Python-== reading that is a false negative; not raised, the Merkle analogue is the registered finding); TopK keys a dict by the "
        "item, so they are ONE item whose true count is the sum; a reservoir hands back the objects it was given (type and repr)",
        "a `look` (contains / estimate / estimate_with_error) is judged against the register's logical stream at that moment and must change no observable of any register (frame clause)",
        "Merkle, python-equality reading: a non-empty diff between maps that are identical serialisation by serialisation is merkle/diff/nonempty-but-identical (not covered by the registered "
        "finding, which needs a value equal under == and serialised differently)",
        "reservoir clause read as: size = min(k, n) and every sampled element occurs in the stream (set reading; merge samples with replacement)",
        "Merkle 'the two maps are equal': judged as serialised identity (two values are the same iff repr() — what the tree hashes — is the same), the tree's own notion; under Python's == on dicts "
        "({k: 1} == {k: 1.0}) the code that exists reports a non-empty diff for equal maps (finding merkle/diff/nonempty-but-python-equal, fixes/C20-merkle-python-equal-values.known.md); "
        "cases marked eqmode=python are judged under that reading and are generated only when C20.PYEQ_CASES is on; NaN and values whose repr embeds an address are outside the value domain; "
        "a mutable value changed in place WITHOUT a following update(key, value) is a user error and is not generated (the harness never shares a mutable object between keys or trees)",
        "TopK.merge is not part of the property text and is not modelled (its item_count can exceed N: k=2, {a:1,b:2}.merge({c:5,a:1}) reports 10 for 9)",
        "t-digest: the float centroid arithmetic (add / compress / merge) has no Lean model; the quantile walk has (HappyModel/C20/TDigest.lean, exact arithmetic over integer-keyed means) "
        "and both clauses are proved for it over every well-formed digest; the implementation's outputs are judged directly (monotone, within min/max) and, on grids q = i/2^k (where q·N, the "
        "half-weights and every comparison of the walk are exact in doubles, so code and model take the same branch; weights < 2^40), tied to the model: the dumped centroid list must be well "
        "formed and every answer must lie in the bracket of the rule the model applies — equal to the centroid mean for `return centroid.mean`, between the two interpolated numbers otherwise "
        "(the code clamps its float interpolation to exactly that bracket); q grids with qn = 100 are judged for order only",
        "HLL cardinality() (float estimator) is not compared; the merge law is on registers",
        "seq family: 'a merge result must not change when its inputs change afterwards' is judged as a frame clause on public observables — after every operation every "
        "sketch other than the operation's target (add/clear: the receiver; merge: the receiver, not the argument) must report exactly what it reported before "
        "(item_count, state/answers to all probes, top(), sample(), t-digest quantile grid) — plus, for Bloom / Count-Min / HLL, equality with the sketch of the logical stream "
        "(streams concatenated as they were at merge time) and the one-sided bounds against that stream at every step",
        "seq family, TopK: TopK.merge is modelled (transcripts compared) but the bounds are judged only for registers whose history since the last clear() has no merge "
        "(the property text gives TopK no merge law); reservoir: size = min(k, n) and sample ⊆ logical stream also after merges; t-digest: monotone quantiles within [min, max] of the logical stream",
        "seq family, t-digest: observing quantile() after every operation flushes the buffer, so programs exercise merge/clear on flushed digests (the tdigest family covers unflushed merges)",
    ]
    hypotheses = [
        "merkle_*: HashInjOn — the node hash is injective on the subtrees of the two trees compared (SHA-256 collision resistance)",
        "merkle_*: both maps sorted by key with distinct keys (MerkleTree sorts its dict)",
        "cms_never_under: depth > 0 (constructor guard)",
        "topk_*: k > 0 (constructor guard)",
        "reservoir_merge_*: every scripted random() value is in [0,1) (v % 64 / 64)",
        "*_program_registers_are_sketches: every merge in the program is between registers of equal configuration and hash family (okFor …Same; merge() raises ValueError otherwise "
        "and the driver turns a rejected operation into `skip`); cms lower bound: depth > 0",
    ]

    # ------------------------------------------------------------------ generation
    FAMILIES = ["bloom", "cms", "hll", "topk", "reservoir", "merkle", "tdigest", "seq", "seq"]
    SEQ_KINDS = ["cms", "bloom", "hll", "topk", "reservoir", "tdigest"]

    def generate(self, rng: random.Random, i: int, tier: str) -> dict:
        fam = self.FAMILIES[i % len(self.FAMILIES)]
        if fam == "seq":
            k = (i // len(self.FAMILIES)) * 2 + (i % len(self.FAMILIES) - self.FAMILIES.index("seq"))
            return self.gen_seq(rng, tier, self.SEQ_KINDS[k % len(self.SEQ_KINDS)])
        return getattr(self, "gen_" + fam)(rng, tier)

    # -- sketch programs: several sketches of one kind, add / merge / clear interleaved -------------
    def gen_seq(self, rng, tier, kind):
        nreg = rng.choice([2, 2, 3, 3, 4])
        n_items = rng.choice([1, 2, 4, 8, 16])
        if kind == "bloom":
            cfg = [rng.choice([1, 2, 3, 8, 16, 63, 64, 65]), rng.choice([1, 1, 2, 3]), rng.choice([0, 1, 42])]
        elif kind == "cms":
            cfg = [rng.choice([1, 2, 3, 4, 8]), rng.choice([1, 1, 2, 3]), rng.choice([0, 1, 42])]
        elif kind == "hll":
            cfg = [rng.choice([4, 4, 5, 6]), rng.choice([0, 1, 42])]
        elif kind == "topk":
            cfg = [rng.choice([1, 2, 2, 3, 4])]
        elif kind == "reservoir":
            cfg = [rng.choice([1, 2, 3, 4])]
        else:
            cfg = rng.choice([[2, 5], [1, 1], [2, 1], [5, 1], [20, 1], [100, 1]])
        cfgs = [cfg]
        regs = [0] * nreg
        if rng.random() < 0.12:
            # one register is configured differently: merging it with the others must be refused
            # (t-digests of different compression may be merged)
            other = list(cfg)
            other[rng.randrange(len(cfg))] += 1
            cfgs.append(other)
            regs[rng.randrange(nreg)] = 1

        def item():
            if kind == "tdigest":
                return rng.choice([rng.randrange(-64, 512) / 8, rng.randrange(0, 300) / 10,
                                   rng.choice([0.1, 0.2, 0.3, 0.7, 2.8, -3.5, 1e9, 0.0])])
            r = rng.random()
            if r < 0.5:
                return min(int(rng.paretovariate(1.1)) - 1, n_items - 1)
            return rng.randrange(n_items)

        def count():
            r = rng.random()
            if r < 0.8:
                return 1
            if r < 0.93:
                return rng.choice([2, 3, 5, 40 if kind != "reservoir" else 4])
            if r < 0.98:
                return 0
            return -rng.choice([1, 3])

        ops = []

        def adds(r, n):
            for _ in range(n):
                ops.append(["add", r, item(), count()])

        shape = rng.choice(["aggregate", "aggregate", "chain", "random", "random", "fanin"])
        few = lambda: rng.choice([0, 1, 1, 2, 3, 5])
        if shape == "aggregate":
            # register 0 aggregates windows 1..; a window keeps being used / is cleared and refilled afterwards
            if rng.random() < 0.3:
                adds(0, few())
            for _ in range(rng.choice([1, 2, 3, 4])):
                w = rng.randrange(1, nreg)
                adds(w, few())
                ops.append(["merge", 0, w])
                after = rng.random()
                if after < 0.45:
                    ops.append(["clear", w])
                elif after < 0.8:
                    adds(w, rng.choice([1, 2, 3]))
                if rng.random() < 0.3:
                    adds(0, rng.choice([1, 2]))
        elif shape == "chain":
            # a -> b -> c, then the early links change
            order = list(range(nreg))
            rng.shuffle(order)
            for r in order:
                adds(r, few())
            for a, b in zip(order, order[1:]):
                ops.append(["merge", b, a])
                if rng.random() < 0.5:
                    adds(a, rng.choice([1, 2]))
            for r in order[:-1]:
                ops.append(rng.choice([["clear", r], ["add", r, item(), 1], ["add", r, item(), count()]]))
        elif shape == "fanin":
            for r in range(1, nreg):
                adds(r, few())
            for r in range(1, nreg):
                ops.append(["merge", 0, r])
            for r in range(1, nreg):
                if rng.random() < 0.7:
                    ops.append(["clear", r] if rng.random() < 0.5 else ["add", r, item(), 1])
            adds(0, few())
        else:
            for _ in range(rng.choice([3, 6, 10, 16, 24])):
                r = rng.random()
                if r < 0.6:
                    adds(rng.randrange(nreg), 1)
                elif r < 0.88:
                    t, s_ = rng.randrange(nreg), rng.randrange(nreg)
                    if t == s_ and (kind not in MERGEABLE or rng.random() < 0.7):
                        s_ = (t + 1) % nreg
                    ops.append(["merge", t, s_])
                else:
                    ops.append(["clear", rng.randrange(nreg)])
        ops = ops[:40]
        item_kind = rng.choice(KINDS)
        # "own" observation: snapshots read the state only; membership / frequency questions are explicit `look r x`
        # operations, so every register has its OWN lookup history (lookups before inserts, merges between sketches that
        # were asked different things, questions about an item that arrived through a merge only)
        own = kind in ("bloom", "cms", "topk") and rng.random() < (0.6 if item_kind == "pyeq" else 0.25)
        if own:
            ops = self.with_looks(ops, nreg, item, rng)[:90]
        case = {"family": "seq", "kind": kind, "item_kind": item_kind, "cfgs": cfgs, "regs": regs, "ops": ops}
        if kind == "tdigest":
            case["qn"] = rng.choice([4, 16, 64])
        elif own:
            case["probes"] = []
        else:
            used = sorted({op[2] for op in ops if op[0] == "add"})
            case["probes"] = used + [n_items + 50 + t for t in range(rng.choice([0, 1, 2]))]
        if kind == "reservoir":
            budget = sum(max(op[3], 0) for op in ops if op[0] == "add") + 2 * 5 * sum(1 for op in ops if op[0] == "merge") + 4
            k = cfg[0]
            case["scripts"] = [[rng.choice([0, k - 1, k, k + 1, rng.randrange(1 << 16), rng.randrange(budget + 1), 63, 64])
                                for _ in range(budget)] for _ in range(nreg)]
        return case

    @staticmethod
    def with_looks(ops, nreg, item, rng):
        """interleave `look r x` operations: a prelude of questions on the fresh sketches, after a merge questions to the
        target about what the source had, random questions in between, and at the end every register is asked about
        every item of its logical stream"""
        out, logical = [], [[] for _ in range(nreg)]
        for r in range(nreg):
            for _ in range(rng.choice([0, 1, 2, 3])):
                out.append(["look", r, item()])
        for op in ops:
            out.append(op)
            if op[0] == "add":
                if op[3] > 0:
                    logical[op[1]].append(op[2])
            elif op[0] == "merge":
                src = list(logical[op[2]])
                logical[op[1]] = logical[op[1]] + src
                if src and rng.random() < 0.7:
                    for _ in range(rng.choice([1, 2])):
                        out.append(["look", op[1], rng.choice(src)])
            elif op[0] == "clear":
                logical[op[1]] = []
            if rng.random() < 0.15:
                out.append(["look", rng.randrange(nreg), item()])
        for r in range(nreg):
            for x in sorted(set(logical[r]))[:8]:
                out.append(["look", r, x])
        return out

    @staticmethod
    def gen_stream(rng, n_items, tier, allow_neg=True):
        shape = rng.choice(["skew", "skew", "uniform", "single", "empty", "pair", "weighted"])
        big = 400 if tier == "thorough" else 200
        ln = rng.choice([1, 2, 3, 5, 8, 13, 30, 80, big])
        if shape == "empty":
            ln = 0
        out = []
        for _ in range(ln):
            if shape in ("skew", "weighted"):
                x = min(int(rng.paretovariate(1.1)) - 1, n_items - 1)
            elif shape == "single":
                x = 0
            elif shape == "pair":
                x = rng.randrange(min(2, n_items))
            else:
                x = rng.randrange(n_items)
            r = rng.random()
            if shape == "weighted":
                c = rng.choice([1, 2, 3, 7, 100, 10**6, 0])
            elif r < 0.85:
                c = 1
            elif r < 0.93:
                c = rng.choice([2, 5, 1000])
            elif r < 0.98 or not allow_neg:
                c = 0
            else:
                c = -rng.choice([1, 3])
            out.append([x, c])
        return out

    def gen_mergeable(self, rng, tier, fam):
        kind = rng.choice(KINDS)
        n_items = rng.choice([1, 2, 4, 8, 16, 40])
        if fam == "bloom":
            cfg = [rng.choice([1, 2, 3, 8, 16, 63, 64, 65, 128]), rng.choice([1, 1, 2, 3, 7]), rng.choice([0, 1, 42])]
            if rng.random() < 0.03:
                cfg[rng.randrange(2)] = rng.choice([0, -1])
        elif fam == "cms":
            cfg = [rng.choice([1, 2, 3, 4, 8, 16]), rng.choice([1, 1, 2, 3, 5]), rng.choice([0, 1, 42])]
            if rng.random() < 0.03:
                cfg[rng.randrange(2)] = rng.choice([0, -2])
        else:
            cfg = [rng.choice([4, 4, 4, 5, 6, 8, 10, 16] if tier == "thorough" else [4, 4, 4, 5, 6, 8, 10]), rng.choice([0, 1, 42])]
            if rng.random() < 0.03:
                cfg[0] = rng.choice([3, 17, 0])
        cfgB = list(cfg)
        if rng.random() < 0.12:
            k = rng.randrange(len(cfg))
            cfgB[k] = cfg[k] + rng.choice([1, 2])
        stream = self.gen_stream(rng, n_items, tier)
        # colliding by construction: restrict the stream to items whose real hash rows coincide
        if rng.random() < 0.3 and stream:
            grp = self.colliding_group(fam, cfg, kind, 48)
            if grp:
                ins = grp[:-1] if len(grp) > 1 else grp
                stream = [[ins[x % len(ins)], c] for x, c in stream]
                probes_extra = grp
            else:
                probes_extra = []
        else:
            probes_extra = []
        used = sorted({x for x, _ in stream} | set(probes_extra))
        probes = used + [n_items + 50 + t for t in range(rng.choice([0, 1, 4]))]
        split = rng.choice([0, len(stream), rng.randint(0, len(stream)), rng.randint(0, len(stream))])
        case = {"family": fam, "kind": kind, "cfgA": cfg, "cfgB": cfgB, "stream": stream, "split": split, "probes": probes}
        if rng.random() < (0.5 if kind == "pyeq" else 0.25):
            # the whole stream reaches sketch W as events through a Simulation into a SketchCollector entity
            # (a collector is a sink: a rejected count would abort the run, so these streams have none)
            case["via"] = "collector"
            case["stream"] = [[x, c if c >= 0 else 2] for x, c in stream]
            if kind == "pyeq" and stream and rng.random() < 0.7:
                # make sure falsy items (0, 0.0, False, '', (), b'' …) are in the stream and among the probes
                for _ in range(rng.choice([1, 2, 3])):
                    f = rng.choice(FALSY_IDS)
                    case["stream"].insert(rng.randrange(len(case["stream"]) + 1), [f, rng.choice([1, 1, 2])])
                    if f not in case["probes"]:
                        case["probes"].append(f)
                case["split"] = rng.randint(0, len(case["stream"]))
        return case

    @staticmethod
    def colliding_group(fam, cfg, kind, pool):
        """largest set of item ids < pool whose real hash rows (register index for HLL) are identical"""
        groups = {}
        try:
            sk = _mk(fam, cfg)
            for i in range(pool):
                row = _hash_row(fam, sk, cfg, item_of(kind, i))
                key = (row[0] >> (64 - cfg[0]),) if fam == "hll" else tuple(row)
                groups.setdefault(key, []).append(i)
        except Exception:  # invalid configuration, or a hash helper that no longer works: no group
            return []
        best = max(groups.values(), key=len)
        return best[:6] if len(best) > 1 else []

    def gen_bloom(self, rng, tier):
        return self.gen_mergeable(rng, tier, "bloom")

    def gen_cms(self, rng, tier):
        return self.gen_mergeable(rng, tier, "cms")

    def gen_hll(self, rng, tier):
        return self.gen_mergeable(rng, tier, "hll")

    def gen_topk(self, rng, tier):
        k = rng.choice([1, 1, 2, 2, 3, 4, 8])
        if rng.random() < 0.03:
            k = rng.choice([0, -1])
        n_items = rng.choice([1, 2, 3, max(k, 1) + 1, max(k, 1) + 2, 12, 40])
        stream = self.gen_stream(rng, n_items, tier)
        ops = []
        for x, c in stream:
            ops.append(["add", x, c])
            if rng.random() < 0.08:
                ops.append(["snap"])
        ops.append(["snap"])
        probes = sorted({x for x, _ in stream}) + [n_items + 7]
        kind = rng.choice(KINDS)
        case = {"family": "topk", "kind": kind, "k": k, "ops": ops, "probes": probes}
        if k > 0 and rng.random() < (0.5 if kind == "pyeq" else 0.25):
            # the adds reach the TopK as events through a Simulation into a SketchCollector entity
            case["via"] = "collector"
            case["ops"] = [[op[0], op[1], op[2] if op[2] >= 0 else 2] if op[0] == "add" else op for op in ops]
            if kind == "pyeq" and rng.random() < 0.7:
                for _ in range(rng.choice([1, 2, 3])):
                    f = rng.choice(FALSY_IDS)
                    case["ops"].insert(rng.randrange(len(case["ops"])), ["add", f, rng.choice([1, 2, 5])])
                    if f not in case["probes"]:
                        case["probes"].append(f)
        return case

    def gen_reservoir(self, rng, tier):
        kA = rng.choice([1, 1, 2, 3, 4, 8])
        kB = kA if rng.random() < 0.9 else kA + 1
        if rng.random() < 0.03:
            kA = rng.choice([0, -1])
        n_items = rng.choice([1, 2, 5, 20, 100])
        stream = [[x, c if c < 50 else 3] for x, c in self.gen_stream(rng, n_items, tier)]
        n = sum(max(c, 0) for _, c in stream)
        ka = max(kA, 1)

        def script(m):
            return [rng.choice([0, ka - 1, ka, ka + 1, rng.randrange(1 << 16), rng.randrange(max(m, 1) + 1), 63, 64])
                    for _ in range(m)]
        split = rng.choice([0, len(stream), rng.randint(0, len(stream))])
        return {"family": "reservoir", "kind": rng.choice(KINDS), "kA": kA, "kB": kB, "stream": stream, "split": split,
                "scripts": {"W": script(n), "A": script(n), "B": script(n), "M": script(2 * ka + 2)}}

    # Judging "equal maps" as Python's == on dicts ({k: 1} == {k: 1.0}) is a clause the code that exists
    # does not meet (it hashes repr(value)); see fixes/C20-merkle-python-equal-values.known.md.  Cases
    # carry "eqmode": "python" to be judged under it; the generator emits such cases only when this
    # flag is on (to be switched on once the finding is registered in known_findings.json).
    PYEQ_CASES = True

    def gen_merkle(self, rng, tier):
        if rng.random() < 0.5:
            return self.gen_merkle_rich(rng, tier)
        nk = rng.choice([0, 1, 2, 3, 4, 5, 7, 8, 9, 16, len(KEYS)])
        keys = rng.sample(range(len(KEYS)), min(nk, len(KEYS)))
        a = [[k, rng.randrange(4)] for k in keys]
        mode = rng.choice(["equal", "one-value", "few", "missing", "extra", "random", "shifted"])
        b = [list(p) for p in a]
        if mode == "one-value" and b:
            b[rng.randrange(len(b))][1] = rng.randrange(4, len(VALS))
        elif mode == "few":
            for _ in range(rng.randint(1, 3)):
                if b:
                    b[rng.randrange(len(b))][1] = rng.randrange(len(VALS))
        elif mode == "missing" and b:
            for _ in range(rng.randint(1, min(3, len(b)))):
                b.pop(rng.randrange(len(b)))
        elif mode == "extra":
            free = [k for k in range(len(KEYS)) if k not in keys]
            for k in rng.sample(free, min(len(free), rng.randint(1, 3))):
                b.append([k, rng.randrange(len(VALS))])
        elif mode == "random":
            b = [[k, rng.randrange(len(VALS))] for k in rng.sample(range(len(KEYS)), rng.randint(0, min(10, len(KEYS))))]
        elif mode == "shifted" and b:
            # same values under keys moved by one rank: same leaves' values, different keys
            b = [[(k + 1) % len(KEYS), v] for k, v in a]
            seen = set()
            b = [p for p in b if not (p[0] in seen or seen.add(p[0]))]
        rng.shuffle(b)
        ops = [["diff"]]
        for _ in range(rng.choice([0, 0, 1, 3, 6])):
            side = rng.choice(["a", "b"])
            r = rng.random()
            if r < 0.5:
                ops.append(["upd", side, rng.randrange(len(KEYS)), rng.randrange(len(VALS))])
            elif r < 0.8:
                ops.append(["del", side, rng.randrange(len(KEYS))])
            else:
                # copy a key from the other side: drives the maps towards equality
                src = a if side == "b" else b
                if src:
                    k, v = rng.choice(src)
                    ops.append(["upd", side, k, v])
            ops.append(["diff"])
        return {"family": "merkle", "a": a, "b": b, "ops": ops, "dorder": rng.choice(["eq", "ab", "ba", "alt", "alt"])}

    def gen_merkle_rich(self, rng, tier):
        """Replica-style scripts over the full value palette: records (lists / dicts / bytearrays)
        changed IN PLACE and published with update(key, same_object); updates with an equal object
        (nothing changes), with an ==-equal value that is serialised differently (1 -> 1.0 -> True),
        with really new values; the other replica follows (or not); a diff after every step.  The
        generator keeps the logical maps itself — the implementation is not consulted."""
        nv = len(VALS)
        nk = rng.choice([1, 2, 3, 5, 8])
        keys = rng.sample(range(len(KEYS)), nk)
        flavour = rng.choice(["records", "records", "numbers", "mixed"])

        def pick():
            r = rng.random()
            if flavour == "records" or (flavour == "mixed" and r < 0.4):
                return rng.choice(rng.choice(MUT_GROUPS))
            if flavour == "numbers" or r < 0.8:
                return rng.choice(rng.choice(EQ_GROUPS))
            return rng.randrange(nv)

        maps = {"a": {k: pick() for k in keys}}
        start = rng.choice(["equal", "equal", "equal", "one-differs", "py-equal", "missing"])
        maps["b"] = dict(maps["a"])
        if start == "one-differs":
            maps["b"][rng.choice(keys)] = pick()
        elif start == "py-equal":
            for k in keys:
                g = [v for v in range(nv) if EID[v] == EID[maps["b"][k]]]
                maps["b"][k] = rng.choice(g)
        elif start == "missing":
            maps["b"].pop(rng.choice(keys))
        a0 = [[k, v] for k, v in maps["a"].items()]
        b0 = [[k, v] for k, v in maps["b"].items()]
        rng.shuffle(b0)
        ops = [["diff"]]
        for _ in range(rng.choice([1, 2, 3, 5, 8])):
            side = rng.choice(["a", "a", "b"])
            other = "b" if side == "a" else "a"
            m = maps[side]
            if not m:
                k, v = rng.choice(keys), pick()
                ops += [["upd", side, k, v], ["diff"]]
                m[k] = v
                continue
            k = rng.choice(sorted(m))
            cur = m[k]
            same_type = [v for g in MUT_GROUPS if cur in g for v in g if RID[v] != RID[cur]]
            same_class = [v for v in range(nv) if EID[v] == EID[cur] and RID[v] != RID[cur]]
            r = rng.random()
            if r < 0.4 and same_type:
                op = ["mupd", side, k, rng.choice(same_type)]           # change the record in place, publish it
            elif r < 0.55 and same_class:
                op = ["upd", side, k, rng.choice(same_class)]           # equal under ==, serialised differently
            elif r < 0.65:
                op = ["upd", side, k, rng.choice([v for v in range(nv) if RID[v] == RID[cur]])]   # an equal object: no change
            elif r < 0.8:
                op = [rng.choice(["upd", "mupd"]), side, k, pick()]
            elif r < 0.9:
                op = ["del", side, k]
            else:
                op = ["upd", side, rng.choice(keys), pick()]
            ops += [op, ["diff"]]
            if op[0] == "del":
                m.pop(k, None)
            else:
                m[op[2]] = op[3]
            if rng.random() < 0.6:
                # the other replica catches up (a fresh, equal object) — or drops the key as well
                if op[0] == "del":
                    ops += [["del", other, op[2]], ["diff"]]
                    maps[other].pop(op[2], None)
                else:
                    via = "mupd" if rng.random() < 0.3 else "upd"
                    ops += [[via, other, op[2], op[3]], ["diff"]]
                    maps[other][op[2]] = op[3]
        case = {"family": "merkle", "a": a0, "b": b0, "ops": ops}
        if self.PYEQ_CASES:
            case["eqmode"] = "python"
        if rng.random() < 0.4:
            case["kspell"] = rng.randrange(1000)
        case["dorder"] = rng.choice(["eq", "ab", "ba", "alt", "alt"])
        return case

    def gen_tdigest(self, rng, tier):
        comp = rng.choice([[2, 5], [1, 2], [1, 1], [2, 1], [3, 1], [5, 1], [10, 1], [20, 1], [100, 1]])
        if rng.random() < 0.03:
            comp = rng.choice([[0, 1], [-1, 1]])
        n = rng.choice([0, 1, 2, 3, 5, 10, 50, 200, 400 if tier == "thorough" else 120])
        mode = rng.choice(["grid", "decimal", "few", "magnitudes", "neg", "same"])
        vals = []
        c0 = rng.choice([0.1, 2.8, 1e-3, 7.0, -0.3, 123456.789])
        for _ in range(n):
            if mode == "grid":
                v = rng.randrange(-64, 512) / 8
            elif mode == "decimal":
                v = rng.randrange(0, 300) / 10
            elif mode == "few":
                v = rng.choice([0.1, 0.2, 0.3, 0.7, 2.8])
            elif mode == "magnitudes":
                v = rng.choice([1e-9, 1.0, 1e9, -3.5, 2.0**40 + 0.5, 1e-300, 0.0, -0.0])
            elif mode == "neg":
                v = -rng.random() * rng.choice([1, 1000])
            else:
                v = c0
            r = rng.random()
            c = 1 if r < 0.7 else rng.choice([2, 3, 5, 17]) if r < 0.95 else rng.choice([0, 0, -1])
            vals.append([v, c])
        split = rng.choice([0, len(vals), rng.randint(0, len(vals))])
        return {"family": "tdigest", "comp": comp, "vals": vals, "split": split, "qn": rng.choice([4, 16, 64, 64, 100]),
                "early": rng.random() < 0.4}

    # ------------------------------------------------------------------ implementation
    def run_impl(self, case):
        fam = case["family"]
        out = self.impl_mergeable(case) if fam in MERGEABLE else getattr(self, "impl_" + fam)(case)
        return [" ".join(l.split()) for l in out]

    def compare_view(self, case, impl_out):
        """`#…` lines are judge-only observations (t-digest quantiles of the seq family)"""
        return [l for l in impl_out if not l.startswith("#")]

    # -- seq family ---------------------------------------------------------------------------
    @staticmethod
    def _seq_make(kind, cfg):
        from happysimulator.sketching.reservoir import ReservoirSampler
        from happysimulator.sketching.tdigest import TDigest
        from happysimulator.sketching.topk import TopK

        if kind in MERGEABLE:
            return _mk(kind, cfg)
        if kind == "topk":
            return TopK(k=cfg[0])
        if kind == "reservoir":
            return ReservoirSampler(size=cfg[0])
        return TDigest(compression=cfg[0] / cfg[1])

    def impl_seq(self, case):
        kind, ik = case["kind"], case["item_kind"]
        cfgs, regmap, probes = case["cfgs"], case["regs"], case.get("probes", [])
        n = len(regmap)
        sk = [self._seq_make(kind, cfgs[regmap[r]]) for r in range(n)]
        if kind == "reservoir":
            for r in range(n):
                sk[r]._rng = Scripted(case["scripts"][r])
        logical = [[] for _ in range(n)]        # per register: the adds that make up its logical stream
        refs = [None] * n                       # reference sketch per register, rebuilt when its stream changes
        back = {}
        qs = [i / case["qn"] for i in range(case["qn"] + 1)] if kind == "tdigest" else []

        def mid(x):
            return ident_id(kind, ik, x)

        def it(x):
            if kind == "tdigest":
                return x
            v = item_of(ik, x)
            if kind == "reservoir":
                back[spelling(v)] = x          # the sampler must hand back the objects it was given
            else:
                back[v] = mid(x)               # TopK: a dict key, Python-equal spellings are one item
            return v

        def show(r, s):
            if kind in MERGEABLE:
                q = j(_query(kind, s, item_of(ik, p)) for p in probes) if kind != "hll" else ""
                return f"n {s.item_count} st {_state(kind, s)} | q {q}"
            if kind == "topk":
                top = j(f"{back[e.item]}:{e.count}:{e.error}" for e in s.top())
                pq = []
                for p in probes:
                    e = s.estimate_with_error(item_of(ik, p))
                    pq.append(f"{mid(p)}:{1 if item_of(ik, p) in s else 0}:{e.count}:{e.error}")
                return f"n {s.item_count} thr {s.guaranteed_threshold()} maxerr {s.max_error()} top {top} | q {j(pq)}"
            if kind == "reservoir":
                return f"n {s.item_count} sample {j(back[spelling(y)] for y in s.sample())}"
            mn = "none" if s.min is None else okey(s.min)
            mx = "none" if s.max is None else okey(s.max)
            return f"n {s.item_count} min {mn} max {mx}"

        out = []

        def snap():
            for r in range(n):
                out.append(f"r{r} {show(r, sk[r])}")
            if kind in MERGEABLE:
                for r in range(n):
                    if refs[r] is None:
                        w = self._seq_make(kind, cfgs[regmap[r]])
                        for x, c in logical[r]:
                            w.add(item_of(ik, x), c)
                        refs[r] = w
                    out.append(f"w{r} {show(r, refs[r])}")
            if kind == "tdigest":
                for r in range(n):
                    if sk[r].item_count:
                        out.append(f"#q{r} {j(okey(sk[r].quantile(q)) for q in qs)}")
                        out.append(f"#c{r} {j(f'{okey(c.mean)}:{c.count}' for c in sk[r]._centroids)}")

        out.append("s init")
        snap()
        for k, op in enumerate(case["ops"]):
            out.append(f"s {k + 1} " + j(self._seq_op_tokens(kind, op, ik)))
            try:
                if op[0] == "look":
                    # a question to one register; it must change nothing (judged by the frame clause)
                    v, s_ = item_of(ik, op[2]), sk[op[1]]
                    if kind == "topk":
                        e = s_.estimate_with_error(v)
                        out.append(f"l{op[1]} {mid(op[2])}:{1 if v in s_ else 0}:{e.count}:{e.error}")
                    else:
                        out.append(f"l{op[1]} {_query(kind, s_, v)}")
                elif op[0] == "add":
                    sk[op[1]].add(it(op[2]), op[3])
                    logical[op[1]] = logical[op[1]] + [(op[2], op[3])]
                    refs[op[1]] = None
                elif op[0] == "merge":
                    sk[op[1]].merge(sk[op[2]])
                    logical[op[1]] = logical[op[1]] + logical[op[2]]
                    refs[op[1]] = None
                else:
                    sk[op[1]].clear()
                    logical[op[1]] = []
                    refs[op[1]] = None
            except ValueError:
                out.append("err ValueError")
            snap()
        return out

    @staticmethod
    def _seq_op_tokens(kind, op, ik="str"):
        if op[0] == "add" and kind == "tdigest":
            return ["add", op[1], okey(op[2]), op[3]]
        if op[0] in ("add", "look"):
            return op[:2] + [ident_id(kind, ik, op[2])] + op[3:]
        return op

    def model_postprocess(self, case, out):
        return [" ".join(l.split()) for l in out]

    def impl_mergeable(self, case):
        fam, kind = case["family"], case["kind"]
        try:
            W, A = _mk(fam, case["cfgA"]), _mk(fam, case["cfgA"])
            B = _mk(fam, case["cfgB"])
        except ValueError:
            return ["err ValueError"]
        out = []
        split = case["split"]
        via = case.get("via") == "collector"
        if via:
            feed_via_collector(W, [(item_of(kind, x), c) for x, c in case["stream"]])
        for i, (x, c) in enumerate(case["stream"]):
            it = item_of(kind, x)
            if not via:
                try:
                    W.add(it, c)
                except ValueError:
                    out.append(f"adderr {i}")
            try:
                (A if i < split else B).add(it, c)
            except ValueError:
                pass
        probes = [item_of(kind, x) for x in case["probes"]]

        def show(name, sk):
            out.append(f"{name} n {sk.item_count} st {_state(fam, sk)}")
            if fam != "hll":
                out.append(f"{name}q {j(_query(fam, sk, p) for p in probes)}")

        show("W", W)
        show("A", A)
        show("B", B)
        try:
            A.merge(B)
        except ValueError:
            out.append("merge err ValueError")
            return [s.rstrip() for s in out]
        out.append("merge ok")
        show("M", A)
        return [s.rstrip() for s in out]

    def impl_topk(self, case):
        from happysimulator.sketching.topk import TopK

        kind = case["kind"]
        try:
            tk = TopK(k=case["k"])
        except ValueError:
            return ["err ValueError"]
        back = {}
        out = []
        i = 0
        via = case.get("via") == "collector"
        chunk = []          # adds waiting to be sent through the collector (flushed before every snapshot)
        for op in case["ops"]:
            if op[0] == "add":
                it = item_of(kind, op[1])
                back[it] = ident_id("topk", kind, op[1])
                if via:
                    chunk.append((it, op[2]))
                    i += 1
                    continue
                try:
                    tk.add(it, op[2])
                except ValueError:
                    out.append(f"adderr {i}")
                i += 1
            else:
                if chunk:
                    feed_via_collector(tk, chunk)
                    chunk = []
                out.append(f"n {tk.item_count} thr {tk.guaranteed_threshold()} maxerr {tk.max_error()}")
                out.append(("top " + j(f"{back[e.item]}:{e.count}:{e.error}" for e in tk.top())).rstrip())
                for x in case["probes"]:
                    it = item_of(kind, x)
                    e = tk.estimate_with_error(it)
                    assert e.count == tk.estimate(it)
                    out.append(f"q {ident_id('topk', kind, x)} {1 if it in tk else 0} {e.count} {e.error}")
        return out

    def impl_reservoir(self, case):
        from happysimulator.sketching.reservoir import ReservoirSampler

        kind = case["kind"]
        try:
            W, A = ReservoirSampler(size=case["kA"]), ReservoirSampler(size=case["kA"])
            B = ReservoirSampler(size=case["kB"])
        except ValueError:
            return ["err ValueError"]
        sc = case["scripts"]
        W._rng, A._rng, B._rng = Scripted(sc["W"]), Scripted(sc["A"]), Scripted(sc["B"])
        back = {}
        out = []
        for i, (x, c) in enumerate(case["stream"]):
            it = item_of(kind, x)
            back[spelling(it)] = x
            try:
                W.add(it, c)
            except ValueError:
                out.append(f"adderr {i}")
            try:
                (A if i < case["split"] else B).add(it, c)
            except ValueError:
                pass

        def show(name, s):
            assert len(s) == s.sample_size == len(s.sample())
            out.append(f"{name} n {s.item_count} sample {j(back[spelling(y)] for y in s.sample())}".rstrip())

        show("W", W)
        show("A", A)
        show("B", B)
        A._rng = Scripted(sc["M"])
        try:
            A.merge(B)
        except ValueError:
            out.append("merge err ValueError")
            return out
        out.append("merge ok")
        show("M", A)
        return out

    @staticmethod
    def _merkle_replay(case, on_diff):
        from happysimulator.sketching.merkle_tree import MerkleTree

        # key spellings ("kspell"): the same key arrives as a plain str, as a str subclass inheriting repr, or as a str
        # subclass with its own repr — equal, hash-equal, same str(); which spelling is used changes from use to use
        spell, uses = case.get("kspell"), [0]

        def K(k):
            if spell is None:
                return KEYS[k]
            uses[0] += 1
            m = (spell * 31 + uses[0] * 17 + k) % 4
            return KEYS[k] if m < 2 else (_PlainStr(KEYS[k]) if m == 2 else _ReprStr(KEYS[k]))

        ta = MerkleTree.build({K(k): make_val(v) for k, v in case["a"]})
        tb = MerkleTree.build({K(k): make_val(v) for k, v in case["b"]})
        out = []
        for op in case["ops"]:
            t = ta if len(op) > 1 and op[1] == "a" else tb
            if op[0] == "upd":
                t.update(K(op[2]), make_val(op[3]))
            elif op[0] == "mupd":
                # a record is changed and the tree is told about it: the stored object (as get() hands
                # it out) is modified IN PLACE and published with update(key, same_object).  Falls back
                # to a plain update when the key holds no mutable value of the target's type.
                cur = t.get(K(op[2]))
                target = make_val(op[3])
                if isinstance(cur, MUTABLE) and type(cur) is type(target):
                    set_in_place(cur, target)
                    t.update(K(op[2]), cur)
                else:
                    t.update(K(op[2]), target)
            elif op[0] == "del":
                out.append(f"del {1 if t.remove(K(op[2])) else 0}")
            else:
                out.append(on_diff(ta, tb))
        return out

    def impl_merkle(self, case):
        rank = {k: i for i, k in enumerate(KEYS)}

        def rng_str(rs):
            return j(f"{rank[r.start]}-{rank[r.end]}" for r in rs)

        order = case.get("dorder", "eq")
        count = [0]

        def on_diff(ta, tb):
            # what is read first at a diff point: the root hashes (forces both trees to be current), a.diff(b)
            # (b is only an ARGUMENT: nothing of b was read since its last update / remove) or b.diff(a);
            # "alt" alternates between the two directions from one diff point to the next
            count[0] += 1
            first = order if order != "alt" else ("ab" if count[0] % 2 else "ba")
            ab = ba = eq = None
            if first == "ab":
                ab = ta.diff(tb)
            elif first == "ba":
                ba = tb.diff(ta)
            else:
                eq = 1 if ta.root_hash == tb.root_hash else 0
            if first == "ba":
                ab = ta.diff(tb)
            elif ba is None and first == "ab":
                pass
            if ab is None:
                ab = ta.diff(tb)
            if ba is None:
                # after a.diff(b) the argument may still be stale: ask b.diff(a) only in a second pass on fresh reads
                ba = tb.diff(ta)
            if eq is None:
                eq = 1 if ta.root_hash == tb.root_hash else 0
            return f"d ab {rng_str(ab)} | ba {rng_str(ba)} | eq {eq} | size {ta.size} {tb.size}".replace("  ", " ")

        return self._merkle_replay(case, on_diff)

    @staticmethod
    def _td_build(case):
        from happysimulator.sketching.tdigest import TDigest

        comp = case["comp"][0] / case["comp"][1]
        W, A, B = TDigest(compression=comp), TDigest(compression=comp), TDigest(compression=comp)
        errs = []
        for i, (v, c) in enumerate(case["vals"]):
            try:
                W.add(v, c)
            except ValueError:
                errs.append(f"adderr {i}")
            try:
                (A if i < case["split"] else B).add(v, c)
            except ValueError:
                pass
        return W, A, B, errs

    def impl_tdigest(self, case):
        try:
            W, A, B, errs = self._td_build(case)
        except ValueError:
            return ["err ValueError"]

        def line(name, t):
            mn = "none" if t.min is None else okey(t.min)
            mx = "none" if t.max is None else okey(t.max)
            return f"{name} n {t.item_count} min {mn} max {mx}"

        out = errs + [line("W", W), line("A", A), line("B", B)]
        A.merge(B)
        return out + [line("M", A)]

    def td_quantiles(self, case):
        """the implementation's own quantile outputs on the q grid, as order keys (judge input)"""
        try:
            W, A, B, _ = self._td_build(case)
        except ValueError:
            return []
        qs = [i / case["qn"] for i in range(case["qn"] + 1)]
        out = []
        if case.get("early") and A.item_count:
            A.quantile(0.5)
        A.merge(B)
        qn = case["qn"]
        tie = qn & (qn - 1) == 0       # q = i / 2^k: q * N and every comparison of the walk are exact in doubles
        if tie:
            out.append(f"tie {qn}")
        for name, t in (("Wq", W), ("Mq", A)):
            if t.item_count:
                out.append(f"obs {name} {j(okey(t.quantile(q)) for q in qs)}")
                if tie:
                    # the digest quantile() walked over (flushed by the call above): private `_centroids`
                    out += [f"cent {name[0]} {okey(c.mean)} {c.count}" for c in t._centroids]
                    out.append(f"lohi {name[0]} {okey(t.min)} {okey(t.max)} {t.item_count}")
        return out

    # ------------------------------------------------------------------ model / judge
    def scenario_lines(self, case):
        fam = case["family"]
        if fam in MERGEABLE or fam == "reservoir":
            body = []
            if fam == "reservoir":
                body += [f"cfgA {case['kA']}", f"cfgB {case['kB']}"]
            else:
                body += [f"cfgA {j(case['cfgA'])}", f"cfgB {j(case['cfgB'])}"]
            body += [f"add {x} {c}" for x, c in case["stream"]]
            body.append(f"split {case['split']}")
            if fam != "reservoir":
                body.append(f"probe {j(case['probes'])}")
            return body
        if fam == "topk":
            tid = lambda x: ident_id("topk", case["kind"], x)
            return [f"cfg {case['k']}", f"probe {j(tid(p) for p in case['probes'])}"] + \
                   [j(["add", tid(op[1]), op[2]] if op[0] == "add" else op) for op in case["ops"]]
        if fam == "merkle":
            # the Lean side works on serialisation ids (RID); an in-place change + publish is an `upd`
            def opl(op):
                if op[0] in ("upd", "mupd"):
                    return f"upd {op[1]} {op[2]} {RID[op[3]]}"
                return j(op)
            return [("a " + j(x for k, v in case["a"] for x in (k, RID[v]))).rstrip(),
                    ("b " + j(x for k, v in case["b"] for x in (k, RID[v]))).rstrip()] + [opl(op) for op in case["ops"]]
        if fam == "tdigest":
            return [f"cfg {case['comp'][0]} {case['comp'][1]}"] + [f"add {okey(v)} {c}" for v, c in case["vals"]] + [f"split {case['split']}"]
        if fam == "seq":
            return [f"kind {case['kind']}"] + [f"cfg {i} {j(c)}" for i, c in enumerate(case["cfgs"])] + \
                   [f"reg {j(case['regs'])}", f"probe {j(ident_id(case['kind'], case['item_kind'], p) for p in case.get('probes', []))}"]
        raise core.InfraError(f"unknown family {fam}")

    def seq_model_body(self, case):
        kind = case["kind"]
        body = self.scenario_lines(case)
        if kind in MERGEABLE:
            ids = sorted({op[2] for op in case["ops"] if op[0] in ("add", "look")} | set(case["probes"]))
            for ci, cfg in enumerate(case["cfgs"]):
                sk = _mk(kind, cfg)
                body += [f"h {ci} {x} {j(_hash_row(kind, sk, cfg, item_of(case['item_kind'], x)))}" for x in ids]
        if kind == "reservoir":
            body += [f"script {r} {j(v)}" for r, v in enumerate(case["scripts"])]
        return body + ["op " + j(self._seq_op_tokens(kind, op, case["item_kind"])) for op in case["ops"]]

    def seq_judge_body(self, case, impl_out):
        """scenario + after `init` / every `op` the implementation's snapshot of every register"""
        body = self.scenario_lines(case)
        ops = ["init"] + ["op " + j(self._seq_op_tokens(case["kind"], op, case["item_kind"])) for op in case["ops"]]
        k = -1
        for line in impl_out:
            if line.startswith("s "):
                k += 1
                if k >= len(ops):
                    return None
                body.append(ops[k])
            elif line.startswith(("r", "w", "l")):
                body.append("obs " + line)
            elif line.startswith(("#q", "#c")):
                body.append("obs " + line[1:])
        return body if k == len(ops) - 1 else None

    def model_block(self, case, variant):
        fam = case["family"]
        if fam == "seq":
            return ("seq", self.seq_model_body(case))
        body = self.scenario_lines(case)
        if fam in MERGEABLE:
            ids = sorted({x for x, _ in case["stream"]} | set(case["probes"]))
            for tag, cfg in (("hA", case["cfgA"]), ("hB", case["cfgB"])):
                try:
                    sk = _mk(fam, cfg)
                    rows = [f"{tag} {x} {j(_hash_row(fam, sk, cfg, item_of(case['kind'], x)))}" for x in ids]
                except Exception:  # rejected configuration (or a broken hash helper): no table
                    continue
                body += rows
        elif fam == "reservoir":
            body += [f"script{k} {j(v)}" for k, v in case["scripts"].items()]
        elif fam == "merkle":
            body.append(self.pyeq_line())
            try:
                body += self.merkle_tables(case, variant)
            except Exception:  # the hash helpers could not be called: the model runs without tables
                pass
            return (f"merkle {variant}", body)
        return (fam, body)

    @staticmethod
    def pyeq_line():
        return "pyeq " + j(x for v in sorted(set(RID)) for x in (v, EID[v]))

    def merkle_tables(self, case, variant="current"):
        """Leaf / inner hash tables for the model, from the module's own `_hash_leaf` / `_hash_children`
        applied to the LOGICAL maps (what the user stored) at every diff point — the real trees are not
        consulted.  Digests are numbered; the tree shape is `_build_tree`'s (split at len // 2)."""
        from happysimulator.sketching.merkle_tree import _hash_children, _hash_leaf

        canon = (lambda v: EID[v]) if variant == "repaired" else (lambda v: RID[v])
        ids, leaf, inner = {}, {}, {}

        def hid(h):
            return ids.setdefault(h, len(ids) + 1)

        def walk(items):
            if len(items) == 1:
                k, v = items[0]
                h = _hash_leaf(KEYS[k], VALS[v])
                leaf[(k, v)] = hid(h)
                return h
            mid = len(items) // 2
            lh, rh = walk(items[:mid]), walk(items[mid:])
            h = _hash_children(lh, rh)
            inner[(hid(lh), hid(rh))] = hid(h)
            return h

        maps = {"a": {k: canon(v) for k, v in case["a"]}, "b": {k: canon(v) for k, v in case["b"]}}
        for op in case["ops"]:
            if op[0] in ("upd", "mupd"):
                maps[op[1]][op[2]] = canon(op[3])
            elif op[0] == "del":
                maps[op[1]].pop(op[2], None)
            else:
                for m in maps.values():
                    if m:
                        walk(sorted(m.items()))
        return [f"hl {k} {v} {h}" for (k, v), h in sorted(leaf.items())] + [f"hc {a} {b} {h}" for (a, b), h in sorted(inner.items())]

    def judge_block(self, case, impl_out):
        if impl_out and impl_out[0].startswith(("IMPL-", "err ")):
            return None
        fam = case["family"]
        if fam == "seq":
            body = self.seq_judge_body(case, impl_out)
            return None if body is None else ("judge-seq", body)
        body = self.scenario_lines(case)
        if fam == "tdigest":
            return ("judge-tdigest", body + self.td_quantiles(case))
        if fam in ("topk", "merkle"):
            # interleave: observations follow the snap/diff that produced them
            marker = "snap" if fam == "topk" else "diff"
            chunks, cur = [], []
            for line in impl_out:
                if fam == "topk" and line.startswith("n ") and cur:
                    chunks.append(cur)
                    cur = []
                if line.startswith(("adderr", "del ")):
                    continue
                cur.append("obs " + line)
                if fam == "merkle":
                    chunks.append(cur)
                    cur = []
            if cur:
                chunks.append(cur)
            out, ci = [], 0
            for line in body:
                out.append(line)
                if line == marker and ci < len(chunks):
                    out += chunks[ci]
                    ci += 1
            if fam == "merkle" and case.get("eqmode") == "python":
                out.append(self.pyeq_line())
            return (f"judge-{fam}", out)
        return (f"judge-{fam}", body + ["obs " + l for l in impl_out if not l.startswith(("adderr", "merge"))])

    # ------------------------------------------------------------------ bookkeeping
    def nontrivial_key(self, case, impl_out):
        fam = case["family"]
        if fam == "merkle":
            if sorted(map(tuple, case["a"])) == sorted(map(tuple, case["b"])) and len(case["ops"]) == 1:
                return None
        elif fam == "topk":
            if sum(1 for op in case["ops"] if op[0] == "add" and op[2] > 0) < 2:
                return None
        elif fam == "tdigest":
            if sum(1 for _, c in case["vals"] if c > 0) < 2:
                return None
        elif fam == "seq":
            if sum(1 for op in case["ops"] if op[0] == "add" and op[3] > 0) < 1 or not any(op[0] == "merge" for op in case["ops"]):
                return None
        elif sum(1 for _, c in case["stream"] if c > 0) < 2:
            return None
        return json.dumps(case, sort_keys=True)

    @staticmethod
    def _seq_key(case):
        return {"topk": "ops", "merkle": "ops", "tdigest": "vals", "seq": "ops"}.get(case["family"], "stream")

    def shrink(self, case):
        key = self._seq_key(case)
        xs = case[key]
        n = len(xs)
        step = max(1, n // 2)
        while step >= 1:
            for i in range(0, n, step):
                cand = dict(case)
                cand[key] = xs[:i] + xs[i + step:]
                if "split" in cand:
                    cand["split"] = min(max(cand["split"] - (step if i < case["split"] else 0), 0), len(cand[key]))
                if len(cand[key]) < n:
                    yield cand
            step //= 2
        if case["family"] == "merkle":
            for side in ("a", "b"):
                for i in range(len(case[side])):
                    cand = dict(case)
                    cand[side] = case[side][:i] + case[side][i + 1:]
                    yield cand

    def mutate(self, case, rng):
        key = self._seq_key(case)
        xs = [list(x) for x in case[key]]
        c = dict(case)
        if xs:
            for _ in range(rng.randint(1, 3)):
                i = rng.randrange(len(xs))
                r = rng.random()
                if r < 0.3 and len(xs) > 1:
                    del xs[i]
                elif r < 0.7:
                    xs.insert(i, list(rng.choice(xs)))
                else:
                    k = rng.randrange(len(xs))
                    xs[i], xs[k] = xs[k], xs[i]
        c[key] = xs
        if "split" in c:
            c["split"] = rng.randint(0, len(xs))
        return c


THEOREMS = [
    "HappyModel.C20.bloom_no_false_negative",
    "HappyModel.C20.bloom_merge_is_union",
    "HappyModel.C20.cms_never_under",
    "HappyModel.C20.cms_merge_is_concat",
    "HappyModel.C20.hll_merge_is_concat",
    "HappyModel.C20.topk_bounds",
    "HappyModel.C20.reservoir_size",
    "HappyModel.C20.reservoir_subset_of_stream",
    "HappyModel.C20.reservoir_merge",
    "HappyModel.C20.merkle_diff_empty_iff_equal",
    "HappyModel.C20.merkle_diff_covers",
    "HappyModel.C20.merkle_root_tracks_data",
    "HappyModel.C20.merkle_ops_diff_laws",
    "HappyModel.C20.merkle_diff_python_equal_repaired",
    "HappyModel.C20.merkle_python_equal_nonempty_current",
    "HappyModel.C20.seqRun_refines",
    "HappyModel.C20.cms_program_registers_are_sketches",
    "HappyModel.C20.bloom_program_registers_are_sketches",
    "HappyModel.C20.hll_program_registers_are_sketches",
    "HappyModel.C20.sketch_program_frame",
    "HappyModel.C20.tdigest_quantile_monotone",
    "HappyModel.C20.tdigest_quantile_within_min_max",
    "HappyModel.C20.tdigest_tie_sound",
]
C20.theorems = THEOREMS
C20.partial_theorems = {
    "tdigest_centroid_arithmetic": "not modelled: add / _flush / _compress / merge build the centroid list with float arithmetic (asin, sqrt, weighted means); "
                                   "tdigest_quantile_monotone / tdigest_quantile_within_min_max are proved for the quantile walk over EVERY well-formed centroid list; that the "
                                   "real object's list is well formed (sorted means, positive weights summing to item_count, means within [min, max]) and that its float answers "
                                   "follow the model's rule are checked per case by the judge (tdigest/tie/*) on the dumped _centroids, for dyadic q grids",
}
PROPERTY = C20()
