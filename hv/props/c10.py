"""C10 — rate limiters never over-admit and report time-until-available truthfully.

Correspondence: the real `TokenBucketPolicy` / `LeakyBucketPolicy` / `SlidingWindowPolicy` /
`FixedWindowPolicy` / `AdaptivePolicy` objects from /repo are driven directly with generated
`Instant`s (families `policy-exact`, `policy-tol`), and `RateLimitedEntity` / `NullRateLimiter` /
`Inductor` run inside a real `Simulation` (family `entity`; the Inductor's float EWMA gate is an
oracle, its forward / queue / drop / poll control flow is the model's `Ent`), and 1–3
`DistributedRateLimiter` instances over one `KVStore` (family `drl`; the model replays the
generator segments in the order the engine ran them).  The same inputs go to the exact-integer Lean model
(`HappyModel/C10`); transcripts are diffed; the Lean Spec predicates (`HappyModel/C10/Spec.lean`)
judge the implementation's own transcript.

Floats.  The code computes in float seconds, the model in exact integers (ns; tokens scaled so that
`one` units = 1 token and the rate is `p` units/ns).  `policy-exact` cases live on a grid where every
float operation of the code is exact (times = multiples of 2^-9 s, rates = powers of two or small
integers coprime to 5, dyadic capacities): there the transcripts must be identical.  `policy-tol`
cases are arbitrary (decimal rates, ns-adjacent times): the model is also given what the code
answered, keeps its own answer wherever its margin from the threshold is at least 1e-6 token
(acquire) or the waits differ by more than 1 ns (time_until_available), and otherwise follows the
code and counts the operation in `float_boundary_unjudged`; the Lean judge still checks the code's
admitted timestamps against the bounds (with 1e-6 token slack).
"""
from __future__ import annotations

import json
import math
import os
import random
from fractions import Fraction as F

from hv import core  # puts HV_REPO (default /repo) on sys.path

# imported here so that forked pool workers inherit the loaded package
import happysimulator.components.rate_limiter.policy  # noqa: E402,F401
import happysimulator.components.rate_limiter.rate_limited_entity  # noqa: E402,F401
import happysimulator.components.rate_limiter.inductor  # noqa: E402,F401
import happysimulator.components.rate_limiter.distributed  # noqa: E402,F401
import happysimulator.components.datastore  # noqa: E402,F401
import happysimulator.core.simulation  # noqa: E402,F401

G = 1_953_125  # 2^-9 s in ns: the float-exact time grid
NS = 10**9

# rates for which every float operation of the policies is exact on the grid (see module docstring)
EXACT_RATES = [0.125, 0.25, 0.5, 1.0, 2.0, 4.0, 8.0, 16.0, 64.0, 3.0, 6.0, 7.0, 9.0, 12.0, 24.0, 48.0]
POW2_RATES = [0.125, 0.25, 0.5, 1.0, 2.0, 4.0, 8.0, 16.0, 64.0]


def _lcm(a, b):
    return a * b // math.gcd(a, b)


def _den(*xs):
    d = 1
    for x in xs:
        d = _lcm(d, F(x).denominator)
    return d


def make_policy(spec):
    from happysimulator.components.rate_limiter.policy import (
        AdaptivePolicy, FixedWindowPolicy, LeakyBucketPolicy, SlidingWindowPolicy, TokenBucketPolicy)

    k = spec["kind"]
    if k == "tb":
        return TokenBucketPolicy(capacity=spec["capacity"], refill_rate=spec["rate"], initial_tokens=spec.get("init"))
    if k == "lb":
        return LeakyBucketPolicy(leak_rate=spec["rate"])
    if k == "sw":
        return SlidingWindowPolicy(window_size_seconds=spec["window"], max_requests=spec["n"])
    if k == "fw":
        return FixedWindowPolicy(requests_per_window=spec["n"], window_size=spec["window"])
    if k == "ad":
        return AdaptivePolicy(initial_rate=spec["initial"], min_rate=spec["min"], max_rate=spec["max"],
                              increase_step=spec["step"], decrease_factor=spec["factor"], window_size=spec["window"])
    raise ValueError(k)


def ad_scale(spec):
    return _lcm(2**64, _den(spec["initial"], spec["min"], spec["max"], spec["step"]))


def cfg_tokens(spec):
    """policy parameters as the exact scaled integers of HappyModel/C10/Policy.lean"""
    from happysimulator.core.temporal import Duration

    k = spec["kind"]
    if k == "tb":
        cap = F(float(spec["capacity"]))
        init = cap if spec.get("init") is None else F(float(spec["init"]))
        rate = F(float(spec["rate"]))
        D = _den(cap, init, rate)
        one = D * NS
        return ["tb", int(cap * one), int(rate * D), one, int(init * one)]
    if k == "lb":
        rate = F(float(spec["rate"]))
        return ["lb", rate.numerator, rate.denominator * NS]
    if k == "sw":
        return ["sw", Duration.from_seconds(float(spec["window"])).nanoseconds, int(spec["n"])]
    if k == "fw":
        return ["fw", max(1, Duration.from_seconds(spec["window"]).nanoseconds), int(spec["n"])]
    if k == "ad":
        D = ad_scale(spec)
        one = D * NS
        fac = F(spec["factor"])
        w = F(spec["window"]) * NS
        tok0 = F(spec["initial"] * spec["window"]) * one
        return ["ad", int(F(spec["min"]) * D), int(F(spec["max"]) * D), int(F(spec["step"]) * D),
                fac.numerator, fac.denominator, w.numerator, w.denominator, one,
                int(F(spec["initial"]) * D), int(tok0)]
    if k == "null":
        return ["null"]
    if k == "ind":
        return ["ind"]          # the oracle (gate decisions, poll waits) is appended by model_block
    raise ValueError(k)


def drl_unit(case):
    return case.get("unit", G)


def drl_window_ns(case):
    """window length in integer ns: `Duration.from_seconds(window_size).nanoseconds`, as the repaired code"""
    from happysimulator.core.temporal import Duration

    return max(1, Duration.from_seconds(case["window"] * drl_unit(case) / NS).nanoseconds)


def drl_float_wid(case, t_ns):
    """what the unrepaired `_get_window_id` computes: `int(now.to_seconds() // window_size)` in doubles"""
    from happysimulator.core.temporal import Instant

    return int(Instant(t_ns).to_seconds() // (case["window"] * drl_unit(case) / NS))


def inductor_oracle(lines):
    """The Inductor's EWMA gate as an oracle, read off a transcript: one decision per request and per poll
    that found the queue non-empty (did the handler forward?), one wait per scheduled poll event."""
    ds, ws, depth = [], [], 0
    for line in lines:
        t = line.split()
        if t[0] == "req":
            rid, fid = t[1], t[3]
            ds.append("1" if fid != "-" else "0")
            depth += int(t[4])
            if fid not in ("-", rid):
                depth -= 1
            if t[6] != "-":
                ws.append(int(t[6]) - int(t[2]))
        elif t[0] == "poll":
            fid = t[2]
            if depth > 0:
                ds.append("1" if fid != "-" else "0")
                if fid != "-":
                    depth -= 1
            if t[3] != "-":
                ws.append(int(t[3]) - int(t[1]))
    return ["d" + "".join(ds)] + [str(max(0, w)) for w in ws]


class C10(core.Property):
    id = "C10"
    driver = "drv-c10"
    lake_targets = ["HappyProofs.C10.Props", "drv-c10"]
    audit_imports = ["HappyProofs.C10.Props"]
    lean_files = ["HappyModel/C10/*.lean", "HappyProofs/C10/*.lean", "HappyModel/Proto.lean", "Driver/C10.lean"]
    theorems = []
    quick_cases = 1500
    # DistributedRateLimiter window ids: `repaired` = integer nanoseconds (fixes/C10-drl-window-float-floor.diff),
    # `current` = the float floor division of the unrepaired code, evaluated by the glue (drl_float_wid)
    variants = ["repaired", "current"]
    # off-grid DistributedRateLimiter cases (window 0.1 s, 0.3 s, 0.7 s …, arrivals on window boundaries) are
    # generated only when this is True: on a tree without fixes/C10-drl-window-float-floor.diff they violate
    # "at most N per aligned window" (corpus/C10/drl-window-float-floor.json is the witness).  Make it True once
    # the patch is in /repo (until then: HV_C10_DRL_OFFGRID=1 ./check C10).
    DRL_OFFGRID = os.environ.get("HV_C10_DRL_OFFGRID", "1") == "1"
    thorough_cases = 60000
    case_timeout_s = 60
    rule = ("family policy-exact (≈7/12): one of the five policies with parameters on the float-exact grid, ≤60 "
            "acquire / time_until_available / drain / feedback operations at grid times placed on, one step before and "
            "one step after refill and window boundaries; family policy-tol (≈1/4): arbitrary decimal parameters and "
            "nanosecond-adjacent times, compared where the exact model's margin is clear; of these, ≈1/3 are 'follow' scripts (10% of their rounds end with the impatient caller: time_until_available at t, then an acquire 1 ns before t + wait): off-grid "
            "parameters — window sizes / rates written as decimals with 1–4 fractional digits, 60 % of them chosen so that truncating and "
            "rounding x·1e9 differ by 1 ns (1.001 s, 1.017 s, 33.3/s) — and 2–6 rounds of: take everything granted at one instant, then arrive "
            "exactly at t + time_until_available(t) again and again (drain) or ask and try at once; family entity (≈1/6): "
            "RateLimitedEntity or NullRateLimiter inside a real Simulation, ≤25 requests, queue capacity 0 (1/4), 1, 2, 3, 1000 or "
            "unbounded (float inf), the public queue_depth recorded after every delivery; one third of "
            "that slot is the Inductor (bursts at one instant / 1 ns apart, arrivals around the smoothed interval, sub-nanosecond "
            "smoothed intervals, tau 1 ms–10 s) and one sixth 1–3 DistributedRateLimiter instances over one KVStore (grid windows "
            "and latencies, arrivals on window boundaries, half sequential, half overlapping); 1/12 of all cases are adaptive "
            "feedback scripts: idle or not, 0–3 record_failure/record_success (before the first call, at the instant of the last "
            "call, later), then at the same instant / one step / one refill / one window later a burst one larger than the bucket "
            "of the rate in force before the feedback (exact grid 70 %, decimal parameters 30 %). "
            "A policy case is non-trivial when it has at least one granted and one refused acquire; an entity case "
            "when at least one request was queued or dropped; distinct = distinct case content")
    trusted_base = [
        "hv/props/c10.py adapters: parameter scaling with fractions.Fraction, the drain loop, the tap wrapped "
        "around RateLimitedEntity.handle_event (reads event type/time/context id, the returned events and the public "
        "stats/queue_depth)",
        "IEEE-754 rounding inside the policies is validated by the grid/tolerance scheme, not proved",
        "entity cases take the delivery schedule (which event reached the limiter when) from the real engine",
        "Inductor cases: the tap around Inductor.handle_event; the gate oracle (hv/props/c10.py:inductor_oracle) is derived "
        "from the transcript (forward emitted or not, poll time minus now)",
        "DistributedRateLimiter cases: a generator wrapper around handle_event logs every segment (arrival, each resume) "
        "with the public stats delta; the segment order comes from the real engine; KVStore.keys()/get_sync for the final store",
    ]
    assumptions = [
        "operation times never decrease (the engine guarantees it; C01)",
        "refill/leak rate > 0, bucket capacity ≥ 1 token (adaptive: min_rate·window_size ≥ 1), max_requests ≥ 1 — "
        "otherwise no request is ever admitted and a drain cannot finish",
        "request ids are distinct",
        "policy-tol: decisions within 1e-6 token of the threshold and waits within 1 ns are not compared "
        "(counted in float_boundary_unjudged); the bounds are judged with 1e-6 token slack",
        "Inductor: the EWMA gate (_can_forward, smoothed interval; floats through math.exp) is an oracle read off the "
        "run — its decisions and poll waits are not predicted, the control flow around it (forward / queue / drop / "
        "poll, 1 ns guard) is modelled and judged",
        "DistributedRateLimiter: the per-aligned-window limit is judged on runs whose requests do not overlap (the "
        "read-modify-write on the shared counter loses updates when they do — by design, says the code); window ids: "
        "variant `repaired` = integer nanoseconds, variant `current` = the float floor division of the unrepaired code "
        "(fixes/C10-drl-window-float-floor); generated cases stay on the 2^-9 s grid, where both agree, unless "
        "C10.DRL_OFFGRID / HV_C10_DRL_OFFGRID=1",
        "queue capacity 'inf' = FIFOQueue's own default float('inf') (the constructors take no None); the model runs it "
        "with a capacity the run cannot reach (entity_unbounded_never_drops)",
    ]
    # Closed in round 5: the cross-epoch adaptive bound is `adaptive_cross_epoch_bound` (integral form over the
    # run's epochs; `adaptive_credit_bound` is its engine), the adaptive wait promise without `NoFeedback` is
    # `adaptive_wait_honoured_until_raise` / `adaptive_blocks_spec_through_feedback` (true form: unless the rate is
    # raised first; `adaptive_wait_not_binding_after_raise` is the decided counter-example for the raise), and the
    # drain clause is `drain_never_stalls_run` (explicit bound: 2 positive waits, fixed window 1).
    partial_theorems = {}
    hypotheses = [
        "Mono: operation times never decrease — every run-level theorem; guaranteed by the engine (C01), and the "
        "policies themselves ignore a clock that goes back (elapsed <= 0 returns early)",
        "0 < p (refill / leak rate) — only the time_until_available clauses (tua_positive_blocks*, tua_reaches_admission, "
        "drain_never_stalls_run); the admission bounds (token_bucket_bound, leaky_spacing*) hold without it. "
        "AdaptivePolicy enforces it (min_rate > 0 raises ValueError); TokenBucketPolicy / LeakyBucketPolicy do NOT validate "
        "refill_rate / leak_rate: with rate 0 (or negative) the wait is infinite / meaningless and a drain cannot finish — assumed",
        "one <= cap (the bucket can hold one token; adaptive: min_rate * window_size >= 1) — only tua_reaches_admission / "
        "drain_never_stalls_run: with a smaller bucket no request is ever admitted, yet time_until_available keeps "
        "returning finite waits. No constructor validates it (TokenBucketPolicy(capacity=0.5) is accepted) — assumed, and "
        "the generators respect it",
        "1 <= N (max_requests / requests_per_window) — tua_zero_admits, tua_reaches_admission, drain_never_stalls_run for "
        "the window policies; the bounds hold for N = 0 too. FixedWindowPolicy enforces it; SlidingWindowPolicy does not "
        "(with max_requests=0 time_until_available raises IndexError on the empty log) — assumed",
        "0 < W (window length in ns) — fixed_window_bounds and the fixed-window time_until_available clauses (W divides); "
        "FixedWindowPolicy enforces window_size > 0 and clamps the ns length to >= 1; the sliding-window theorems need no "
        "such hypothesis",
        "distinct request ids — only entity_exactly_once_spec / drl_exactly_once_spec (the executable no-duplicates "
        "predicate); entity_exactly_once, entity_fifo and drl_exactly_once are stated as multiset / subsequence facts and "
        "hold with repeated ids",
        "adaptive state conditions (rate in [min, max], tokens <= rate * window) are not hypotheses on the input: both hold "
        "initially and after every operation list (adaptive_rate_in_range, adaptive_bucket_within_rate)",
        "RefusalWaits P (a refusal is answered with a positive wait) in entity_drain_never_stalls is discharged for all "
        "policies: token / leaky / adaptive bucket and the Inductor's gate (refusal_waits_policies), sliding window with "
        "N >= 1 and fixed window with W > 0 (refusal_waits_window_policies)",
    ]

    def __init__(self):
        self._unjudged = 0
        self._tol_ops = 0
        self._cache = {}

    # ------------------------------------------------------------------ generation
    def generate(self, rng: random.Random, i: int, tier: str) -> dict:
        m = i % 6
        if m == 5:
            if (i // 6) % 3 == 0:
                return self.gen_inductor(rng, tier)
            if (i // 6) % 3 == 1 and (i // 18) % 2 == 0:
                return self.gen_drl(rng, tier)
            return self.gen_entity(rng, tier)
        if m == 4:
            return self.gen_policy_tol(rng, tier)
        if m == 3 and (i // 6) % 2 == 0:
            return self.gen_policy_follow(rng, tier)
        if m == 2 and (i // 6) % 2 == 0:
            return self.gen_adaptive_feedback(rng, tier)
        if m == 1 and (i // 6) % 4 == 0:
            return self.gen_drl(rng, tier)
        return self.gen_policy_exact(rng, tier)

    # --- exact grid
    def exact_spec(self, rng, kinds=("tb", "lb", "sw", "fw", "ad"), for_entity=False):
        k = rng.choice(kinds)
        if k == "tb":
            cap = rng.choice([1.0, 1.0, 2.0, 3.0, 5.0, 1.5, 2.5, 8.0])
            rate = rng.choice(POW2_RATES if for_entity else EXACT_RATES)
            init = rng.choice([None, None, None, 0.0, 1.0, 0.5, cap + 1.0, cap / 2])
            return {"kind": "tb", "capacity": cap, "rate": rate, "init": init}
        if k == "lb":
            return {"kind": "lb", "rate": rng.choice(POW2_RATES if for_entity else EXACT_RATES)}
        if k == "sw":
            w = rng.choice([1, 2, 8, 64, 100, 512, 1024]) * G / NS
            return {"kind": "sw", "window": w, "n": rng.choice([1, 1, 2, 3, 5])}
        if k == "fw":
            w = rng.choice([1, 2, 8, 64, 100, 512, 1024]) * G / NS
            return {"kind": "fw", "window": w, "n": rng.choice([1, 1, 2, 3, 5])}
        # adaptive: integer / dyadic rates, factor with few bits, min_rate * window >= 1
        window = rng.choice([1.0, 1.0, 0.5, 2.0, 0.25])
        mn = rng.choice([1.0, 2.0, 4.0])
        if mn * window < 1:
            mn = 1.0 / window
        mx = rng.choice([mn, 8.0, 16.0, 64.0, 1000.0])
        mx = max(mx, mn)
        initial = rng.choice([mn, mx, (mn + mx) / 2 if ((mn + mx) / 2).is_integer() else mn, min(mx, mn * 2)])
        if for_entity:
            # no feedback inside the entity: the rate stays `initial`, which must keep tua exact
            initial = rng.choice([r for r in POW2_RATES if r * window >= 1])
            mn, mx = min(mn, initial), max(mx, initial)
            if mn * window < 1:
                mn = initial
        return {"kind": "ad", "initial": initial, "min": mn, "max": mx,
                "step": rng.choice([1.0, 2.0, 0.5, 8.0]), "factor": rng.choice([0.5, 0.5, 0.25, 0.75]), "window": window}

    @staticmethod
    def boundary_steps(spec):
        """the refill / window boundary in grid steps (≥ 1)"""
        k = spec["kind"]
        if k in ("tb", "lb"):
            return max(1, round(512 / spec["rate"]))
        if k in ("sw", "fw"):
            return max(1, round(spec["window"] * 512))
        return max(1, round(512 / spec["initial"]))

    def gen_ops(self, rng, spec, unit, jitter, n_max, allow_tua=True, allow_drain=True):
        """ops with times (lower bounds) in ns; `unit` = base step, `jitter` = offsets tried around boundaries"""
        # everything below is in multiples of `step` (grid step on the exact grid, 1 ns otherwise)
        k = spec["kind"]
        if unit == G:
            step, bnd = G, self.boundary_steps(spec)
        else:
            step, bnd = 1, unit
        n = rng.choice([3, 6, 12, 25, 40, n_max])
        t = rng.choice([0, 0, 1, 7, 1000]) * (1 if unit == G else unit)
        ops, fails = [], 0
        while len(ops) < n:
            r = rng.random()
            if r < 0.25:
                dt = 0
            elif r < 0.4:
                dt = rng.choice(jitter)
            elif r < 0.75:
                dt = max(0, bnd * rng.choice([1, 1, 1, 2, 3]) + rng.choice(jitter + [0, 0]) * rng.choice([-1, 1]))
            elif r < 0.85 and k in ("sw", "fw"):
                # land exactly on / next to an aligned window boundary
                nxt = (t // bnd + 1) * bnd
                dt = max(0, nxt - t + rng.choice([0, 0] + jitter) * rng.choice([-1, 1]))
            elif r < 0.95:
                dt = max(0, bnd // rng.choice([2, 3, 4]))
            else:
                dt = bnd * rng.choice([5, 10, 50])
            t += dt
            T = t * step
            c = rng.random()
            if k == "ad" and c < 0.22:
                if rng.random() < 0.5 and fails < 12:
                    fails += 1
                    ops.append(["fail", T])
                else:
                    ops.append(["succ", T])
            elif c < 0.5 or not allow_tua:
                ops.append(["acq", T])
            elif c < 0.6:
                for _ in range(rng.choice([2, 3, 5])):
                    ops.append(["acq", T])
            elif c < 0.72:
                ops.append(["tua", T])
            elif c < 0.9:
                ops.append(["tua", T])
                ops.append(["acq", T])
            elif allow_drain:
                ops.append(["drain", T])
            else:
                ops.append(["acq", T])
        return ops

    def gen_policy_exact(self, rng, tier):
        spec = self.exact_spec(rng)
        nmax = 60 if tier == "quick" else 120
        # a drain moves the clock by the returned wait, which stays on the grid only for power-of-two rates
        # (and the sliding window's 1 ns guard at the expiry instant leaves the grid as well)
        drain_ok = spec["kind"] == "fw" or spec.get("rate") in POW2_RATES
        ops = self.gen_ops(rng, spec, G, [1, 1, 2], nmax, allow_tua=spec["kind"] != "ad", allow_drain=drain_ok)
        return {"family": "policy-exact", "mode": "exact", "policy": spec, "ops": ops}

    def gen_policy_tol(self, rng, tier):
        k = rng.choice(["tb", "lb", "sw", "fw", "ad"])
        rates = [0.1, 0.3, 1.0, 5.0, 10.0, 100.0, 1000.0, 7.5, 33.3, 2.0]
        if k == "tb":
            cap = rng.choice([1.0, 5.0, 10.0, 100.0, 1.25, 3.3])
            spec = {"kind": "tb", "capacity": cap, "rate": rng.choice(rates), "init": rng.choice([None, None, 0.0, 0.7, cap])}
            unit = int(NS / spec["rate"])
        elif k == "lb":
            spec = {"kind": "lb", "rate": rng.choice(rates)}
            unit = int(NS / spec["rate"])
        elif k in ("sw", "fw"):
            spec = {"kind": k, "window": rng.choice([0.1, 1.0, 0.25, 0.001, 0.3, 0.7, 2.5, 1]), "n": rng.choice([1, 1, 2, 3, 10])}
            unit = int(spec["window"] * NS)
        else:
            window = rng.choice([1.0, 0.1, 0.5, 2.0])
            mn = rng.choice([1.0, 10.0, 2.5])
            if mn * window < 1:
                mn = 1.0 / window
            mx = max(mn, rng.choice([10.0, 100.0, 1000.0, 10000.0]))
            spec = {"kind": "ad", "initial": rng.choice([mn, mx, min(mx, mn * 3)]), "min": mn, "max": mx,
                    "step": rng.choice([1.0, 0.1, 10.0, 2.5]), "factor": rng.choice([0.5, 0.9, 0.3, 0.75]), "window": window}
            unit = int(NS / spec["initial"])
        nmax = 60 if tier == "quick" else 120
        ops = self.gen_ops(rng, spec, max(1, unit), [1, 1, 2, 1000, 999_999], nmax)
        return {"family": "policy-tol", "mode": "tol", "policy": spec, "ops": ops}

    @staticmethod
    def decimal_param(rng, bases=(0, 0, 1, 1, 2, 10), diff=None):
        """A decimal with 1–4 fractional digits, as a user writes it (1.001, 0.35, 2.0175).  For about
        4 % of them the nanosecond count differs between truncating and rounding x·1e9
        (1.001 -> 1000999999 vs 1001000000), so two conversions of the same parameter inside a policy
        can disagree by 1 ns; `diff=True` asks for one of those, `diff=False` for one of the others."""
        for _ in range(400):
            k = rng.randint(1, 4)
            x = float(f"{rng.choice(bases)}.{rng.randrange(1, 10 ** k):0{k}d}")
            if x > 0 and (diff is None or diff == (int(x * 1e9) != round(x * 1e9))):
                return x
        return 1.001

    def gen_policy_follow(self, rng, tier):
        """Off-grid parameters, and a caller that does what the property's second sentence describes: take
        everything the limiter grants at one instant, then keep waiting exactly the duration
        time_until_available returns (`drain`: arrivals at t + time_until_available(t), repeatedly) or ask
        and try at once (`tua` + `acq`), round after round.  Compared in `tol` mode (the model follows the
        code where they are within 1 ns); `tua-zero-but-refused`, `admitted-before-wait` and `drain-stalls`
        relate the implementation's returned wait to its own next decision only, so they are judged on
        its outputs as they are."""
        k = rng.choice(["tb", "lb", "sw", "fw", "fw", "fw", "ad"])
        diff = rng.random() < 0.6
        if k in ("sw", "fw"):
            spec = {"kind": k, "window": self.decimal_param(rng, diff=diff), "n": rng.choice([1, 1, 2, 3, 10])}
            unit, burst = int(spec["window"] * NS), spec["n"] + 1
        elif k == "tb":
            rate = self.decimal_param(rng, diff=diff) if rng.random() < 0.5 else rng.choice([3.0, 7.0, 0.3, 33.3, 1e3 / 7])
            cap = rng.choice([1.0, 1.0, 2.0, 3.3, 5.0])
            spec = {"kind": "tb", "capacity": cap, "rate": rate, "init": rng.choice([None, None, 0.0, 0.7])}
            unit, burst = int(NS / rate), int(cap) + 1
        elif k == "lb":
            rate = self.decimal_param(rng, diff=diff) if rng.random() < 0.5 else rng.choice([3.0, 7.0, 0.3, 33.3, 1e3 / 7])
            spec = {"kind": "lb", "rate": rate}
            unit, burst = int(NS / rate), 2
        else:
            window = rng.choice([1.0, 0.5, self.decimal_param(rng, bases=(0, 1), diff=diff)])
            mn = max(rng.choice([1.0, 2.5, 10.0]), 1.0 / window + 0.001)
            mx = max(mn, rng.choice([10.0, 100.0, 33.3]))
            spec = {"kind": "ad", "initial": rng.choice([mn, mx]), "min": mn, "max": mx,
                    "step": rng.choice([1.0, 0.1, 2.5]), "factor": rng.choice([0.5, 0.9, 0.3]), "window": window}
            unit, burst = int(NS / spec["initial"]), int(spec["initial"] * window) + 1
        unit = max(1, unit)
        t = rng.choice([0, 0, unit // 2, unit, rng.randrange(0, 3 * unit + 1), 500_000_000])
        ops = []
        for _ in range(rng.choice([2, 3, 4, 6])):
            for _ in range(min(burst, 12) + rng.choice([0, 0, 1])):
                ops.append(["acq", t])
            r = rng.random()
            if r < 0.7:
                ops.append(["drain", t])
            elif r < 0.8:
                ops += [["tua", t], ["acq", t]]
            elif r < 0.9:
                # the impatient caller: asks for the wait and tries ONE NANOSECOND before it has elapsed
                # (`early` = tua at t, then acq at t + wait - 1 ns when the wait is at least 2 ns)
                ops.append(["early", t])
            else:
                ops += [["tua", t], ["drain", t]]
            if k == "ad" and rng.random() < 0.3:
                ops.append([rng.choice(["succ", "fail"]), t])
            # the next round starts where the drain ended (op times are lower bounds) or later
            t += rng.choice([0, 0, 1, unit // 3, unit - 1, unit, unit + 1])
        return {"family": "policy-tol", "mode": "tol", "style": "follow", "policy": spec, "ops": ops[:120]}

    def gen_adaptive_feedback(self, rng, tier):
        """Feedback sequences for the adaptive policy's own clause ("the bucket bound of its current rate, for
        all success/failure feedback sequences").  Rounds of: let the bucket fill (idle gap) or not; zero to
        three record_failure / record_success calls — before the policy was ever asked (the refill clock not
        started), at the instant of the last call, or later; then, at the same instant, one grid step later, a
        refill interval later or a window later, a burst of try_acquire one larger than the bucket of the rate
        in force *before* the feedback, at one instant or split over two adjacent ones.  Small buckets
        (rate x window <= 32 tokens) keep the bursts short.  70 % on the float-exact grid (rates 1..16 with
        factor 1/2, 1/4, 3/4), 30 % with decimal parameters and nanosecond times (tol mode)."""
        exact = rng.random() < 0.7
        if exact:
            window = rng.choice([1.0, 1.0, 0.5, 2.0])
            mn = rng.choice([1.0, 2.0])
            if mn * window < 1:
                mn = 1.0 / window
            mx = rng.choice([4.0, 8.0, 16.0])
            spec = {"kind": "ad", "initial": rng.choice([mx, mx, mx / 2, mn]), "min": mn, "max": mx,
                    "step": rng.choice([1.0, 2.0, 8.0]), "factor": rng.choice([0.5, 0.5, 0.25, 0.75]), "window": window}
            step = G
            gap = lambda r: max(1, round(512 / r))           # one token's refill, in grid steps
            wsteps = round(window * 512)
        else:
            window = rng.choice([1.0, 0.5, 2.0, 0.1])
            mn = max(rng.choice([1.0, 2.5]), 1.0 / window + 0.001)
            mx = max(mn, rng.choice([10.0, 20.0, 33.3, 12.5]))
            if mx * window > 40:
                mx = 40.0 / window
            spec = {"kind": "ad", "initial": rng.choice([mx, mx, mn, (mn + mx) / 2]), "min": mn, "max": mx,
                    "step": rng.choice([1.0, 0.1, 2.5, 10.0]), "factor": rng.choice([0.5, 0.9, 0.3, 0.8]), "window": window}
            step = 1
            gap = lambda r: max(1, int(NS / r))
            wsteps = int(window * NS)
        rate = spec["initial"]
        t = rng.choice([0, 0, 1, wsteps])
        ops = []
        if rng.random() < 0.5:
            ops.append([rng.choice(["acq", "acq", "tua"] if not exact else ["acq"]), t * step])  # starts the refill clock
        for _ in range(rng.choice([1, 2, 3, 5])):
            if rng.random() < 0.6:
                t += wsteps * rng.choice([1, 1, 2]) + rng.choice([0, 0, 1])    # idle: the bucket fills up
                if rng.random() < 0.6:
                    ops.append(["acq", t * step])
            old = rate
            t += rng.choice([0, 0, 0, 1, gap(rate)])
            for _ in range(rng.choice([0, 1, 1, 1, 2, 3])):
                if rng.random() < 0.7:
                    rate = max(spec["min"], rate * spec["factor"])
                    ops.append(["fail", t * step])
                else:
                    rate = min(spec["max"], rate + spec["step"])
                    ops.append(["succ", t * step])
            t += rng.choice([0, 0, 0, 1, 1, gap(rate), wsteps, wsteps + 1])
            n = min(int(max(old, rate) * window) + 1, 40)
            k = rng.choice([n, n, n, max(1, n // 2)])
            for j in range(n):
                ops.append(["acq", (t + (1 if j >= k else 0)) * step])
            if n > k:
                t += 1
        return {"family": "policy-exact" if exact else "policy-tol", "mode": "exact" if exact else "tol",
                "style": "feedback", "policy": spec, "ops": ops[:200]}

    def gen_entity(self, rng, tier):
        if rng.random() < 0.06:
            spec = {"kind": "null"}
            B = 8
        else:
            spec = self.exact_spec(rng, for_entity=True)
            B = self.boundary_steps(spec)
        n = rng.choice([1, 2, 3, 5, 8, 12, 25])
        t = rng.choice([0, 0, G, 512 * G])
        reqs = []
        for _ in range(n):
            r = rng.random()
            if r < 0.35:
                dt = 0
            elif r < 0.5:
                dt = rng.choice([1, 2]) * G
            elif r < 0.85:
                dt = max(0, B * rng.choice([1, 1, 2]) + rng.choice([-1, 0, 0, 1])) * G
            else:
                dt = B * rng.choice([3, 10]) * G
            t += dt
            reqs.append(t)
        end = t + rng.choice([0, B * G, 3 * B * G, 40 * B * G, 40 * B * G, 400 * B * G])
        return {"family": "entity", "policy": spec, "qcap": rng.choice([0, 0, 1, 1, 2, 3, 1000, "inf"]),
                "reqs": reqs, "end": end, "inject": rng.choice(["pre", "handler"])}

    def gen_inductor(self, rng, tier):
        """Inductor inside a real Simulation: bursts (same instant, 1 ns apart), arrivals around the smoothed
        interval, long gaps; time constants from 1 ms to 10 s; queue capacity 0..3 or large.  Two arrivals at
        one instant followed by one a nanosecond later make the smoothed interval positive but below 1 ns
        (the poll wait truncates to zero; the 1 ns guard must keep the drain moving)."""
        n = rng.choice([2, 3, 4, 5, 8, 12, 25])
        base = rng.choice([NS, NS // 10, NS // 1000, 1000, 3 * NS])
        t = rng.choice([0, 0, 1, NS])
        reqs = []
        if rng.random() < 0.25:
            reqs += [t, t, t + 1, t + 1, t + 1][: rng.choice([3, 4, 5])]    # sub-nanosecond smoothed interval
            t += 1
        while len(reqs) < n:
            r = rng.random()
            if r < 0.25:
                dt = 0
            elif r < 0.4:
                dt = rng.choice([1, 2])
            elif r < 0.75:
                dt = max(0, base + rng.choice([-1, 0, 0, 1, base // 10, -(base // 10)]))
            elif r < 0.9:
                dt = base // rng.choice([2, 3, 10])
            else:
                dt = base * rng.choice([3, 10])
            t += dt
            reqs.append(t)
        end = t + rng.choice([0, base, 3 * base, 40 * base, 40 * base, 400 * base])
        return {"family": "entity", "policy": {"kind": "ind", "tau": rng.choice([0.001, 0.1, 1.0, 1.0, 10.0])},
                "qcap": rng.choice([0, 0, 1, 1, 2, 3, 1000, "inf"]), "reqs": reqs, "end": end,
                "inject": rng.choice(["pre", "handler"])}

    def gen_drl(self, rng, tier):
        """1–3 DistributedRateLimiter instances over one KVStore inside a real Simulation.  Windows, store
        latencies and arrival times on the 2^-9 s grid (the code floor-divides float seconds for the window
        id; off the grid that is the float-floor question of fixes/C10-fixed-window-float-floor, not asked
        here).  Half of the cases keep requests apart by more than a read + write round trip (sequential:
        the per-window limit is judged), the others overlap them (lost updates are by design; exactly-once,
        order and counters are judged).  A third of the cases are closed-loop ("inject": "chain"): every
        request is issued when the previous one has completed (forwarded or dropped), at max(its nominal
        time, now) — so requests never overlap in event order although, with a zero-latency store (half of
        these), whole bursts alternating between the instances share one timestamp; nominal times then
        repeat (dt = 0) most of the time.  "Sequential" for the judge is completion-before-start in event
        order, not distinct timestamps."""
        W = rng.choice([8, 64, 100, 512])                # window, grid steps
        unit = G
        if self.DRL_OFFGRID and rng.random() < 0.4:
            # decimal windows (0.1 s, 0.3 s, 0.7 s, 1.1 s) in milliseconds: `t // window` in doubles is off by one
            # on many window boundaries; the boundary-biased arrival times below land on them
            W, unit = rng.choice([100, 100, 300, 700, 1100, 10]), 10**6
        N = rng.choice([1, 1, 2, 3, 5])
        k = rng.choice([1, 1, 2, 3])
        rl, wl = rng.choice([0, 1, 1, 2, 5]), rng.choice([0, 1, 1, 3, 5])
        sequential = rng.random() < 0.5
        chain = rng.random() < 0.45
        if chain:
            k = rng.choice([2, 2, 2, 3, 1])
            if rng.random() < 0.6:
                rl = wl = 0
        n = rng.choice([2, 3, 5, 8, 12, 20])
        t = rng.choice([0, 0, 1, W, W - 1])
        reqs = []
        for _ in range(n):
            r = rng.random()
            if chain and r < 0.75:
                dt = 0                                                           # same-timestamp burst
            elif r < 0.3:
                dt = 0
            elif r < 0.5:
                dt = rng.choice([1, 2])
            elif r < 0.8:
                dt = max(0, (t // W + 1) * W - t + rng.choice([-1, 0, 0, 1]))     # next window boundary
            else:
                dt = rng.choice([W // 2, W, 3 * W])
            if sequential and not chain:
                dt = max(dt, rl + wl + 1)
            t += dt
            # closed loop: alternate between the instances (round robin) or pick at random
            reqs.append([(len(reqs) % k) if chain and k > 1 and rng.random() < 0.8 else rng.randrange(k), t * unit])
        case = {"family": "drl", "window": W, "limit": N, "ninst": k, "rlat": rl, "wlat": wl, "reqs": reqs,
                "end": (t + rng.choice([0, rl, rl + wl, 10 * W])) * unit, "policy": {"kind": "drl"}}
        if unit != G:
            case["unit"] = unit
        if chain:
            case["inject"] = "chain"
            case["end"] += n * (rl + wl + 1) * unit
        return case

    # ------------------------------------------------------------------ implementation
    def run_impl(self, case):
        if case["family"] == "entity":
            return self.impl_entity(case)
        if case["family"] == "drl":
            return self.impl_drl(case)
        return self.impl_policy(case)

    def impl_drl(self, case):
        from happysimulator.components.datastore import KVStore
        from happysimulator.components.rate_limiter.distributed import DistributedRateLimiter
        from happysimulator.core.entity import Entity
        from happysimulator.core.event import Event
        from happysimulator.core.simulation import Simulation
        from happysimulator.core.temporal import Instant

        log, emitted = [], []

        class Sink(Entity):
            def handle_event(self, event):
                return []

        sink = Sink("sink")
        U = drl_unit(case)
        store = KVStore(name="store", read_latency=case["rlat"] * U / NS, write_latency=case["wlat"] * U / NS)
        lims = [DistributedRateLimiter(f"lim{i}", sink, store, global_limit=case["limit"],
                                       window_size=case["window"] * U / NS) for i in range(case["ninst"])]
        budget = {"n": 0}
        chain = case.get("inject") == "chain"
        pending = {"k": 0}

        def next_request(now_ns):
            k = pending["k"]
            if k >= len(case["reqs"]):
                return []
            pending["k"] = k + 1
            i, t = case["reqs"][k]
            return [Event(time=Instant(max(t, now_ns)), event_type="req", target=lims[i], context={"rid": k})]

        def letter(a, b):
            if b.local_rejections > a.local_rejections:
                return "L"
            if b.global_rejections > a.global_rejections:
                return "G"
            if b.requests_forwarded > a.requests_forwarded:
                return "F"
            if b.store_writes > a.store_writes:
                return "W"
            if b.store_reads > a.store_reads:
                return "R"
            return "?"

        def tap(i, lim):
            orig = lim.handle_event

            def wrapped(event):
                rid = event.context.get("rid")
                gen = orig(event)
                before = lim.stats
                sent, first = None, True
                while True:
                    budget["n"] += 1
                    if budget["n"] > 5000:
                        raise RuntimeError("segment watchdog")
                    before = lim.stats          # other requests of this instance ran in between
                    try:
                        out = next(gen) if first else gen.send(sent)
                    except StopIteration as stop:
                        after = lim.stats
                        kind = "arr" if first else "res"
                        log.append(f"{kind} {i} {rid} {lim.now.nanoseconds} {letter(before, after)}")
                        for e in stop.value or []:
                            emitted.append(f"fwd {i} {e.context.get('rid')} {e.time.nanoseconds}")
                        if chain:
                            # closed loop: this request is complete (forwarded or dropped) — issue the next one
                            return list(stop.value or []) + next_request(lim.now.nanoseconds)
                        return stop.value
                    after = lim.stats
                    kind = "arr" if first else "res"
                    log.append(f"{kind} {i} {rid} {lim.now.nanoseconds} {letter(before, after)}")
                    first = False
                    sent = yield out

            lim.handle_event = wrapped

        for i, lim in enumerate(lims):
            tap(i, lim)
        sim = Simulation(entities=[*lims, sink, store], end_time=Instant(case["end"] + 1))
        if chain:
            for e in next_request(0):
                sim.schedule(e)
        else:
            for rid, (i, t) in enumerate(case["reqs"]):
                sim.schedule(Event(time=Instant(t), event_type="req", target=lims[i], context={"rid": rid}))
        sim.run()
        tail = []
        for i, lim in enumerate(lims):
            st = lim.stats
            tail.append(f"inst {i} {st.requests_received} {st.requests_forwarded} {st.requests_dropped} "
                        f"{st.local_rejections} {st.global_rejections} {st.store_reads} {st.store_writes} {lim.local_count}")
        wins = sorted(int(key.rsplit(":", 1)[1]) for key in store.keys())
        tail += [f"store {w} {store.get_sync(f'ratelimit:window:{w}')}" for w in wins]
        return log + emitted + tail

    def impl_policy(self, case):
        from happysimulator.core.temporal import Instant

        spec = case["policy"]
        pol = make_policy(spec)
        D = ad_scale(spec) if spec["kind"] == "ad" else None
        out, now = [], 0
        for op in case["ops"]:
            kind, t = op[0], max(int(op[1]), now)
            now = t
            if kind == "acq":
                out.append(f"acq {t} {int(bool(pol.try_acquire(Instant(t))))}")
            elif kind == "tua":
                out.append(f"tua {t} {pol.time_until_available(Instant(t)).nanoseconds}")
            elif kind == "drain":
                cur, ws = t, []
                for _ in range(6):
                    w = pol.time_until_available(Instant(cur)).nanoseconds
                    ws.append(w)
                    if w == 0:
                        break
                    cur += w
                d = int(bool(pol.try_acquire(Instant(cur))))
                now = cur
                out.append(f"drain {t} {' '.join(map(str, ws))} {d}")
            elif kind == "early":
                w = pol.time_until_available(Instant(t)).nanoseconds
                out.append(f"tua {t} {w}")
                if w >= 2:
                    now = t + w - 1
                    out.append(f"acq {now} {int(bool(pol.try_acquire(Instant(now))))}")
            elif kind in ("succ", "fail"):
                if kind == "succ":
                    pol.record_success(Instant(t))
                else:
                    pol.record_failure(Instant(t))
                out.append(f"{kind} {t} {int(F(pol.current_rate) * D)}")
            else:
                raise ValueError(kind)
        return out

    def impl_entity(self, case):
        from happysimulator.components.rate_limiter.inductor import Inductor
        from happysimulator.components.rate_limiter.null import NullRateLimiter
        from happysimulator.components.rate_limiter.rate_limited_entity import RateLimitedEntity
        from happysimulator.core.entity import Entity
        from happysimulator.core.event import Event
        from happysimulator.core.simulation import Simulation
        from happysimulator.core.temporal import Instant

        spec = case["policy"]
        log, sink_log, emitted = [], [], []
        # "inf": the queue's own default (FIFOQueue(capacity=float("inf"))) — an unbounded buffer
        qcap = float("inf") if case["qcap"] == "inf" else case["qcap"]

        class Sink(Entity):
            def handle_event(self, event):
                sink_log.append((event.context.get("rid"), event.time.nanoseconds))
                return []

        sink = Sink("sink")
        if spec["kind"] == "null":
            lim = NullRateLimiter("lim", sink)
        elif spec["kind"] == "ind":
            lim = Inductor("lim", sink, time_constant=spec["tau"], queue_capacity=qcap)
        else:
            lim = RateLimitedEntity("lim", sink, make_policy(spec), queue_capacity=qcap)
        is_null = spec["kind"] == "null"
        orig = lim.handle_event
        depth = (lambda: 0) if is_null else (lambda: lim.queue_depth)
        counts = {"n": 0, "recv": 0, "fwd": 0}

        def stats():
            if is_null:
                return (0, 0)
            s = lim.stats
            return (s.queued, s.dropped)

        def tapped(event):
            counts["n"] += 1
            if counts["n"] > 5000:
                # a drain that does not advance (polls re-armed at the same instant for ever): stop feeding it
                if counts["n"] == 5001:
                    log.append("watchdog")
                return []
            q0, d0 = stats()
            res = orig(event)
            q1, d1 = stats()
            fid, poll = "-", "-"
            for e in res or []:
                if e.target is lim:
                    poll = str(e.time.nanoseconds)
                else:
                    fid = str(e.context.get("rid"))
                    counts["fwd"] += 1
                    emitted.append((fid, e.time.nanoseconds))
            t = event.time.nanoseconds
            if event.target is lim and event.event_type.startswith(("rate_limit_poll::", "inductor_poll::")):
                log.append(f"poll {t} {fid} {poll} {depth()}")
            else:
                counts["recv"] += 1
                log.append(f"req {event.context.get('rid')} {t} {fid} {q1 - q0} {d1 - d0} {poll} {depth()}")
            return res

        lim.handle_event = tapped

        class Src(Entity):
            def handle_event(self, event):
                return [Event(time=Instant(t), event_type="req", target=lim, context={"rid": i}) for i, t in enumerate(case["reqs"])]

        src = Src("src")
        # events are created after the Simulation exists: its constructor resets the global creation counter
        sim = Simulation(entities=[src, lim, sink], end_time=Instant(case["end"] + 1))
        if case["inject"] == "pre":
            for i, t in enumerate(case["reqs"]):
                sim.schedule(Event(time=Instant(t), event_type="req", target=lim, context={"rid": i}))
        else:
            sim.schedule(Event(time=Instant(0), event_type="go", target=src))
        sim.run()
        if is_null:
            tail = f"end 0 {counts['recv']} {counts['fwd']} 0"
        else:
            s = lim.stats
            tail = f"end {lim.queue_depth} {s.received} {s.forwarded} {s.dropped}"
        # forwarded = what the limiter emitted towards its downstream, in emission order (the engine may stop at
        # end_time before the sink sees the last ones; delivery is C01's business)
        return log + [f"fwd {i} {t}" for i, t in emitted] + [tail] + (["orc-left 0 0"] if spec["kind"] == "ind" else [])

    def _impl_cached(self, case):
        key = json.dumps(case, sort_keys=True)
        if key not in self._cache:
            if len(self._cache) > 5000:
                self._cache.clear()
            self._cache[key] = core.run_impl_safe(self, case)
        return self._cache[key]

    # ------------------------------------------------------------------ model / judge
    def model_block(self, case, variant):
        spec = case["policy"]
        if case["family"] == "drl":
            # the order in which the engine ran the generators' segments comes from the real run (GUIDE rule 8)
            segs = [" ".join(l.split()[:4]) for l in self._impl_cached(case) if l.startswith(("arr ", "res "))]
            if variant == "current":
                segs = [f"{l} {drl_float_wid(case, int(l.split()[3]))}" if l.startswith("arr ") else l for l in segs]
            return (f"drl {variant} {drl_window_ns(case)} {case['limit']} {case['ninst']}", segs)
        cfg = " ".join(map(str, cfg_tokens(spec)))
        if case["family"] == "entity":
            # the delivery schedule comes from the real engine (GUIDE rule 8)
            sched = []
            if spec["kind"] == "ind":
                cfg += " " + " ".join(inductor_oracle(self._impl_cached(case)))
            for line in self._impl_cached(case):
                t = line.split()
                if t[0] == "req":
                    sched.append(f"req {t[1]} {t[2]} {t[6]}")
                elif t[0] == "poll":
                    sched.append(f"poll {t[1]} {t[3]}")
            # unbounded = a capacity the run cannot reach (entity_unbounded_never_drops)
            return (f"entity {10**18 if case['qcap'] == 'inf' else case['qcap']} {cfg}", sched)
        if case["mode"] == "tol":
            hints = self._impl_cached(case)
            if any(op[0] == "early" for op in case["ops"]) and hints and not any(h.startswith("IMPL-") for h in hints):
                # the time of the second half of an `early` op is the code's own answer: the model replays the
                # implementation's operation lines (operation, time, the code's answer as the tol-mode hint)
                return (f"policy tol {cfg}", [" ".join(h.split()) for h in hints])
            body = []
            for k, op in enumerate(case["ops"]):
                h = hints[k].split()[2:] if k < len(hints) and not hints[k].startswith("IMPL-") else []
                body.append(" ".join([op[0], str(op[1])] + h))
            return (f"policy tol {cfg}", body)
        return (f"policy exact {cfg}", [f"{op[0]} {op[1]}" for op in case["ops"]])

    def model_postprocess(self, case, out):
        if out and out[-1].startswith("unjudged "):
            self._unjudged += int(out[-1].split()[1])
            if case["family"] == "policy-tol":
                self._tol_ops += len(out) - 1
            return out[:-1]
        return out

    def judge_block(self, case, impl_out):
        if not impl_out or impl_out[0].startswith("IMPL-"):
            return None
        if case["family"] == "drl":
            return (f"judge-drl {drl_window_ns(case)} {case['limit']} {case['ninst']}", list(impl_out))
        cfg = " ".join(map(str, cfg_tokens(case["policy"])))
        if case["family"] == "entity":
            if case["policy"]["kind"] == "ind":
                cfg += " d"     # the judge reads the transcript only; no oracle
            return (f"judge-entity {case['qcap']} {cfg}", list(impl_out))
        return (f"judge-policy {case['mode']} {cfg}", list(impl_out))

    def extra_checks(self, ctx):
        ctx.stats["float_boundary_unjudged"] = self._unjudged
        ctx.stats["policy_tol_operations"] = self._tol_ops
        return []

    def nontrivial_key(self, case, impl_out):
        if case["family"] == "drl":
            outs = {l.split()[4] for l in impl_out if l.startswith(("arr ", "res "))}
            return json.dumps(case, sort_keys=True) if "F" in outs and outs & {"L", "G"} else None
        if case["family"] == "entity":
            if any(l.startswith("req ") and (l.split()[4] == "1" or l.split()[5] == "1") for l in impl_out):
                return json.dumps(case, sort_keys=True)
            return None
        yes = any((l.startswith("acq ") or l.startswith("drain ")) and l.endswith(" 1") for l in impl_out)
        no = any(l.startswith("acq ") and l.endswith(" 0") for l in impl_out)
        return json.dumps(case, sort_keys=True) if yes and no else None

    def shrink(self, case):
        key = "reqs" if case["family"] in ("entity", "drl") else "ops"
        xs = case[key]
        n = len(xs)
        step = max(1, n // 2)
        while step >= 1:
            for i in range(0, n, step):
                cand = dict(case)
                cand[key] = xs[:i] + xs[i + step:]
                if len(cand[key]) < n:
                    yield cand
            step //= 2
        if case["family"] == "entity" and case["inject"] != "pre":
            yield dict(case, inject="pre")

    def mutate(self, case, rng):
        c = json.loads(json.dumps(case))
        unit = 1 if case["family"] == "policy-tol" else G
        if case["family"] == "drl":
            xs = c["reqs"]
            if xs:
                i = rng.randrange(len(xs))
                k = rng.random()
                if k < 0.3:
                    xs.insert(i, list(xs[i]))
                elif k < 0.5 and len(xs) > 1:
                    del xs[i]
                elif k < 0.7:
                    xs[i][0] = rng.randrange(c["ninst"])
                else:
                    d = rng.choice([-2, -1, 1, 2]) * drl_unit(c)
                    for j in range(i, len(xs)):
                        xs[j][1] = max(0, xs[j][1] + d)
                c["reqs"] = sorted(xs, key=lambda r: r[1])
                c["end"] = max([c["end"]] + [r[1] for r in xs])
            return c
        if case["family"] == "entity":
            xs = c["reqs"]
            if not xs:
                return c
            for _ in range(rng.randint(1, 3)):
                i = rng.randrange(len(xs))
                k = rng.random()
                if k < 0.3:
                    xs.insert(i, xs[i])
                elif k < 0.6 and len(xs) > 1:
                    del xs[i]
                else:
                    d = rng.choice([-2, -1, 1, 2]) * unit
                    for j in range(i, len(xs)):
                        xs[j] = max(0, xs[j] + d)
            c["reqs"] = sorted(xs)
            c["end"] = max([c["end"]] + xs)
            return c
        xs = c["ops"]
        if not xs:
            return c
        for _ in range(rng.randint(1, 3)):
            i = rng.randrange(len(xs))
            k = rng.random()
            if k < 0.25:
                xs.insert(i, list(xs[i]))
            elif k < 0.45 and len(xs) > 1:
                del xs[i]
            elif k < 0.6:
                xs.insert(i, ["tua", xs[i][1]])
            else:
                d = rng.choice([-2, -1, 1, 2]) * unit
                for j in range(i, len(xs)):
                    xs[j][1] = max(0, xs[j][1] + d)
        return c


THEOREMS = [
    "HappyModel.C10.token_bucket_bound",
    "HappyModel.C10.leaky_spacing",
    "HappyModel.C10.sliding_window_bound",
    "HappyModel.C10.sliding_window_spec",
    "HappyModel.C10.fixed_window_bounds",
    "HappyModel.C10.fixed_window_spec",
    "HappyModel.C10.adaptive_rate_in_range",
    "HappyModel.C10.adaptive_bucket_bound",
    "HappyModel.C10.tua_zero_admits",
    "HappyModel.C10.tua_positive_blocks",
    "HappyModel.C10.tua_positive_blocks_run",
    "HappyModel.C10.tua_blocks_spec",
    "HappyModel.C10.leaky_spacing_reachable",
    "HappyModel.C10.leaky_spacing_any_state",
    "HappyModel.C10.sliding_window_bound_reachable",
    "HappyModel.C10.fixed_window_bounds_reachable",
    "HappyModel.C10.policy_hist_reachable",
    "HappyModel.C10.adaptive_credit_bound",
    "HappyModel.C10.adaptive_current_rate_bound",
    "HappyModel.C10.adaptive_credit_le_pmax",
    "HappyModel.C10.adaptive_naive_integral_bound_false",
    "HappyModel.C10.adaptive_epoch_bound",
    "HappyModel.C10.adaptive_bucket_within_rate",
    "HappyModel.C10.adaptive_burst_after_decrease",
    "HappyModel.C10.tua_reaches_admission",
    "HappyModel.C10.entity_exactly_once",
    "HappyModel.C10.entity_exactly_once_spec",
    "HappyModel.C10.entity_fifo",
    "HappyModel.C10.entity_drain_never_stalls",
    "HappyModel.C10.refusal_waits_policies",
    "HappyModel.C10.inductor_exactly_once_fifo_drains",
    "HappyModel.C10.drl_exactly_once",
    "HappyModel.C10.drl_exactly_once_spec",
    "HappyModel.C10.drl_sequential_window_bound",
    "HappyModel.C10.drl_aligned_window_repaired",
    "HappyModel.C10.drl_aligned_window_current_false",
    "HappyModel.C10.entity_capacity_respected",
    "HappyModel.C10.entity_unbounded_never_drops",
    "HappyModel.C10.adaptive_cross_epoch_bound",
    "HappyModel.C10.adaptive_wait_honoured_until_raise",
    "HappyModel.C10.adaptive_blocks_spec_through_feedback",
    "HappyModel.C10.adaptive_wait_not_binding_after_raise",
    "HappyModel.C10.drain_never_stalls_run",
    "HappyModel.C10.refusal_waits_window_policies",
]
C10.theorems = THEOREMS
PROPERTY = C10()
