"""C10 — rate limiters never over-admit and report time-until-available truthfully.

Correspondence: the real `TokenBucketPolicy` / `LeakyBucketPolicy` / `SlidingWindowPolicy` /
`FixedWindowPolicy` / `AdaptivePolicy` objects from /repo are driven directly with generated
`Instant`s (families `policy-exact`, `policy-tol`), and `RateLimitedEntity` / `NullRateLimiter`
run inside a real `Simulation` (family `entity`).  The same inputs go to the exact-integer Lean model
(`HappyModel/C10`); transcripts are diffed; the Lean Spec predicates (`HappyModel/C10/Spec.lean`)
judge the implementation's own transcript.

Floats.  The code computes in float seconds, the model in exact integers (ns; tokens scaled so that
`one` units = 1 token and the rate is `p` units/ns).  `policy-exact` cases live on a grid where every
float operation of the code is exact (times = multiples of 2^-9 s, rates = powers of two or small
integers coprime to 5, dyadic capacities): there the transcripts must be identical.  `policy-tol`
cases are arbitrary (decimal rates, ns-adjacent times): the model is also given what the code
answered, keeps its own answer wherever its margin from the threshold is at least 1e-6 token
(acquire) or the waits differ by more than 1 ns (time_until_available), and otherwise follows the
code and counts the operation in `float_boundary_unjudged`; the Lean judge still checks the code's
admitted timestamps against the bounds (with 1e-6 token slack).
"""
from __future__ import annotations

import json
import math
import random
from fractions import Fraction as F

from hv import core  # puts HV_REPO (default /repo) on sys.path

# imported here so that forked pool workers inherit the loaded package
import happysimulator.components.rate_limiter.policy  # noqa: E402,F401
import happysimulator.components.rate_limiter.rate_limited_entity  # noqa: E402,F401
import happysimulator.core.simulation  # noqa: E402,F401

G = 1_953_125  # 2^-9 s in ns: the float-exact time grid
NS = 10**9

# rates for which every float operation of the policies is exact on the grid (see module docstring)
EXACT_RATES = [0.125, 0.25, 0.5, 1.0, 2.0, 4.0, 8.0, 16.0, 64.0, 3.0, 6.0, 7.0, 9.0, 12.0, 24.0, 48.0]
POW2_RATES = [0.125, 0.25, 0.5, 1.0, 2.0, 4.0, 8.0, 16.0, 64.0]


def _lcm(a, b):
    return a * b // math.gcd(a, b)


def _den(*xs):
    d = 1
    for x in xs:
        d = _lcm(d, F(x).denominator)
    return d


def make_policy(spec):
    from happysimulator.components.rate_limiter.policy import (
        AdaptivePolicy, FixedWindowPolicy, LeakyBucketPolicy, SlidingWindowPolicy, TokenBucketPolicy)

    k = spec["kind"]
    if k == "tb":
        return TokenBucketPolicy(capacity=spec["capacity"], refill_rate=spec["rate"], initial_tokens=spec.get("init"))
    if k == "lb":
        return LeakyBucketPolicy(leak_rate=spec["rate"])
    if k == "sw":
        return SlidingWindowPolicy(window_size_seconds=spec["window"], max_requests=spec["n"])
    if k == "fw":
        return FixedWindowPolicy(requests_per_window=spec["n"], window_size=spec["window"])
    if k == "ad":
        return AdaptivePolicy(initial_rate=spec["initial"], min_rate=spec["min"], max_rate=spec["max"],
                              increase_step=spec["step"], decrease_factor=spec["factor"], window_size=spec["window"])
    raise ValueError(k)


def ad_scale(spec):
    return _lcm(2**64, _den(spec["initial"], spec["min"], spec["max"], spec["step"]))


def cfg_tokens(spec):
    """policy parameters as the exact scaled integers of HappyModel/C10/Policy.lean"""
    from happysimulator.core.temporal import Duration

    k = spec["kind"]
    if k == "tb":
        cap = F(float(spec["capacity"]))
        init = cap if spec.get("init") is None else F(float(spec["init"]))
        rate = F(float(spec["rate"]))
        D = _den(cap, init, rate)
        one = D * NS
        return ["tb", int(cap * one), int(rate * D), one, int(init * one)]
    if k == "lb":
        rate = F(float(spec["rate"]))
        return ["lb", rate.numerator, rate.denominator * NS]
    if k == "sw":
        return ["sw", Duration.from_seconds(float(spec["window"])).nanoseconds, int(spec["n"])]
    if k == "fw":
        return ["fw", max(1, Duration.from_seconds(spec["window"]).nanoseconds), int(spec["n"])]
    if k == "ad":
        D = ad_scale(spec)
        one = D * NS
        fac = F(spec["factor"])
        w = F(spec["window"]) * NS
        tok0 = F(spec["initial"] * spec["window"]) * one
        return ["ad", int(F(spec["min"]) * D), int(F(spec["max"]) * D), int(F(spec["step"]) * D),
                fac.numerator, fac.denominator, w.numerator, w.denominator, one,
                int(F(spec["initial"]) * D), int(tok0)]
    if k == "null":
        return ["null"]
    raise ValueError(k)


class C10(core.Property):
    id = "C10"
    driver = "drv-c10"
    lake_targets = ["HappyProofs.C10.Props", "drv-c10"]
    audit_imports = ["HappyProofs.C10.Props"]
    lean_files = ["HappyModel/C10/*.lean", "HappyProofs/C10/*.lean", "HappyModel/Proto.lean", "Driver/C10.lean"]
    theorems = []
    quick_cases = 1500
    thorough_cases = 60000
    case_timeout_s = 60
    rule = ("family policy-exact (≈7/12): one of the five policies with parameters on the float-exact grid, ≤60 "
            "acquire / time_until_available / drain / feedback operations at grid times placed on, one step before and "
            "one step after refill and window boundaries; family policy-tol (≈1/4): arbitrary decimal parameters and "
            "nanosecond-adjacent times, compared where the exact model's margin is clear; of these, ≈1/3 are 'follow' scripts: off-grid "
            "parameters — window sizes / rates written as decimals with 1–4 fractional digits, 60 % of them chosen so that truncating and "
            "rounding x·1e9 differ by 1 ns (1.001 s, 1.017 s, 33.3/s) — and 2–6 rounds of: take everything granted at one instant, then arrive "
            "exactly at t + time_until_available(t) again and again (drain) or ask and try at once; family entity (≈1/6): "
            "RateLimitedEntity or NullRateLimiter inside a real Simulation, ≤25 requests, queue capacity 0–3 or large. "
            "A policy case is non-trivial when it has at least one granted and one refused acquire; an entity case "
            "when at least one request was queued or dropped; distinct = distinct case content")
    trusted_base = [
        "hv/props/c10.py adapters: parameter scaling with fractions.Fraction, the drain loop, the tap wrapped "
        "around RateLimitedEntity.handle_event (reads event type/time/context id, the returned events and the public "
        "stats/queue_depth)",
        "IEEE-754 rounding inside the policies is validated by the grid/tolerance scheme, not proved",
        "entity cases take the delivery schedule (which event reached the limiter when) from the real engine",
    ]
    assumptions = [
        "operation times never decrease (the engine guarantees it; C01)",
        "refill/leak rate > 0, bucket capacity ≥ 1 token (adaptive: min_rate·window_size ≥ 1), max_requests ≥ 1 — "
        "otherwise no request is ever admitted and a drain cannot finish",
        "request ids are distinct",
        "policy-tol: decisions within 1e-6 token of the threshold and waits within 1 ns are not compared "
        "(counted in float_boundary_unjudged); the bounds are judged with 1e-6 token slack",
        "DistributedRateLimiter and Inductor are not modelled (see final report)",
    ]
    partial_theorems = {
        "HappyModel.C10.adaptive_credit_bound": "the sharp adaptive bound is stated with the credit the code actually grants "
        "(AD.credit = sum over try_acquire / time_until_available calls of rate-at-the-call x time-since-the-previous-call): "
        "admissions*one + tokens_left <= tokens_at_start + credit, from any state, for any operation list; between two rate "
        "changes it is the bucket bound of the current rate (adaptive_current_rate_bound) and it implies the pmax bound "
        "(adaptive_credit_le_pmax). The naive form 'capacity + integral of the rate in force at each instant' is NOT a theorem: "
        "_refill applies the rate in force at the call to the whole time since the previous call, so a record_success just before "
        "an acquire is credited retroactively (adaptive_naive_integral_bound_false: decided witness, 6 admissions = 240 units "
        "against capacity(pmax) 80 + integral 20)",
        "HappyModel.C10.tua_positive_blocks_run": "adaptive policy: the returned wait is honoured up to the next "
        "record_success / record_failure only (hypothesis NoFeedback; blocksOK's noEarly stops at the feedback record) — a rate "
        "increase legitimately admits earlier (example in Props.lean); the other four policies carry no such restriction",
    }
    hypotheses = ["Mono: operation times never decrease", "0 < p (rate)", "one ≤ cap (capacity at least one token)",
                  "1 ≤ N", "0 < W", "distinct request ids (entity_exactly_once)"]

    def __init__(self):
        self._unjudged = 0
        self._tol_ops = 0
        self._cache = {}

    # ------------------------------------------------------------------ generation
    def generate(self, rng: random.Random, i: int, tier: str) -> dict:
        m = i % 6
        if m == 5:
            return self.gen_entity(rng, tier)
        if m == 4:
            return self.gen_policy_tol(rng, tier)
        if m == 3 and (i // 6) % 2 == 0:
            return self.gen_policy_follow(rng, tier)
        return self.gen_policy_exact(rng, tier)

    # --- exact grid
    def exact_spec(self, rng, kinds=("tb", "lb", "sw", "fw", "ad"), for_entity=False):
        k = rng.choice(kinds)
        if k == "tb":
            cap = rng.choice([1.0, 1.0, 2.0, 3.0, 5.0, 1.5, 2.5, 8.0])
            rate = rng.choice(POW2_RATES if for_entity else EXACT_RATES)
            init = rng.choice([None, None, None, 0.0, 1.0, 0.5, cap + 1.0, cap / 2])
            return {"kind": "tb", "capacity": cap, "rate": rate, "init": init}
        if k == "lb":
            return {"kind": "lb", "rate": rng.choice(POW2_RATES if for_entity else EXACT_RATES)}
        if k == "sw":
            w = rng.choice([1, 2, 8, 64, 100, 512, 1024]) * G / NS
            return {"kind": "sw", "window": w, "n": rng.choice([1, 1, 2, 3, 5])}
        if k == "fw":
            w = rng.choice([1, 2, 8, 64, 100, 512, 1024]) * G / NS
            return {"kind": "fw", "window": w, "n": rng.choice([1, 1, 2, 3, 5])}
        # adaptive: integer / dyadic rates, factor with few bits, min_rate * window >= 1
        window = rng.choice([1.0, 1.0, 0.5, 2.0, 0.25])
        mn = rng.choice([1.0, 2.0, 4.0])
        if mn * window < 1:
            mn = 1.0 / window
        mx = rng.choice([mn, 8.0, 16.0, 64.0, 1000.0])
        mx = max(mx, mn)
        initial = rng.choice([mn, mx, (mn + mx) / 2 if ((mn + mx) / 2).is_integer() else mn, min(mx, mn * 2)])
        if for_entity:
            # no feedback inside the entity: the rate stays `initial`, which must keep tua exact
            initial = rng.choice([r for r in POW2_RATES if r * window >= 1])
            mn, mx = min(mn, initial), max(mx, initial)
            if mn * window < 1:
                mn = initial
        return {"kind": "ad", "initial": initial, "min": mn, "max": mx,
                "step": rng.choice([1.0, 2.0, 0.5, 8.0]), "factor": rng.choice([0.5, 0.5, 0.25, 0.75]), "window": window}

    @staticmethod
    def boundary_steps(spec):
        """the refill / window boundary in grid steps (≥ 1)"""
        k = spec["kind"]
        if k in ("tb", "lb"):
            return max(1, round(512 / spec["rate"]))
        if k in ("sw", "fw"):
            return max(1, round(spec["window"] * 512))
        return max(1, round(512 / spec["initial"]))

    def gen_ops(self, rng, spec, unit, jitter, n_max, allow_tua=True, allow_drain=True):
        """ops with times (lower bounds) in ns; `unit` = base step, `jitter` = offsets tried around boundaries"""
        # everything below is in multiples of `step` (grid step on the exact grid, 1 ns otherwise)
        k = spec["kind"]
        if unit == G:
            step, bnd = G, self.boundary_steps(spec)
        else:
            step, bnd = 1, unit
        n = rng.choice([3, 6, 12, 25, 40, n_max])
        t = rng.choice([0, 0, 1, 7, 1000]) * (1 if unit == G else unit)
        ops, fails = [], 0
        while len(ops) < n:
            r = rng.random()
            if r < 0.25:
                dt = 0
            elif r < 0.4:
                dt = rng.choice(jitter)
            elif r < 0.75:
                dt = max(0, bnd * rng.choice([1, 1, 1, 2, 3]) + rng.choice(jitter + [0, 0]) * rng.choice([-1, 1]))
            elif r < 0.85 and k in ("sw", "fw"):
                # land exactly on / next to an aligned window boundary
                nxt = (t // bnd + 1) * bnd
                dt = max(0, nxt - t + rng.choice([0, 0] + jitter) * rng.choice([-1, 1]))
            elif r < 0.95:
                dt = max(0, bnd // rng.choice([2, 3, 4]))
            else:
                dt = bnd * rng.choice([5, 10, 50])
            t += dt
            T = t * step
            c = rng.random()
            if k == "ad" and c < 0.22:
                if rng.random() < 0.5 and fails < 12:
                    fails += 1
                    ops.append(["fail", T])
                else:
                    ops.append(["succ", T])
            elif c < 0.5 or not allow_tua:
                ops.append(["acq", T])
            elif c < 0.6:
                for _ in range(rng.choice([2, 3, 5])):
                    ops.append(["acq", T])
            elif c < 0.72:
                ops.append(["tua", T])
            elif c < 0.9:
                ops.append(["tua", T])
                ops.append(["acq", T])
            elif allow_drain:
                ops.append(["drain", T])
            else:
                ops.append(["acq", T])
        return ops

    def gen_policy_exact(self, rng, tier):
        spec = self.exact_spec(rng)
        nmax = 60 if tier == "quick" else 120
        # a drain moves the clock by the returned wait, which stays on the grid only for power-of-two rates
        # (and the sliding window's 1 ns guard at the expiry instant leaves the grid as well)
        drain_ok = spec["kind"] == "fw" or spec.get("rate") in POW2_RATES
        ops = self.gen_ops(rng, spec, G, [1, 1, 2], nmax, allow_tua=spec["kind"] != "ad", allow_drain=drain_ok)
        return {"family": "policy-exact", "mode": "exact", "policy": spec, "ops": ops}

    def gen_policy_tol(self, rng, tier):
        k = rng.choice(["tb", "lb", "sw", "fw", "ad"])
        rates = [0.1, 0.3, 1.0, 5.0, 10.0, 100.0, 1000.0, 7.5, 33.3, 2.0]
        if k == "tb":
            cap = rng.choice([1.0, 5.0, 10.0, 100.0, 1.25, 3.3])
            spec = {"kind": "tb", "capacity": cap, "rate": rng.choice(rates), "init": rng.choice([None, None, 0.0, 0.7, cap])}
            unit = int(NS / spec["rate"])
        elif k == "lb":
            spec = {"kind": "lb", "rate": rng.choice(rates)}
            unit = int(NS / spec["rate"])
        elif k in ("sw", "fw"):
            spec = {"kind": k, "window": rng.choice([0.1, 1.0, 0.25, 0.001, 0.3, 0.7, 2.5, 1]), "n": rng.choice([1, 1, 2, 3, 10])}
            unit = int(spec["window"] * NS)
        else:
            window = rng.choice([1.0, 0.1, 0.5, 2.0])
            mn = rng.choice([1.0, 10.0, 2.5])
            if mn * window < 1:
                mn = 1.0 / window
            mx = max(mn, rng.choice([10.0, 100.0, 1000.0, 10000.0]))
            spec = {"kind": "ad", "initial": rng.choice([mn, mx, min(mx, mn * 3)]), "min": mn, "max": mx,
                    "step": rng.choice([1.0, 0.1, 10.0, 2.5]), "factor": rng.choice([0.5, 0.9, 0.3, 0.75]), "window": window}
            unit = int(NS / spec["initial"])
        nmax = 60 if tier == "quick" else 120
        ops = self.gen_ops(rng, spec, max(1, unit), [1, 1, 2, 1000, 999_999], nmax)
        return {"family": "policy-tol", "mode": "tol", "policy": spec, "ops": ops}

    @staticmethod
    def decimal_param(rng, bases=(0, 0, 1, 1, 2, 10), diff=None):
        """A decimal with 1–4 fractional digits, as a user writes it (1.001, 0.35, 2.0175).  For about
        4 % of them the nanosecond count differs between truncating and rounding x·1e9
        (1.001 -> 1000999999 vs 1001000000), so two conversions of the same parameter inside a policy
        can disagree by 1 ns; `diff=True` asks for one of those, `diff=False` for one of the others."""
        for _ in range(400):
            k = rng.randint(1, 4)
            x = float(f"{rng.choice(bases)}.{rng.randrange(1, 10 ** k):0{k}d}")
            if x > 0 and (diff is None or diff == (int(x * 1e9) != round(x * 1e9))):
                return x
        return 1.001

    def gen_policy_follow(self, rng, tier):
        """Off-grid parameters, and a caller that does what the property's second sentence describes: take
        everything the limiter grants at one instant, then keep waiting exactly the duration
        time_until_available returns (`drain`: arrivals at t + time_until_available(t), repeatedly) or ask
        and try at once (`tua` + `acq`), round after round.  Compared in `tol` mode (the model follows the
        code where they are within 1 ns); `tua-zero-but-refused`, `admitted-before-wait` and `drain-stalls`
        relate the implementation's returned wait to its own next decision only, so they are judged on
        its outputs as they are."""
        k = rng.choice(["tb", "lb", "sw", "fw", "fw", "fw", "ad"])
        diff = rng.random() < 0.6
        if k in ("sw", "fw"):
            spec = {"kind": k, "window": self.decimal_param(rng, diff=diff), "n": rng.choice([1, 1, 2, 3, 10])}
            unit, burst = int(spec["window"] * NS), spec["n"] + 1
        elif k == "tb":
            rate = self.decimal_param(rng, diff=diff) if rng.random() < 0.5 else rng.choice([3.0, 7.0, 0.3, 33.3, 1e3 / 7])
            cap = rng.choice([1.0, 1.0, 2.0, 3.3, 5.0])
            spec = {"kind": "tb", "capacity": cap, "rate": rate, "init": rng.choice([None, None, 0.0, 0.7])}
            unit, burst = int(NS / rate), int(cap) + 1
        elif k == "lb":
            rate = self.decimal_param(rng, diff=diff) if rng.random() < 0.5 else rng.choice([3.0, 7.0, 0.3, 33.3, 1e3 / 7])
            spec = {"kind": "lb", "rate": rate}
            unit, burst = int(NS / rate), 2
        else:
            window = rng.choice([1.0, 0.5, self.decimal_param(rng, bases=(0, 1), diff=diff)])
            mn = max(rng.choice([1.0, 2.5, 10.0]), 1.0 / window + 0.001)
            mx = max(mn, rng.choice([10.0, 100.0, 33.3]))
            spec = {"kind": "ad", "initial": rng.choice([mn, mx]), "min": mn, "max": mx,
                    "step": rng.choice([1.0, 0.1, 2.5]), "factor": rng.choice([0.5, 0.9, 0.3]), "window": window}
            unit, burst = int(NS / spec["initial"]), int(spec["initial"] * window) + 1
        unit = max(1, unit)
        t = rng.choice([0, 0, unit // 2, unit, rng.randrange(0, 3 * unit + 1), 500_000_000])
        ops = []
        for _ in range(rng.choice([2, 3, 4, 6])):
            for _ in range(min(burst, 12) + rng.choice([0, 0, 1])):
                ops.append(["acq", t])
            r = rng.random()
            if r < 0.7:
                ops.append(["drain", t])
            elif r < 0.85:
                ops += [["tua", t], ["acq", t]]
            else:
                ops += [["tua", t], ["drain", t]]
            if k == "ad" and rng.random() < 0.3:
                ops.append([rng.choice(["succ", "fail"]), t])
            # the next round starts where the drain ended (op times are lower bounds) or later
            t += rng.choice([0, 0, 1, unit // 3, unit - 1, unit, unit + 1])
        return {"family": "policy-tol", "mode": "tol", "style": "follow", "policy": spec, "ops": ops[:120]}

    def gen_entity(self, rng, tier):
        if rng.random() < 0.06:
            spec = {"kind": "null"}
            B = 8
        else:
            spec = self.exact_spec(rng, for_entity=True)
            B = self.boundary_steps(spec)
        n = rng.choice([1, 2, 3, 5, 8, 12, 25])
        t = rng.choice([0, 0, G, 512 * G])
        reqs = []
        for _ in range(n):
            r = rng.random()
            if r < 0.35:
                dt = 0
            elif r < 0.5:
                dt = rng.choice([1, 2]) * G
            elif r < 0.85:
                dt = max(0, B * rng.choice([1, 1, 2]) + rng.choice([-1, 0, 0, 1])) * G
            else:
                dt = B * rng.choice([3, 10]) * G
            t += dt
            reqs.append(t)
        end = t + rng.choice([0, B * G, 3 * B * G, 40 * B * G, 40 * B * G, 400 * B * G])
        return {"family": "entity", "policy": spec, "qcap": rng.choice([0, 1, 1, 2, 3, 1000]),
                "reqs": reqs, "end": end, "inject": rng.choice(["pre", "handler"])}

    # ------------------------------------------------------------------ implementation
    def run_impl(self, case):
        if case["family"] == "entity":
            return self.impl_entity(case)
        return self.impl_policy(case)

    def impl_policy(self, case):
        from happysimulator.core.temporal import Instant

        spec = case["policy"]
        pol = make_policy(spec)
        D = ad_scale(spec) if spec["kind"] == "ad" else None
        out, now = [], 0
        for op in case["ops"]:
            kind, t = op[0], max(int(op[1]), now)
            now = t
            if kind == "acq":
                out.append(f"acq {t} {int(bool(pol.try_acquire(Instant(t))))}")
            elif kind == "tua":
                out.append(f"tua {t} {pol.time_until_available(Instant(t)).nanoseconds}")
            elif kind == "drain":
                cur, ws = t, []
                for _ in range(6):
                    w = pol.time_until_available(Instant(cur)).nanoseconds
                    ws.append(w)
                    if w == 0:
                        break
                    cur += w
                d = int(bool(pol.try_acquire(Instant(cur))))
                now = cur
                out.append(f"drain {t} {' '.join(map(str, ws))} {d}")
            elif kind in ("succ", "fail"):
                if kind == "succ":
                    pol.record_success(Instant(t))
                else:
                    pol.record_failure(Instant(t))
                out.append(f"{kind} {t} {int(F(pol.current_rate) * D)}")
            else:
                raise ValueError(kind)
        return out

    def impl_entity(self, case):
        from happysimulator.components.rate_limiter.null import NullRateLimiter
        from happysimulator.components.rate_limiter.rate_limited_entity import RateLimitedEntity
        from happysimulator.core.entity import Entity
        from happysimulator.core.event import Event
        from happysimulator.core.simulation import Simulation
        from happysimulator.core.temporal import Instant

        spec = case["policy"]
        log, sink_log, emitted = [], [], []

        class Sink(Entity):
            def handle_event(self, event):
                sink_log.append((event.context.get("rid"), event.time.nanoseconds))
                return []

        sink = Sink("sink")
        if spec["kind"] == "null":
            lim = NullRateLimiter("lim", sink)
        else:
            lim = RateLimitedEntity("lim", sink, make_policy(spec), queue_capacity=case["qcap"])
        is_null = spec["kind"] == "null"
        orig = lim.handle_event
        counts = {"n": 0, "recv": 0, "fwd": 0}

        def stats():
            if is_null:
                return (0, 0)
            s = lim.stats
            return (s.queued, s.dropped)

        def tapped(event):
            counts["n"] += 1
            if counts["n"] > 20000:
                raise RuntimeError("delivery watchdog")
            q0, d0 = stats()
            res = orig(event)
            q1, d1 = stats()
            fid, poll = "-", "-"
            for e in res or []:
                if e.target is lim:
                    poll = str(e.time.nanoseconds)
                else:
                    fid = str(e.context.get("rid"))
                    counts["fwd"] += 1
                    emitted.append((fid, e.time.nanoseconds))
            t = event.time.nanoseconds
            if event.target is lim and event.event_type.startswith("rate_limit_poll::"):
                log.append(f"poll {t} {fid} {poll}")
            else:
                counts["recv"] += 1
                log.append(f"req {event.context.get('rid')} {t} {fid} {q1 - q0} {d1 - d0} {poll}")
            return res

        lim.handle_event = tapped

        class Src(Entity):
            def handle_event(self, event):
                return [Event(time=Instant(t), event_type="req", target=lim, context={"rid": i}) for i, t in enumerate(case["reqs"])]

        src = Src("src")
        # events are created after the Simulation exists: its constructor resets the global creation counter
        sim = Simulation(entities=[src, lim, sink], end_time=Instant(case["end"] + 1))
        if case["inject"] == "pre":
            for i, t in enumerate(case["reqs"]):
                sim.schedule(Event(time=Instant(t), event_type="req", target=lim, context={"rid": i}))
        else:
            sim.schedule(Event(time=Instant(0), event_type="go", target=src))
        sim.run()
        if is_null:
            tail = f"end 0 {counts['recv']} {counts['fwd']} 0"
        else:
            s = lim.stats
            tail = f"end {lim.queue_depth} {s.received} {s.forwarded} {s.dropped}"
        # forwarded = what the limiter emitted towards its downstream, in emission order (the engine may stop at
        # end_time before the sink sees the last ones; delivery is C01's business)
        return log + [f"fwd {i} {t}" for i, t in emitted] + [tail]

    def _impl_cached(self, case):
        key = json.dumps(case, sort_keys=True)
        if key not in self._cache:
            if len(self._cache) > 5000:
                self._cache.clear()
            self._cache[key] = core.run_impl_safe(self, case)
        return self._cache[key]

    # ------------------------------------------------------------------ model / judge
    def model_block(self, case, variant):
        spec = case["policy"]
        cfg = " ".join(map(str, cfg_tokens(spec)))
        if case["family"] == "entity":
            # the delivery schedule comes from the real engine (GUIDE rule 8)
            sched = []
            for line in self._impl_cached(case):
                t = line.split()
                if t[0] == "req":
                    sched.append(f"req {t[1]} {t[2]} {t[6]}")
                elif t[0] == "poll":
                    sched.append(f"poll {t[1]} {t[3]}")
            return (f"entity {case['qcap']} {cfg}", sched)
        if case["mode"] == "tol":
            hints = self._impl_cached(case)
            body = []
            for k, op in enumerate(case["ops"]):
                h = hints[k].split()[2:] if k < len(hints) and not hints[k].startswith("IMPL-") else []
                body.append(" ".join([op[0], str(op[1])] + h))
            return (f"policy tol {cfg}", body)
        return (f"policy exact {cfg}", [f"{op[0]} {op[1]}" for op in case["ops"]])

    def model_postprocess(self, case, out):
        if out and out[-1].startswith("unjudged "):
            self._unjudged += int(out[-1].split()[1])
            if case["family"] == "policy-tol":
                self._tol_ops += len(out) - 1
            return out[:-1]
        return out

    def judge_block(self, case, impl_out):
        if not impl_out or impl_out[0].startswith("IMPL-"):
            return None
        cfg = " ".join(map(str, cfg_tokens(case["policy"])))
        if case["family"] == "entity":
            return (f"judge-entity {case['qcap']} {cfg}", list(impl_out))
        return (f"judge-policy {case['mode']} {cfg}", list(impl_out))

    def extra_checks(self, ctx):
        ctx.stats["float_boundary_unjudged"] = self._unjudged
        ctx.stats["policy_tol_operations"] = self._tol_ops
        return []

    def nontrivial_key(self, case, impl_out):
        if case["family"] == "entity":
            if any(l.startswith("req ") and (l.split()[4] == "1" or l.split()[5] == "1") for l in impl_out):
                return json.dumps(case, sort_keys=True)
            return None
        yes = any((l.startswith("acq ") or l.startswith("drain ")) and l.endswith(" 1") for l in impl_out)
        no = any(l.startswith("acq ") and l.endswith(" 0") for l in impl_out)
        return json.dumps(case, sort_keys=True) if yes and no else None

    def shrink(self, case):
        key = "reqs" if case["family"] == "entity" else "ops"
        xs = case[key]
        n = len(xs)
        step = max(1, n // 2)
        while step >= 1:
            for i in range(0, n, step):
                cand = dict(case)
                cand[key] = xs[:i] + xs[i + step:]
                if len(cand[key]) < n:
                    yield cand
            step //= 2
        if case["family"] == "entity" and case["inject"] != "pre":
            yield dict(case, inject="pre")

    def mutate(self, case, rng):
        c = json.loads(json.dumps(case))
        unit = 1 if case["family"] == "policy-tol" else G
        if case["family"] == "entity":
            xs = c["reqs"]
            if not xs:
                return c
            for _ in range(rng.randint(1, 3)):
                i = rng.randrange(len(xs))
                k = rng.random()
                if k < 0.3:
                    xs.insert(i, xs[i])
                elif k < 0.6 and len(xs) > 1:
                    del xs[i]
                else:
                    d = rng.choice([-2, -1, 1, 2]) * unit
                    for j in range(i, len(xs)):
                        xs[j] = max(0, xs[j] + d)
            c["reqs"] = sorted(xs)
            c["end"] = max([c["end"]] + xs)
            return c
        xs = c["ops"]
        if not xs:
            return c
        for _ in range(rng.randint(1, 3)):
            i = rng.randrange(len(xs))
            k = rng.random()
            if k < 0.25:
                xs.insert(i, list(xs[i]))
            elif k < 0.45 and len(xs) > 1:
                del xs[i]
            elif k < 0.6:
                xs.insert(i, ["tua", xs[i][1]])
            else:
                d = rng.choice([-2, -1, 1, 2]) * unit
                for j in range(i, len(xs)):
                    xs[j][1] = max(0, xs[j][1] + d)
        return c


THEOREMS = [
    "HappyModel.C10.token_bucket_bound",
    "HappyModel.C10.leaky_spacing",
    "HappyModel.C10.sliding_window_bound",
    "HappyModel.C10.sliding_window_spec",
    "HappyModel.C10.fixed_window_bounds",
    "HappyModel.C10.fixed_window_spec",
    "HappyModel.C10.adaptive_rate_in_range",
    "HappyModel.C10.adaptive_bucket_bound",
    "HappyModel.C10.tua_zero_admits",
    "HappyModel.C10.tua_positive_blocks",
    "HappyModel.C10.tua_positive_blocks_run",
    "HappyModel.C10.tua_blocks_spec",
    "HappyModel.C10.leaky_spacing_reachable",
    "HappyModel.C10.leaky_spacing_any_state",
    "HappyModel.C10.sliding_window_bound_reachable",
    "HappyModel.C10.fixed_window_bounds_reachable",
    "HappyModel.C10.policy_hist_reachable",
    "HappyModel.C10.adaptive_credit_bound",
    "HappyModel.C10.adaptive_current_rate_bound",
    "HappyModel.C10.adaptive_credit_le_pmax",
    "HappyModel.C10.adaptive_naive_integral_bound_false",
    "HappyModel.C10.tua_reaches_admission",
    "HappyModel.C10.entity_exactly_once",
    "HappyModel.C10.entity_exactly_once_spec",
    "HappyModel.C10.entity_fifo",
]
C10.theorems = THEOREMS
PROPERTY = C10()
