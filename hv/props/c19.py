"""C19 — messaging delivers until acknowledged, to the right consumers, in offset order.

Families
  mq      MessageQueue + DeadLetterQueue inside a real Simulation: publish / poll / ack / reject /
          timeout / subscribe scripts; delivery events really travel through the engine's heap.
          The *schedule* (which generator segment ran at which simulated instant) is recorded from
          the real run and replayed through the Lean transition system `HappyModel.C19.MQ`.
  assign  RangeAssignment / RoundRobinAssignment / StickyAssignment called directly.
  group   ConsumerGroup (join / leave / commit / poll) over an EventLog inside a real Simulation.
  log     EventLog append / read / retention inside a real Simulation.
  topic   Topic subscribe / unsubscribe / publish inside a real Simulation.

The Lean Spec predicates (`HappyModel/C19/Spec.lean`, `…/StreamSpec.lean`) judge the implementation's
own transcripts.
"""
from __future__ import annotations

import importlib
import json
import os
import random
from collections.abc import Generator

from hv import core

# load the implementation once in the parent, before hv.core forks its worker pool (core has put HV_REPO on
# sys.path): importing the package in 16 freshly forked workers at once costs seconds on a loaded machine
import happysimulator.components.messaging.dlq  # noqa: E402,F401
import happysimulator.components.messaging.message_queue  # noqa: E402,F401
import happysimulator.components.messaging.topic  # noqa: E402,F401
import happysimulator.components.streaming.consumer_group  # noqa: E402,F401
import happysimulator.components.streaming.event_log  # noqa: E402,F401
import happysimulator.core.simulation  # noqa: E402,F401

# One C19 case costs ~1 ms in-process, while hv.core's fork pool stalls for seconds per worker on this (loaded)
# machine and then reports IMPL-TIMEOUT for trivial cases; run the implementation serially in the parent, where
# the recorded schedule can also be reused for the model block instead of running every case twice.
os.environ.setdefault("HV_SERIAL", "1")

UNKNOWN = 999999  # canonical id used for "a message id the queue has never seen"
PUB_NS = 100_000  # publish() yields 0.0001 s


def eff_ns(seconds: float) -> int:
    """what the engine adds for `yield seconds` (Instant.__add__)"""
    return int(seconds * 1_000_000_000)


# ======================================================================================= mq


class _MQHarness:
    """Runs one mq script against the real MessageQueue inside a real Simulation."""

    def __init__(self, case):
        from happysimulator.components.messaging.dlq import DeadLetterQueue
        from happysimulator.components.messaging.message_queue import MessageQueue
        from happysimulator.core.entity import Entity
        from happysimulator.core.event import Event
        from happysimulator.core.simulation import Simulation
        from happysimulator.core.temporal import Instant

        H = self
        self.case = case
        self.lines = []
        self.ids = []          # canonical k -> uuid
        self.kof = {}          # uuid -> k
        self.tickets = []      # d -> dict
        self.ev2d = {}         # id(delivery event) -> d (events kept alive in self.keep)
        self.keep = []
        self.nrecv = 0
        lat_s = case["lat_ns"] / 1e9
        self.dlq = DeadLetterQueue("dlq")

        class TQ(MessageQueue):
            """the real queue; handle_event is wrapped only to log which segment ran when"""

            def handle_event(self, event):
                if event.event_type == "poll":
                    label = "poll"
                elif event.event_type == "message_redelivery":
                    label = f"redeliv {H.k_of(event.context.get('message_id'))}"
                else:
                    return super().handle_event(event)
                return H.traced(super().handle_event(event), label)

        self.q = TQ("q", delivery_latency=lat_s, redelivery_delay=case["redelay_s"],
                    max_redeliveries=case["max"], capacity=case.get("cap"), dead_letter_queue=self.dlq)

        class Cons(Entity):
            def __init__(self, i):
                super().__init__(f"c{i}")
                self.i = i

            def handle_event(self, ev):
                if ev.event_type != "message_delivery":
                    return []
                d = H.ev2d.get(id(ev), UNKNOWN)
                k = H.k_of(ev.context.get("message_id"))
                H.log(f"recv {d}", f"got {k} {self.i} {ev.context.get('delivery_count')}")
                r = H.nrecv
                H.nrecv += 1
                reacts = case.get("reacts", [])
                what = reacts[r] if r < len(reacts) else "none"
                return H.do_op(what, k)

        class Actor(Entity):
            def handle_event(self, ev):
                op = ev.context["op"]
                kind = op[1]
                if kind == "sub":
                    H.q.subscribe(H.cons[op[2]])
                    H.log(f"sub {op[2]}", "-")
                    return []
                if kind == "unsub":
                    H.q.unsubscribe(H.cons[op[2]])
                    H.log(f"unsub {op[2]}", "-")
                    return []
                if kind == "rej":
                    return H.do_op("rej1" if op[3] else "rej0", op[2])
                return H.do_op(kind, op[2])

        class Pub(Entity):
            def handle_event(self, ev):
                payload = Event(time=H.q.now, event_type="payload", target=H.cons[0])
                g = H.q.publish(payload)
                try:
                    y = next(g)
                except RuntimeError:
                    H.log("pub", "full")
                    return []
                mid = H.q._pending_queue[-1]  # the id is returned only after the publish latency
                k = len(H.ids)
                H.ids.append(mid)
                H.kof[mid] = k
                H.log("pub", f"ok {k}")
                try:
                    while True:
                        sent = yield y
                        y = g.send(sent)
                except StopIteration as e:
                    if e.value != mid:
                        H.lines.append(f"pub-id-mismatch {k}")
                return []

        self.cons = [Cons(i) for i in range(max(1, case["ncons"]))]
        self.actor, self.pub = Actor("actor"), Pub("pub")
        ops = case["ops"]
        tmax = max([op[0] for op in ops], default=0)
        horizon = tmax + eff_ns(case["redelay_s"]) * (case["max"] + 2) + 10 * (case["lat_ns"] + PUB_NS) + 10**9
        self.sim = Simulation(end_time=Instant(horizon * 4),
                              entities=[self.q, self.dlq, self.actor, self.pub, *self.cons])
        for op in ops:
            t, kind = op[0], op[1]
            if kind == "pub":
                self.sim.schedule(Event(time=Instant(t), event_type="go", target=self.pub))
            elif kind == "poll":
                self.sim.schedule(Event(time=Instant(t), event_type="poll", target=self.q))
            else:
                self.sim.schedule(Event(time=Instant(t), event_type="act", target=self.actor, context={"op": op}))

    # -- helpers -------------------------------------------------------------------------
    def now(self):
        return self.q.now.nanoseconds

    def k_of(self, mid):
        return self.kof.get(mid, UNKNOWN)

    def uuid_of(self, k):
        return self.ids[k] if 0 <= k < len(self.ids) else f"unknown-{k}"

    def counters(self):
        q, st = self.q, self.q.stats
        return (f"{q.pending_count} {q.in_flight_count} {st.messages_acknowledged} {self.dlq.message_count} "
                f"{st.messages_published} {st.messages_delivered} {st.messages_redelivered} "
                f"{st.messages_rejected} {st.messages_dead_lettered}")

    def log(self, act, out):
        self.lines.append(f"{self.now()} {act} => {out} | {self.counters()}")

    def snapshot(self):
        snap = {}
        for k, mid in enumerate(self.ids):
            m = self.q.get_message(mid)
            if m is not None:
                snap[k] = m.delivery_count
        return snap

    def do_op(self, what, k):
        q = self.q
        kk = k if 0 <= k < len(self.ids) else UNKNOWN
        mid = self.uuid_of(k)
        if what == "ack":
            q.acknowledge(mid)
            self.log(f"ack {kk}", "-")
        elif what in ("rej1", "rej0"):
            q.reject(mid, requeue=(what == "rej1"))
            self.log(f"rej {kk} {1 if what == 'rej1' else 0}", "-")
        elif what == "tmo":
            ev = q.schedule_redelivery(mid)
            self.log(f"tmo {kk}", "ev" if ev is not None else "noev")
            return [ev] if ev is not None else []
        return []

    def traced(self, g, label):
        """wrap the queue's own handle_event generator: log each segment as it runs"""
        if not isinstance(g, Generator):
            self.log(label, "none")
            return g
        return self._traced(g, label)

    def _traced(self, g, label):
        before = self.snapshot()
        try:
            y = g.send(None)
        except StopIteration as e:
            self.log(label, "none")
            return e.value
        after = self.snapshot()
        changed = [k for k in after if after[k] != before.get(k, 0)]
        if not changed:
            self.log(label, "idle")
            try:
                while True:
                    sent = yield y
                    y = g.send(sent)
            except StopIteration as e:
                return e.value
        k = changed[0]
        m = self.q.get_message(self.ids[k])
        d = len(self.tickets)
        # the consumer the queue reports for the message it has just marked DELIVERED (public Message.consumer);
        # a message marked delivered to nobody is reported as consumer UNKNOWN
        c = int(m.consumer.name[1:]) if m.consumer is not None else UNKNOWN
        self.tickets.append(dict(d=d, k=k, c=c, t0=self.now()))
        self.log(label, f"disp {d} {k} {c} {m.delivery_count}")
        try:
            sent = yield y
            y = g.send(sent)
            while True:  # not expected: a second yield
                sent = yield y
                y = g.send(sent)
        except StopIteration as e:
            res = e.value
            evs = res if isinstance(res, list) else ([res] if res is not None else [])
            for ev in evs:
                self.keep.append(ev)
                self.ev2d[id(ev)] = d
                self.log(f"fire {d}", f"emit {self.k_of(ev.context.get('message_id'))} {int(ev.target.name[1:])} "
                                      f"{ev.context.get('delivery_count')} {ev.time.nanoseconds}")
            return res

    def run(self):
        self.sim.run()
        out = list(self.lines)
        dl = [self.k_of(m.id) for m in self.dlq.messages]
        for k, mid in enumerate(self.ids):
            m = self.q.get_message(mid)
            if m is not None:
                st = 1 if m.state.value == "delivered" else 0
            else:
                st = 2 if k in dl else 3
            out.append(f"final {k} {st}")
        out.append("dlq " + " ".join(map(str, dl)))
        got = {int(l.split()[2]) for l in self.lines if l.split()[1] == "recv"}
        out.append("open " + " ".join(str(t["d"]) for t in self.tickets if t["d"] not in got))
        return [l.rstrip() for l in out]


def gen_mq(rng: random.Random, tier: str) -> dict:
    ncons = rng.choice([1, 1, 2, 2, 3])
    lat_ns = rng.choice([0, 1_000_000, 1_000_000, 10_000_000, 250_000_000, 290_000_000])
    mx = rng.choice([0, 1, 2, 2, 3, 3])
    cap = rng.choice([None, None, None, None, 1, 2, 3])
    redelay = rng.choice([0.5, 1.0, 2.0, 30.0, 0.001])
    n = rng.choice([4, 8, 14, 22, 30] if tier == "quick" else [6, 14, 22, 30, 45])
    step = rng.choice([1_000_000, 100_000_000, 500_000_000, 1_000_000_000])
    t = 0
    ops = [[0, "sub", c] for c in range(ncons) if rng.random() < 0.9]
    npub = 0
    for _ in range(n):
        r = rng.random()
        if r < 0.45:
            t += step * rng.choice([1, 1, 2, 5])
        elif r < 0.55:
            t += rng.choice([lat_ns, PUB_NS, 1])  # land exactly on internal instants
        x = rng.random()
        if x < 0.28:
            ops.append([t, "pub"])
            npub += 1
        elif x < 0.66:
            ops.append([t, "poll"])
        elif x < 0.93:
            k = rng.randrange(npub + 1) if rng.random() < 0.9 else UNKNOWN
            kind = rng.choice(["ack", "rej", "rej", "tmo", "tmo", "tmo"])
            ops.append([t, kind, k, rng.choice([1, 1, 0])] if kind == "rej" else [t, kind, k])
        else:
            ops.append([t, rng.choice(["sub", "sub", "unsub"]), rng.randrange(ncons)])
    reacts = [rng.choice(["ack", "ack", "ack", "none", "none", "rej1", "rej1", "rej0", "tmo", "tmo", "tmo"])
              for _ in range(rng.choice([0, 3, 10, 20]))]
    return {"family": "mq", "ncons": ncons, "lat_ns": lat_ns, "max": mx, "cap": cap, "redelay_s": redelay,
            "ops": ops, "reacts": reacts}


def gen_mq_life(rng: random.Random, tier: str) -> dict:
    """acknowledgements (and rejects / timeouts) arriving at every point of a message's life cycle.

    Each of 1–4 messages gets its own time slot: publish, poll, then one *detour* after the consumer has the
    message — nothing (still in flight), a visibility timeout (back in the pending queue, redelivery event due
    `redelay` later), a reject with requeue, a reject/timeout at the limit (dead-lettered) — and then the
    acknowledgement placed before / exactly at / after the instant the redelivery event is due, before or after
    the next poll, optionally twice, optionally with a second timeout in between; polls keep coming afterwards so a
    message that is still stored would be handed out again."""
    ncons = rng.choice([1, 1, 2])
    lat_ns = rng.choice([0, 1_000_000, 10_000_000])
    mx = rng.choice([0, 1, 2, 3, 3])
    redelay = rng.choice([0.5, 1.0, 2.0])
    rd = eff_ns(redelay)
    slot = 4 * rd + 20 * (lat_ns + PUB_NS) + 10**9
    ops = [[0, "sub", c] for c in range(ncons)]
    nmsg = rng.choice([1, 1, 2, 3] if tier == "quick" else [1, 2, 3, 4])
    burst = rng.random() < 0.3           # all messages published up front: polls of one slot reach later messages
    for k in range(nmsg):
        t = k * slot + 1000
        ops.append([0 + k if burst else t, "pub"])
        t += PUB_NS * rng.choice([0, 1, 2])
        ops.append([t, "poll"])
        t_recv = t + lat_ns
        t = t_recv + rng.choice([0, 1, 1000, lat_ns + 1])       # the consumer works on it
        detour = rng.choice(["flight", "tmo", "tmo", "tmo", "tmo", "requeue", "dead", "tmo2", "orphan", "orphan", "vanish", "vanish"])
        due = None
        if detour == "vanish":
            # every consumer unsubscribes INSIDE the delivery-latency window of the poll (or exactly at its ends, ±1 ns),
            # comes back later and polls: the delivery that was under way must still arrive (or the message must be
            # offered again) — never in flight with no delivery event; then the usual timeout / redelivery cycle, with the
            # consumers leaving again inside the latency window of the redelivery
            t_poll = t_recv - lat_ns
            t_leave = rng.choice([t_poll, t_poll + 1, t_poll + lat_ns // 2, t_recv - 1, t_recv, t_recv + 1])
            for c in range(ncons):
                if rng.random() < 0.9:
                    ops.append([t_leave, "unsub", c])
            t_back = t_recv + rng.choice([1, 1000, rd // 4])
            for c in rng.sample(range(ncons), rng.randint(1, ncons)):
                ops.append([t_back, "sub", c])
            ops.append([t_back + rng.choice([0, 1]), "poll"])
            tt = t_back + lat_ns + rng.choice([2, 1000])
            ops.append([tt, "tmo", k])
            due = tt + rd
            if rng.random() < 0.6:
                t_leave2 = rng.choice([due, due + 1, due + lat_ns // 2, due + lat_ns - 1]) if lat_ns else due
                for c in range(ncons):
                    ops.append([t_leave2, "unsub", c])
                for c in range(ncons):
                    ops.append([due + lat_ns + rng.choice([1, 1000]), "sub", c])
            tt = due + 2 * lat_ns + 2000
            ops.append([tt, "poll"])
            ops.append([tt + lat_ns + 1, rng.choice(["ack", "tmo"]), k])
            for c in range(ncons):
                ops.append([tt + lat_ns + 2, "sub", c])
            continue
        if detour == "orphan":
            # the redelivery timer fires while nobody is subscribed: timeout, every consumer leaves before the timer is
            # due (or right at / after it), the timer finds no consumer, consumers come back, a poll hands the message out,
            # and from then on it keeps timing out — every timeout must arm a new redelivery or, at the limit, dead-letter
            ops.append([t, "tmo", k])
            due = t + rd
            t_leave = rng.choice([t, t + 1, t + rd // 2, due - 1, due, due + 1])
            for c in range(ncons):
                if rng.random() < 0.9:
                    ops.append([t_leave, "unsub", c])
            t_back = max(t_leave, rng.choice([due - 1, due, due + 1, due + rd // 4])) + rng.choice([0, 1])
            for c in rng.sample(range(ncons), rng.randint(1, ncons)):
                ops.append([t_back, "sub", c])
            tt = t_back + rng.choice([0, 1, 1000])
            ops.append([tt, "poll"])
            for _ in range(rng.choice([1, 2, 3, 4])):
                tt += lat_ns + rng.choice([1, 1000, rd // 3])
                ops.append([tt, "tmo", k])                       # times out again
                if rng.random() < 0.3:
                    ops.append([tt + rng.choice([0, 1]), "tmo", k])
                tt += rd + rng.choice([0, 1, lat_ns])             # past the next redelivery
                if rng.random() < 0.4:
                    ops.append([tt, "poll"])
            for c in range(ncons):
                ops.append([tt + 1, "sub", c])                   # everybody is back for the next message
            if rng.random() < 0.5:
                ops.append([tt + 2, "ack", k])
            continue
        if detour in ("tmo", "tmo2"):
            ops.append([t, "tmo", k])
            due = t + rd                                          # the redelivery event (below the limit)
            if detour == "tmo2":
                ops.append([t + rng.choice([0, 1, rd // 2]), "tmo", k])
        elif detour == "requeue":
            ops.append([t, "rej", k, 1])
        elif detour == "dead":
            ops.append([t, "rej", k, 0])
        # where the (late) acknowledgement lands
        if due is not None:
            t_ack = rng.choice([t, t + 1, t + rd // 2, due - 1, due, due + 1, due + lat_ns, due + lat_ns + 1, due + rd])
        else:
            t_ack = t + rng.choice([0, 1, 1000, rd])
        if rng.random() < 0.35:
            ops.append([rng.choice([t_ack - 1, t_ack, t_ack + 1]), "poll"])   # a poll racing with the ack
        who = k if rng.random() < 0.92 else rng.choice([UNKNOWN, max(0, k - 1), k + 1])
        if rng.random() < 0.9:
            ops.append([t_ack, "ack", who])
        if rng.random() < 0.2:
            ops.append([t_ack + rng.choice([0, 1, rd]), "ack", who])           # acknowledged twice
        if rng.random() < 0.25:
            ops.append([t_ack + rng.choice([1, rd]), rng.choice(["tmo", "rej"]), k, 1])
        # afterwards: polls (and whatever redelivery events are in the heap) must not bring it back
        for j in range(rng.choice([1, 2, 3])):
            ops.append([max(t_ack, due or 0) + (j + 1) * rng.choice([1, lat_ns + 1, rd]), "poll"])
    ops = [op[:3] + [1] if op[1] == "rej" and len(op) < 4 else op for op in ops]
    ops.sort(key=lambda o: o[0])
    reacts = [rng.choice(["none", "none", "none", "ack", "tmo", "rej1"]) for _ in range(rng.choice([0, 0, 4]))]
    return {"family": "mq", "ncons": ncons, "lat_ns": lat_ns, "max": mx, "cap": None, "redelay_s": redelay,
            "ops": ops, "reacts": reacts}


def mq_cfg(case, variant):
    lat = eff_ns(case["lat_ns"] / 1e9)
    cap = "-" if case.get("cap") is None else str(case["cap"])
    return f"{lat} {case['max']} {cap} {variant}"


# ======================================================================================= assign

STRATS = ["range", "rr", "sticky"]


def cname(c):
    return f"c{c:02d}"  # string order = numeric order


def impl_assign(case):
    from happysimulator.components.streaming.consumer_group import (
        RangeAssignment, RoundRobinAssignment, StickyAssignment)
    mk = {"range": RangeAssignment, "rr": RoundRobinAssignment, "sticky": StickyAssignment}[case["strategy"]]
    out = []
    for seq in case["seqs"]:
        out.append("new")
        st = mk()
        for parts, cons in seq:
            res = st.assign(list(parts), [cname(c) for c in cons])
            out.append(("a " + " ".join(f"{int(k[1:])}:{','.join(map(str, v))}" for k, v in res.items())).rstrip())
    return out


def assign_body(case):
    body = []
    for seq in case["seqs"]:
        body.append("new")
        for parts, cons in seq:
            body.append(f"call {' '.join(map(str, parts))} ; {' '.join(map(str, cons))}".rstrip())
    return body


def gen_assign(rng, tier):
    strat = rng.choice(STRATS)
    seqs = []
    for _ in range(rng.choice([1, 3, 6])):
        n = rng.randint(0, 8)
        seq = []
        members = set()
        for _ in range(rng.choice([1, 2, 4, 7])):
            r = rng.random()
            if r < 0.55 or not members:
                members.add(rng.randrange(6))
            elif r < 0.85:
                members.discard(rng.choice(sorted(members)))
            else:
                members = set(rng.sample(range(6), rng.randint(0, 5)))
            if rng.random() < 0.15:
                n = rng.randint(0, 8)  # partition count changes between calls
            parts = list(range(n))
            if rng.random() < 0.2:
                rng.shuffle(parts)
            cons = sorted(members)
            if rng.random() < 0.2:
                rng.shuffle(cons)
            seq.append([parts, cons])
        seqs.append(seq)
    return {"family": "assign", "strategy": strat, "seqs": seqs}


def enum_assign_cases():
    """every membership of ≤5 consumers over ≤8 partitions: single calls for all strategies, and for
    sticky every ordered pair of memberships (5 consumers) and every ordered triple (4 consumers)"""
    def subsets(m):
        return [[c for c in range(m) if (mask >> c) & 1] for mask in range(1 << m)]
    cases = []
    for strat in STRATS:
        for n in range(9):
            cases.append({"family": "assign", "strategy": strat, "enum": True,
                          "seqs": [[[list(range(n)), m]] for m in subsets(5)]})
    s5, s4 = subsets(5), subsets(4)
    for n in range(9):
        for m1 in s5:
            cases.append({"family": "assign", "strategy": "sticky", "enum": True,
                          "seqs": [[[list(range(n)), m1], [list(range(n)), m2]] for m2 in s5]})
    for n in range(9):
        for m1 in s4:
            for m2 in s4:
                cases.append({"family": "assign", "strategy": "sticky", "enum": True,
                              "seqs": [[[list(range(n)), m1], [list(range(n)), m2], [list(range(n)), m3]] for m3 in s4]})
    return cases


# ======================================================================================= stream (event log + consumer group)


def key_hash840(key: str) -> int:
    import hashlib
    return int(hashlib.md5(key.encode()).hexdigest(), 16) % 840  # 840 = lcm(1..8): (h % 840) % n == h % n


class _StreamHarness:
    def __init__(self, case):
        from happysimulator.components.streaming.consumer_group import (
            ConsumerGroup, RangeAssignment, RoundRobinAssignment, StickyAssignment)
        from happysimulator.components.streaming.event_log import EventLog, SizeRetention, TimeRetention
        from happysimulator.core.entity import Entity
        from happysimulator.core.event import Event
        from happysimulator.core.simulation import Simulation
        from happysimulator.core.temporal import Instant

        H = self
        self.lines = []
        self.case = case
        ret = None
        if case["ret"][0] == "size":
            ret = SizeRetention(case["ret"][1])
        elif case["ret"][0] == "age":
            ret = TimeRetention(case["ret"][1] / 1e9)

        def show(recs):
            return "recs " + " ".join(f"{r.partition}:{r.offset}" for r in (recs or []))

        def answer(event):
            """what the caller of append()/read()/poll() receives: the value of its reply future"""
            fut = event.context.get("reply_future")
            return fut.value if fut is not None and fut.is_resolved else None

        class TLog(EventLog):
            """the real log; handle_event is wrapped only to log which segment ran when and what it answered"""

            def handle_event(self, event):
                g = super().handle_event(event)
                et = event.event_type
                if et == "RetentionCheck":
                    return H.after(g, H.log_retention)
                if et == "Append":
                    key = event.context.get("key", "")

                    def appended():
                        rec = answer(event)
                        H.log(f"append {int(key[1:])} {key_hash840(key)}", f"app {rec.partition} {rec.offset}")
                    return H.after(g, appended)
                if et == "Read":
                    cx = event.context
                    return H.after(g, lambda: H.log(
                        f"read {cx.get('partition', 0)} {cx.get('offset', 0)} {cx.get('max_records', 100)}",
                        show(answer(event))))
                return g

        class TGroup(ConsumerGroup):
            def handle_event(self, event):
                g = super().handle_event(event)
                et = event.event_type
                c = event.context.get("consumer_name", "")
                ci = int(c[1:]) if c else 0
                if et == "Join":
                    return H.two_seg(g, f"joinA {ci}", None, lambda: H.log_reb(f"joinB {ci}", ci))
                if et == "Leave":
                    return H.two_seg(g, f"leaveA {ci}", None, lambda: H.log_reb(f"leaveB {ci}", None))
                if et == "Poll":
                    mx = event.context.get("max_records", 100)

                    return H.after(g, lambda: H.log(f"poll {ci} {mx}", show(answer(event))))
                if et == "Commit":
                    offs = event.context.get("offsets", {})
                    return H.after(g, lambda: H.log(
                        f"commit {ci} " + " ".join(f"{p}:{o}" for p, o in offs.items()), "com " + H.obs_committed(c)))
                return g

        self.log_ent = TLog("log", num_partitions=case["n"], retention_policy=ret,
                            append_latency=case["app_lat"], read_latency=case["read_lat"],
                            retention_check_interval=case["ret_int"])
        strat = {"range": RangeAssignment, "rr": RoundRobinAssignment, "sticky": StickyAssignment}[case["strategy"]]()
        self.group = TGroup("grp", self.log_ent, assignment_strategy=strat,
                            rebalance_delay=case["reb_delay"], poll_latency=case["poll_lat"])

        class Worker(Entity):
            def handle_event(self, ev):
                op = ev.context["op"]
                kind = op[1]
                if kind == "append":
                    yield from H.log_ent.append(f"k{op[2]}", op[2])
                elif kind == "read":
                    yield from H.log_ent.read(op[2], op[3], op[4])
                elif kind == "join":
                    yield from H.group.join(cname(op[2]), self)
                elif kind == "leave":
                    yield from H.group.leave(cname(op[2]))
                elif kind == "commit":
                    yield from H.group.commit(cname(op[2]), {int(p): o for p, o in op[3]})
                elif kind == "poll":
                    yield from H.group.poll(cname(op[2]), op[3])
                elif kind == "pollc":
                    # a consumer that commits what it read: next offset of every partition it got records from
                    recs = yield from H.group.poll(cname(op[2]), op[3])
                    offs = {}
                    for r in recs or []:
                        offs[r.partition] = max(offs.get(r.partition, 0), r.offset + 1)
                    if offs:
                        yield from H.group.commit(cname(op[2]), offs)
                return []

        self.worker = Worker("w")
        tmax = max([op[0] for op in case["ops"]], default=0)
        self.sim = Simulation(end_time=Instant(tmax + 5 * 10**9), entities=[self.log_ent, self.group, self.worker])
        for op in case["ops"]:
            self.sim.schedule(Event(time=Instant(op[0]), event_type="op", target=self.worker, context={"op": op}))

    def now(self):
        return self.log_ent.now.nanoseconds

    def log(self, act, out):
        self.lines.append(" ".join(f"{self.now()} {act} => {out}".split()))

    def log_retention(self):
        """after a sweep: total_records and what an observer finds in log.partitions[p].records"""
        kept = []
        for part in self.log_ent.partitions:
            offs = [r.offset for r in part.records]
            kept.append(",".join(map(str, offs)) if offs else "-")
        self.log("retention", f"total {self.log_ent.total_records} " + " ".join(kept))

    def obs_committed(self, cname_):
        g = self.group
        lag = g.consumer_lag(cname_)
        return " ".join(f"{p}:{self.log_ent.high_watermark(p) - l}" for p, l in lag.items())

    def log_reb(self, act, ci):
        g = self.group
        asg = g.assignments
        es = " ".join(f"{int(k[1:])}:{','.join(map(str, v))}" for k, v in asg.items())
        mine = " ".join(map(str, asg.get(cname(ci), []))) if ci is not None else ""
        self.log(act, f"reb {g.generation} {es} ; {mine}")

    def two_seg(self, g, first, before_second, after_second):
        """log `first` when the handler starts; run the hooks around its second segment"""
        if first is not None:
            self.log(first, "-")
        try:
            y = g.send(None)
        except StopIteration as e:
            return e.value
        sent = yield y
        if before_second is not None:
            before_second()
        try:
            y = g.send(sent)
            while True:
                sent = yield y
                y = g.send(sent)
        except StopIteration as e:
            after_second()
            return e.value

    def after(self, g, hook):
        try:
            y = g.send(None)
            while True:
                sent = yield y
                y = g.send(sent)
        except StopIteration as e:
            hook()
            return e.value

    def run(self):
        self.sim.run()
        return list(self.lines)


GRID = 500_000_000  # 0.5 s: every instant and latency is exactly representable in float seconds


def gen_stream(rng, tier):
    n = rng.choice([1, 2, 3, 4, 8])
    ret = rng.choice([["none", 0], ["none", 0], ["size", rng.choice([1, 2, 3])], ["age", rng.choice([1, 2, 4]) * 2 * GRID]])
    nops = rng.choice([4, 8, 14, 22] if tier == "quick" else [6, 14, 22, 36])
    nkeys = rng.choice([1, 2, 4, 9])
    ops, t = [], 0
    joined = set()
    for c in range(4):
        if rng.random() < 0.5:
            ops.append([0, "join", c])
            joined.add(c)
    for _ in range(nops):
        if rng.random() < 0.6:
            t += GRID * rng.choice([1, 1, 2, 3])
        x = rng.random()
        member = rng.choice(sorted(joined)) if joined and rng.random() < 0.85 else rng.randrange(4)
        if x < 0.33:
            ops.append([t, "append", rng.randrange(nkeys)])
        elif x < 0.45:
            ops.append([t, "read", rng.randrange(n + 1), rng.choice([0, 0, 1, 2, 3, 5]), rng.choice([0, 1, 2, 100])])
        elif x < 0.57:
            c = rng.randrange(4)
            joined.add(c)
            ops.append([t, "join", c])
        elif x < 0.65:
            joined.discard(member)
            ops.append([t, "leave", member])
        elif x < 0.88:
            offs = [[rng.randrange(n), rng.choice([0, 1, 1, 2, 3, 5])] for _ in range(rng.choice([1, 2, 3, n]))]
            ops.append([t, "commit", member, offs])
        else:
            ops.append([t, rng.choice(["poll", "pollc"]), member, rng.choice([1, 2, 3, 100])])
    return {"family": "stream", "n": n, "ret": ret, "strategy": rng.choice(STRATS),
            "app_lat": rng.choice([0.0, 0.5]), "read_lat": rng.choice([0.0, 0.5]),
            "reb_delay": rng.choice([0.0, 0.5, 1.0]), "poll_lat": rng.choice([0.0, 0.5]),
            "ret_int": rng.choice([1.0, 2.0, 5.0]), "ops": ops}


def gen_stream_ret(rng, tier):
    """retention sweeps (size- and age-based) that trim the head of a partition, followed by reads from offsets
    above 0 and polls of group members from their committed offsets (members that commit what they read)"""
    n = rng.choice([1, 1, 2, 3])
    nkeys = rng.choice([1, 1, 2, 3])
    if rng.random() < 0.6:
        ret = ["size", rng.choice([1, 2, 3, 5])]
    else:
        ret = ["age", rng.choice([1, 2, 3, 4]) * GRID]
    members = rng.choice([[0], [0], [0, 1], []])
    ops = [[0, "join", c] for c in members]
    t = 2 * GRID
    appended = 0
    for _ in range(rng.choice([1, 2, 3] if tier == "quick" else [2, 3, 5])):
        for _ in range(rng.choice([2, 4, 6, 9])):
            ops.append([t, "append", rng.randrange(nkeys)])
            appended += 1
            if rng.random() < 0.4:
                t += GRID
        t += GRID * rng.choice([1, 2, 3, 4, 5])          # usually past the next sweep
        for _ in range(rng.choice([1, 2, 3, 4])):
            x = rng.random()
            c = rng.choice(members) if members and rng.random() < 0.9 else rng.randrange(3)
            if x < 0.4:
                off = rng.choice([1, 2, 3, appended // 2, max(0, appended - 2), max(0, appended - 1), appended,
                                  appended + 1, rng.randrange(appended + 2)])
                ops.append([t, "read", rng.randrange(n) if rng.random() < 0.95 else n, off,
                            rng.choice([1, 2, 3, 100, 100, 0])])
            elif x < 0.75:
                ops.append([t, "pollc", c, rng.choice([1, 2, 3, 5, 100])])
            elif x < 0.88:
                ops.append([t, "poll", c, rng.choice([1, 2, 100])])
            else:
                ops.append([t, "commit", c, [[rng.randrange(n), rng.randrange(appended + 2)]]])
            if rng.random() < 0.5:
                t += GRID * rng.choice([1, 1, 2])
    return {"family": "stream", "n": n, "ret": ret, "strategy": rng.choice(STRATS),
            "app_lat": rng.choice([0.0, 0.0, 0.5]), "read_lat": rng.choice([0.0, 0.5]),
            "reb_delay": rng.choice([0.0, 0.5, 1.0]), "poll_lat": rng.choice([0.0, 0.5]),
            "ret_int": rng.choice([1.0, 1.0, 2.0]), "ops": ops}


def stream_hdr(case, variant):
    return f"stream {case['n']} {case['ret'][0]} {case['ret'][1]} {case['strategy']} {variant}"


# ======================================================================================= topic


class _TopicHarness:
    def __init__(self, case):
        from happysimulator.components.messaging.topic import Topic
        from happysimulator.core.entity import Entity
        from happysimulator.core.event import Event
        from happysimulator.core.simulation import Simulation
        from happysimulator.core.temporal import Instant

        H = self
        self.lines, self.ev2m, self.keep, self.npub = [], {}, [], 0
        self.opened = {}

        class TTopic(Topic):
            def handle_event(self, event):
                g = super().handle_event(event)
                if event.event_type != "publish":
                    return g
                return H.traced(g)

        self.topic = TTopic("t", delivery_latency=case["lat_ns"] / 1e9)

        class Cons(Entity):
            def __init__(self, i):
                super().__init__(f"s{i}")
                self.i = i

            def handle_event(self, ev):
                if ev.event_type == "topic_message" and not ev.context.get("is_replay"):
                    m = H.ev2m.get(id(ev), UNKNOWN)
                    H.log(f"recv {m} {self.i}", "got")
                    H.opened[m] = H.opened.get(m, 0) - 1
                return []

        class Actor(Entity):
            def handle_event(self, ev):
                op = ev.context["op"]
                if op[1] == "sub":
                    H.topic.subscribe(H.cons[op[2]])
                    H.log(f"sub {op[2]}", "-")
                else:
                    H.topic.unsubscribe(H.cons[op[2]])
                    H.log(f"unsub {op[2]}", "-")
                return []

        self.cons = [Cons(i) for i in range(case["nsubs"])]
        self.actor = Actor("actor")
        tmax = max([op[0] for op in case["ops"]], default=0)
        self.sim = Simulation(end_time=Instant(tmax + 10**9 + 20 * case["lat_ns"]),
                              entities=[self.topic, self.actor, *self.cons])
        for op in case["ops"]:
            if op[1] == "pub":
                payload = Event(time=Instant(op[0]), event_type="payload", target=self.actor)
                self.sim.schedule(Event(time=Instant(op[0]), event_type="publish", target=self.topic,
                                        context={"payload": payload}))
            else:
                self.sim.schedule(Event(time=Instant(op[0]), event_type="act", target=self.actor, context={"op": op}))

    def now(self):
        return self.topic.now.nanoseconds

    def log(self, act, out):
        self.lines.append(" ".join(f"{self.now()} {act} => {out}".split()))

    def traced(self, g):
        m = self.npub
        self.npub += 1
        # what the topic itself reports as its active subscribers when the publish starts
        act = [int(e.name[1:]) for e in self.topic.subscribers]
        self.log("pubA", f"started {m} " + " ".join(map(str, act)))
        try:
            y = g.send(None)
            while True:
                sent = yield y
                y = g.send(sent)
        except StopIteration as e:
            evs = e.value or []
            if act or evs:
                for ev in evs:
                    self.keep.append(ev)
                    self.ev2m[id(ev)] = m
                stamps = sorted({ev.time.nanoseconds for ev in evs})
                stamp = stamps[0] if stamps else self.now()
                self.opened[m] = self.opened.get(m, 0) + len(evs)
                self.log(f"pubEnd {m}", f"events {stamp} " + " ".join(str(int(ev.target.name[1:])) for ev in evs))
            return e.value

    def run(self):
        self.sim.run()
        out = list(self.lines)
        left = []
        for m in sorted(self.opened):
            left += [m] * max(0, self.opened[m])
        out.append(("open " + " ".join(map(str, left))).rstrip())
        return out


def gen_topic(rng, tier):
    nsubs = rng.choice([1, 2, 3, 4])
    lat_ns = rng.choice([0, 1_000_000, 10_000_000, 250_000_000])
    step = rng.choice([1_000_000, 5_000_000, 100_000_000, 1_000_000_000])
    ops, t = [], 0
    for c in range(nsubs):
        if rng.random() < 0.7:
            ops.append([0, "sub", c])
    for _ in range(rng.choice([3, 8, 16, 25])):
        if rng.random() < 0.6:
            t += step * rng.choice([1, 1, 2, 5])
        elif rng.random() < 0.3:
            t += lat_ns
        x = rng.random()
        if x < 0.45:
            ops.append([t, "pub"])
        elif x < 0.75:
            ops.append([t, "sub", rng.randrange(nsubs)])
        else:
            ops.append([t, "unsub", rng.randrange(nsubs)])
    return {"family": "topic", "nsubs": nsubs, "lat_ns": lat_ns, "ops": ops}


# ======================================================================================= extension families
# Components with their own model files live in separate modules (hv/props/c19_<x>.py, Lean
# HappyModel/C19/<X>*.lean behind `<X>.handle?` in the driver).  A module provides
#   FAMILY, SLOTS (how many of every 20 generated cases it wants), generate(rng, tier),
#   run_impl(case), model_block(case, variant, impl_out), judge_block(case, impl_out),
#   nontrivial_key(case, impl_out), THEOREMS, RULE, TRUSTED, ASSUMPTIONS, HYPOTHESES, PARTIAL
#   and optionally shrink(case), mutate(case, rng), ENABLED (False keeps it out of generation).
# Each of the three families found genuine defects in /repo (fixes/C19-win-*.diff, C19-outbox-double-relay.diff,
# C19-idem-cleanup-chains.diff) and keeps its generator away from the defective interleavings until the patch is applied
# (module flag RESTRICT_UNTIL_FIXED; witnesses parked in corpus/C19/parked/).  HV_C19_UNRESTRICTED=1 lifts all three.
if os.environ.get("HV_C19_UNRESTRICTED", "1"):   # the four repairs are in /repo: restrictions lifted by default
    for _v in ("HV_C19_WIN_UNRESTRICTED", "HV_C19_OUTBOX_UNRESTRICTED", "HV_IDEM_UNRESTRICTED"):
        os.environ.setdefault(_v, "1")
EXT = {}
for _name in ("c19_win", "c19_outbox", "c19_idem"):
    try:
        _m = importlib.import_module(f"hv.props.{_name}")
    except ModuleNotFoundError as _e:
        if _e.name != f"hv.props.{_name}":
            raise
        continue
    EXT[_m.FAMILY] = _m


# ======================================================================================= property


class C19(core.Property):
    id = "C19"
    driver = "drv-c19"
    lake_targets = ["HappyProofs.C19.Props", "drv-c19"]
    audit_imports = ["HappyProofs.C19.Props"]
    lean_files = ["HappyModel/C19/*.lean", "HappyProofs/C19/*.lean", "HappyModel/Proto.lean", "Driver/C19.lean"]
    theorems = []
    variants = ["repaired"]
    quick_cases = 3000
    thorough_cases = 150000
    case_timeout_s = 20
    rule = ("family mq (5/10): ≤45 timed publish/poll/ack/reject/timeout/subscribe operations plus per-receipt consumer "
            "reactions through a real Simulation (1–3 consumers, latency 0–290 ms, limit 0–3, capacity none/1–3); non-trivial "
            "when at least one delivery reached a consumer; 30 % of the mq cases are life-cycle scripts: per message publish, poll, "
            "a detour (still in flight / visibility timeout / double timeout / reject-requeue / dead-letter) and then the "
            "acknowledgement placed before, at and after the instant the redelivery event is due (±1 ns, ±latency), racing polls, "
            "double acks, acks of neighbouring or unknown ids, polls afterwards; or an orphaned redelivery: timeout, all consumers unsubscribe around the instant the "
            "redelivery timer is due (±1 ns), consumers return, poll, then 1–4 further timeout / redelivery cycles up to the limit; or vanishing consumers: all consumers unsubscribe inside the "
            "delivery-latency window of a poll or of a redelivery (start, +1 ns, middle, end ±1 ns), return and poll again. family assign (2/10): sequences of assign() calls on one strategy "
            "object (0–8 partitions, ≤6 consumers, shuffled inputs); non-trivial with ≥2 partitions and ≥2 consumers; thorough "
            "tier first enumerates every membership of ≤5 consumers × ≤8 partitions for the three strategies, every ordered pair "
            "(5 consumers) and triple (4 consumers) of memberships for sticky. family stream (2/10): ≤36 append/read/join/leave/"
            "commit/poll operations on EventLog + ConsumerGroup through a real Simulation, all strategies, none/size/age retention; "
            "half of the stream cases are retention rounds: bursts of 2–9 appends over 1–3 keys, a wait past the next size(1–5)/age(0.5–2 s) "
            "sweep (interval 1–2 s) that trims partition heads, then reads from offsets around the trimmed head / the high watermark with "
            "limits 0,1,2,3,100 and polls of members that commit what they read (pollc), explicit commits above 0; "
            "non-trivial with an append or a rebalance. family topic (1/10): subscribe/unsubscribe/publish scripts with 1–4 "
            "subscribers; non-trivial when a delivery was received. distinct = distinct case content")
    trusted_base = [
        "hv/props/c19.py harness entities (publisher, actor, consumers) and the tracing wrapper around "
        "MessageQueue.handle_event that records which generator segment ran at which instant",
        "one private read: MessageQueue._pending_queue[-1] right after publish()'s first segment (the id is "
        "returned only 100 µs later; the returned id is then checked against it)",
        "the engine's ordering of events (C01/C02): the schedule is taken from the real run",
        "EventLog.handle_event / ConsumerGroup.handle_event are wrapped in harness subclasses only to log when a segment ran; "
        "what an append/read/poll answered is the value of the caller's reply future (public Record fields); retained records "
        "after a sweep are read from the public log.partitions[p].records; committed offsets are observed through "
        "consumer_lag() and high_watermark()",
        "md5 of the key computed by the harness (hashlib) and shipped mod 840 as the sharding-hash parameter",
    ]
    assumptions = [
        "a DeadLetterQueue without capacity/retention is configured (reject(requeue=False) without a DLQ discards by the API's own definition)",
        "first-delivery order is judged until a reject(requeue=True) of a never-delivered message (that call moves it behind later messages by definition)",
        "'no delivery after ack' is about deliveries that START after the acknowledgement; one already in its latency may still arrive",
        "an acknowledgement is the consumer's acknowledge(k) call for a published id, wherever the message is in its life cycle "
        "(in flight, back in pending after a timeout, requeued, dead-lettered): after the call no delivery of k may start, and if the "
        "queue still owed k (published, never acknowledged, not dead-lettered — judged from the trace alone) the acknowledged counter "
        "moves by one",
        "'every requested redelivery …' / 'the limit moves a message to the dead-letter queue': schedule_redelivery(k) on a message that is in flight (a delivery started, "
        "no ack / reject / effective timeout since) while no redelivery event for k is outstanding must hand out a redelivery event or dead-letter — judged from the trace "
        "(mq/redelivery/timeout-of-in-flight-message-refused); a redelivery event that fires for a message the queue owes while a consumer is subscribed must start a delivery "
        "(mq/redelivery/timer-fired-consumer-subscribed-not-delivered); with nobody subscribed the message stays pending (clause accounted)",
        "assignment strategies: consumer names and partition ids are duplicate-free (what ConsumerGroup passes)",
        "stream/topic times are on a 0.5 s / integer-ns grid so that the code's float seconds are exact",
        "read(max_records=0): the clause 'the first min(m, count) records' is judged for m ≥ 1; for m = 0 the code hands out one "
        "record (its loop tests the bound after appending) and the judge accepts either nothing or that one record",
        "the committed offset a poll must start from is the largest offset the member ever passed to commit() for the partition "
        "(commit requests are inputs); consumer_lag() must agree with it",
        "Topic after the fix delivers to every subscriber at the instant publish() returns (t + n·latency)",
    ]
    hypotheses = [
        "cfg.legacy = false / legacyCommit = false (the tree after fixes/C19-*.diff)",
        "first_deliveries_in_publish_order: RedelivLegit (a message_redelivery event only for a message delivered before) — weakened in "
        "first_deliveries_in_publish_order_causal to the engine fact TimerCausal: a message_redelivery event is delivered only if schedule_redelivery "
        "handed one out that has not been delivered yet (TimerCausal ⇒ RedelivLegit is proved)",
        "delivery_reaches_consumer / topic: quiescent end (no delivery still suspended or in the heap) — for the queue discharged by "
        "delivery_safe_on_every_schedule: without it every per-step clause still holds and the judge's only possible objection is the end-of-run one, "
        "raised exactly when a delivery is still on its way at the cut",
        "MQ.fire: the engine resumes a generator exactly `latency` after the yield (C02)",
        "offsets / reads / retention: schedule times nondecreasing (engine clock, C01); partitions > 0",
        "key stability: the sharding hash is a function of the key (parameter)",
    ]

    def __init__(self):
        self._sched_cache = {}
        self._enum = None

    # ------------------------------------------------------------------ generation
    def generate(self, rng: random.Random, i: int, tier: str) -> dict:
        if tier == "thorough":
            if self._enum is None:
                self._enum = enum_assign_cases()
            if i < len(self._enum):
                return self._enum[i]
        # of every 20 cases the last few go to the extension families, the rest to the core ones
        slot, base = i % 20, 20
        for m in EXT.values():
            if not getattr(m, "ENABLED", True):
                continue
            base -= m.SLOTS
            if slot >= base:
                return m.generate(rng, tier)
        i = (i // 20) * base + slot
        k = i % 10
        if k < 5:
            return gen_mq_life(rng, tier) if rng.random() < 0.3 else gen_mq(rng, tier)
        if k < 7:
            return gen_assign(rng, tier)
        if k < 9:
            return gen_stream_ret(rng, tier) if rng.random() < 0.5 else gen_stream(rng, tier)
        return gen_topic(rng, tier)

    # ------------------------------------------------------------------ implementation
    def run_impl(self, case):
        out = self._run_impl(case)
        if os.environ.get("HV_SERIAL"):
            if len(self._sched_cache) > 20000:
                self._sched_cache.clear()
            self._sched_cache[json.dumps(case, sort_keys=True)] = [str(x) for x in out]
        return out

    def _run_impl(self, case):
        fam = case["family"]
        if fam == "mq":
            return _MQHarness(case).run()
        if fam == "assign":
            return impl_assign(case)
        if fam == "stream":
            return _StreamHarness(case).run()
        if fam == "topic":
            return _TopicHarness(case).run()
        if fam in EXT:
            return EXT[fam].run_impl(case)
        raise ValueError(fam)

    def _impl_cached(self, case):
        key = json.dumps(case, sort_keys=True)
        if key not in self._sched_cache:
            if len(self._sched_cache) > 20000:
                self._sched_cache.clear()
            self._sched_cache[key] = core.run_impl_safe(self, case)
        return self._sched_cache[key]

    # ------------------------------------------------------------------ model / judge
    def model_block(self, case, variant):
        fam = case["family"]
        if fam in EXT:
            return EXT[fam].model_block(case, variant, self._impl_cached(case))
        if fam == "mq":
            # the schedule (time + action of every segment the engine ran) comes from the real run
            sched = [l.split(" => ")[0] for l in self._impl_cached(case) if " => " in l]
            return ("mq " + mq_cfg(case, variant), sched)
        if fam == "assign":
            return (f"assign {case['strategy']}", assign_body(case))
        if fam == "stream":
            sched = [l.split(" => ")[0] for l in self._impl_cached(case) if " => " in l]
            return (stream_hdr(case, variant), sched)
        if fam == "topic":
            sched = [l.split(" => ")[0] for l in self._impl_cached(case) if " => " in l]
            return (f"topic {variant}", sched)
        raise ValueError(fam)

    def judge_block(self, case, impl_out):
        if impl_out and impl_out[0].startswith("IMPL-"):
            return None
        fam = case["family"]
        if fam in EXT:
            return EXT[fam].judge_block(case, impl_out)
        if fam == "mq":
            return ("judge-mq " + mq_cfg(case, "repaired"), [l for l in impl_out if " => " in l])
        if fam == "assign":
            body, calls = [], assign_body(case)
            obs = list(impl_out)
            if len(obs) != len(calls):
                return None
            for c, o in zip(calls, obs):
                body.append(c)
                if c != "new":
                    body.append(o)
            return ("judge-assign", body)
        if fam == "stream":
            return (f"judge-stream {case['n']} {case['ret'][0]} {case['ret'][1]}", [l for l in impl_out if " => " in l])
        if fam == "topic":
            return ("judge-topic", [l for l in impl_out if " => " in l])
        return None

    def model_postprocess(self, case, out):
        return [l.rstrip() for l in out]

    def nontrivial_key(self, case, impl_out):
        fam = case["family"]
        if fam in EXT:
            return EXT[fam].nontrivial_key(case, impl_out)
        if fam == "mq":
            if any(" recv " in l for l in impl_out):
                return json.dumps(case, sort_keys=True)
            return None
        if fam == "assign":
            if any(len(call[1]) >= 2 and len(call[0]) >= 2 for seq in case["seqs"] for call in seq):
                return json.dumps(case, sort_keys=True)
            return None
        if fam == "stream":
            if any(" app " in l for l in impl_out) or any(" reb " in l for l in impl_out):
                return json.dumps(case, sort_keys=True)
            return None
        if fam == "topic":
            if any(" recv " in l for l in impl_out):
                return json.dumps(case, sort_keys=True)
            return None
        return json.dumps(case, sort_keys=True)

    def shrink(self, case):
        fam = case["family"]
        if fam in EXT:
            if hasattr(EXT[fam], "shrink"):
                yield from EXT[fam].shrink(case)
            return
        key = {"mq": "ops", "stream": "ops", "topic": "ops", "assign": "seqs"}.get(fam)
        if key is None:
            return
        xs = case[key]
        n = len(xs)
        step = max(1, n // 2)
        while step >= 1:
            for i in range(0, n, step):
                cand = dict(case)
                cand[key] = xs[:i] + xs[i + step:]
                if len(cand[key]) < n:
                    yield cand
            step //= 2
        if fam == "mq":
            if case.get("reacts"):
                for i in range(len(case["reacts"])):
                    cand = dict(case)
                    cand["reacts"] = case["reacts"][:i] + ["none"] + case["reacts"][i + 1:]
                    if cand["reacts"] != case["reacts"]:
                        yield cand
                cand = dict(case)
                cand["reacts"] = case["reacts"][:-1]
                yield cand
            if case.get("cap") is not None:
                yield dict(case, cap=None)

    def mutate(self, case, rng):
        fam = case["family"]
        if fam in EXT:
            return EXT[fam].mutate(case, rng) if hasattr(EXT[fam], "mutate") else case
        if fam == "assign":
            seqs = [[[list(c[0]), list(c[1])] for c in seq] for seq in case["seqs"]]
            if not seqs:
                return case
            seq = rng.choice(seqs)
            if seq:
                call = rng.choice(seq)
                r = rng.random()
                if r < 0.4:
                    c = rng.randrange(6)
                    if c in call[1]:
                        call[1].remove(c)
                    else:
                        call[1].append(c)
                elif r < 0.7:
                    call[0] = list(range(rng.randint(0, 8)))
                else:
                    seq.append([list(call[0]), list(call[1])])
            return dict(case, seqs=seqs, enum=False)
        if not case.get("ops"):
            return case
        xs = [list(x) for x in case["ops"]]
        for _ in range(rng.randint(1, 3)):
            i = rng.randrange(len(xs))
            r = rng.random()
            if r < 0.3 and len(xs) > 1:
                del xs[i]
            elif r < 0.7:
                dup = list(rng.choice(xs))
                dup[0] = xs[i][0]
                xs.insert(i, dup)
            else:
                xs[i][0] += rng.choice([GRID] if fam == "stream" else [1, 1_000_000, case.get("lat_ns", 0)])
        xs.sort(key=lambda o: o[0])
        return dict(case, ops=xs)


THEOREMS = [
    "HappyModel.C19.Props.message_accounted",
    "HappyModel.C19.Props.accounted_partition",
    "HappyModel.C19.Props.first_deliveries_in_publish_order",
    "HappyModel.C19.Props.redelivery_limit_to_dlq",
    "HappyModel.C19.Props.no_delivery_after_ack",
    "HappyModel.C19.Props.ack_is_final",
    "HappyModel.C19.Props.ack_of_owed_message_takes_effect",
    "HappyModel.C19.Props.redelivery_never_stuck",
    "HappyModel.C19.Props.first_deliveries_in_publish_order_causal",
    "HappyModel.C19.Props.delivery_safe_on_every_schedule",
    "HappyModel.C19.Props.delivery_reaches_consumer",
    "HappyModel.C19.Props.legacy_stale_stamp_witness",
    "HappyModel.C19.Props.legacy_ghost_pending_witness",
    "HappyModel.C19.Props.assignment_is_partition",
    "HappyModel.C19.Props.rebalance_is_partition",
    "HappyModel.C19.Props.committed_monotone",
    "HappyModel.C19.Props.legacy_commit_witness",
    "HappyModel.C19.Props.offsets_gap_free_increasing",
    "HappyModel.C19.Props.key_partition_stable",
    "HappyModel.C19.Props.read_returns_retained_suffix",
    "HappyModel.C19.Props.retention_keeps_policy",
    "HappyModel.C19.Props.topic_exactly_once_per_active_subscriber",
    "HappyModel.C19.Props.legacy_topic_witness",
]
C19.partial_theorems = dict(getattr(C19, "partial_theorems", {}) or {})
for _m in EXT.values():
    THEOREMS = THEOREMS + list(_m.THEOREMS)
    C19.rule = C19.rule + "; " + _m.RULE
    C19.trusted_base = C19.trusted_base + list(_m.TRUSTED)
    C19.assumptions = C19.assumptions + list(_m.ASSUMPTIONS)
    C19.hypotheses = C19.hypotheses + list(_m.HYPOTHESES)
    C19.partial_theorems = {**C19.partial_theorems, **_m.PARTIAL}
C19.theorems = THEOREMS
PROPERTY = C19()
